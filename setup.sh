#!/bin/sh
# Build the fact-extraction driver and warm the dependency check cache (offline).
set -e
cd "$(dirname "$0")"
export CARGO_NET_OFFLINE=true
(cd sa/driver && cargo build --offline)
python3 - <<'PY'
import sys
sys.path.insert(0, "sa")
from lib import extract
d, sha, dt, cached = extract.extract("dev")
print("facts:", d, sha[:16], "%.1fs" % dt, "cached" if cached else "fresh")
PY

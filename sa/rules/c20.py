"""C20 — the executable separates data from diagnostics and signals failure by exit code."""
from lib.peval import PE
from lib.prov import Prov
from rules import common
from rules import c06_shared

INFO = {
    "decided": "main()'s wiring, completely: the writer handed to jawk::go as its second argument comes from "
               "std::io::stdout(), the third from std::io::stderr() (and not stdout), the fourth from std::io::stdin; "
               "on the Err edge main writes through eprintln! and calls std::process::exit with a non-zero constant "
               "and never returns normally; on the Ok edge it returns without a non-zero exit; nothing else in "
               "either crate touches the process' standard streams or exits the process; Master::go flushes the "
               "output writer (propagating the error) before every successful return; and read_input routes "
               "diagnostics to the stderr parameter only under --on-error=stderr and rows/diagnostics to the stdout "
               "parameter otherwise (shared rule C06-ROUTE). Output leaves the library only through write_fmt / write_all on the stream main handed in, and the only flush is Master::go's: a buffer of the library's own could fail after go() answered Ok.",
    "not_decided": "What the operating system does with a closed pipe (SIGPIPE) and clap's own exit codes for "
                   "argument errors.",
    "trusted": ["std::io::stdout/stderr/stdin/_print/_eprint and std::process::exit are the only std entry points "
                "to the process' streams and exit status used by a Rust program without unsafe/libc"],
}

# value-preserving wrappers around the stream object (a buffering wrapper is fine because Master::go
# flushes with error propagation, rule C20-FLUSH)
WRAP = ("Rc::<T>::new", "RefCell::<T>::new", "Box::<T>::new", "Box::<T, A>::new", "BufWriter::<W>::new",
        "LineWriter::<W>::new", "BufWriter::<W>::with_capacity")
STREAM_FNS = {"std::io::stdout", "std::io::stderr", "std::io::stdin", "std::io::_print", "std::io::_eprint",
              "std::io::stdout_locked", "std::io::stdin_locked"}
EXIT_FNS = {"std::process::exit", "std::process::abort"}


def run(ctx, rep):
    lib, binc = ctx.lib, ctx.bin
    r1 = rep.rule("C20-WIRING", "main passes stdout(), stderr(), stdin to jawk::go in that order", floor=3,
                  analysis="A4 provenance of the arguments of the jawk::go call in the bin crate")
    r2 = rep.rule("C20-EXIT", "Err from go => eprintln! and process::exit(non-zero), no normal return; Ok => normal "
                  "return", floor=2, analysis="A5 partial evaluation of main with the result of go seeded")
    r3 = rep.rule("C20-STD-OWNER", "only main (and the --additional-help printer) touch the process' standard "
                  "streams or exit the process", floor=5, analysis="A1 who-may-call census over lib and bin")
    r4 = rep.rule("C20-FLUSH", "Master::go flushes the output writer, propagating the error, before every successful "
                  "return that follows start()", floor=1, analysis="A2 must-pass-through + A4 receiver provenance")
    main = binc.body("main")
    if main is None:
        r1.missing("main")
        return
    gos = [c for c in main.calls if (c.name or "") == "jawk::go" or (c.callee or "") == "jawk::go"]
    if len(gos) != 1:
        r1.missing("exactly one call of jawk::go in main (found %d)" % len(gos))
        return
    go = gos[0]
    pr = Prov(main, common.LOOK + WRAP)
    want = [(1, "std::io::stdout", "stdout"), (2, "std::io::stderr", "stderr"), (3, "std::io::stdin", "stdin")]
    for ai, fn, label in want:
        if ai >= len(go.args):
            r1.bad("go#arg%d" % ai, "jawk::go has fewer arguments than expected", go.where())
            continue
        srcs = set()
        for a in pr.call_arg_origins(go, ai):
            if a[0] == "call":
                srcs.add(main.call_at[a[1]].name)
            elif a[0] == "const" and "std::io::" in a[1]:
                srcs.add(a[1].replace("const ", "").strip())
            elif a[0] in ("via", "op"):
                continue
            elif a[0] in ("agg", "arg", "local", "unknown", "outparam"):
                srcs.add(str(a[0]))
        key = "main#go.arg%d(%s)" % (ai, label)
        if srcs == {fn}:
            r1.ok(key, "derives from %s only" % fn, go.where())
        else:
            r1.bad(key, "the %s parameter of jawk::go derives from %s, expected exactly {%s}: data and diagnostics "
                   "are not separated" % (label, sorted(srcs), fn), go.where())
    # EXIT
    for label, val in (("Err", ("adt", 1, (None,))), ("Ok", ("adt", 0, (("adt", 0, ()),)))):
        def model(c, av, env, pe, val=val):
            if c.bb == go.bb:
                return (True, val)
            return None
        res = PE(main, model).run(start=go.bb)
        exits = [(c, av) for bb, c, av in res.calls if c.name in EXIT_FNS]
        eprints = [c for bb, c, av in res.calls if c.name == "std::io::_eprint"]
        prints = [c for bb, c, av in res.calls if c.name == "std::io::_print"]
        key = "main#" + label
        if label == "Err":
            codes = [av[0] for c, av in exits if c.name == "std::process::exit"]
            if res.returns:
                r2.bad(key, "main can return normally (exit status 0) after go() failed", go.where())
            elif not exits:
                r2.bad(key, "no process::exit on the error path", go.where())
            elif any(cd is None or cd[1] == 0 for cd in codes):
                r2.bad(key, "process::exit is called with %s on the error path (must be a non-zero constant)"
                       % codes, exits[0][0].where())
            elif not eprints or prints:
                r2.bad(key, "the error message is not written with eprintln!/eprint! (stderr)", go.where())
            else:
                r2.ok(key, "eprintln! then exit(%s)" % codes[0][1], exits[0][0].where())
        else:
            bad = [av for c, av in exits if c.name != "std::process::exit" or av[0] is None or av[0][1] != 0]
            if bad:
                r2.bad(key, "the success path exits with a non-zero status", go.where())
            elif not res.returns and not exits:
                r2.bad(key, "the success path neither returns nor exits", go.where())
            else:
                r2.ok(key, "returns normally", go.where())
    # STD-OWNER
    allowed = {("bin", "main"), ("lib", "additional_help::display_additional_help")}
    seen = 0
    for kind, cr in (("lib", lib), ("bin", binc)):
        for name, b in cr.bodies.items():
            hits = []
            for c in b.calls:
                if c.name in STREAM_FNS or c.name in EXIT_FNS:
                    hits.append((c.name, c))
                for a in c.args:
                    if a.get("fn") in STREAM_FNS:
                        hits.append((a["fn"], c))
            for bb, idx, place, rv, st in b.assignments():
                for o in _ops(rv):
                    if o.get("fn") in STREAM_FNS:
                        hits.append((o["fn"], None))
            for fn, c in hits:
                seen += 1
                key = "%s:%s#%s" % (kind, name, fn)
                if (kind, name) in allowed or (kind == "lib" and name.split(" as ")[0].lstrip("<").startswith(
                        ("build_docs::", "selection_help::"))):
                    # the documentation generator (feature create-docs) reports its progress on stdout; it is not
                    # part of a run over data
                    r3.ok(key, "allowed owner", c.where() if c else b.where(), nontrivial=False)
                else:
                    r3.bad(key, "%s is used outside main: rows or diagnostics can bypass the streams chosen by main"
                           % fn, c.where() if c else b.where())
    # FLUSH
    c06_shared.flush_rule(r4, lib)
    c06_shared.route(rep, lib, rid="C06-ROUTE")
    # a failed read or write must surface as Err from go(), otherwise the exit status stays 0
    from rules import c16
    c16.eof_distinct(rep, lib)
    c16.no_drop(rep, lib)
    c06_shared.recover(rep, lib, require_recoverable=True)
    # ... and a write that is held in a buffer of the library's own (flushed on drop, or by a complete() that some
    # stage does not forward) fails after go() has answered Ok: the output side of the raw-I/O census
    c16.raw_io(rep, lib, side="output")


def _ops(rv):
    k = rv["k"]
    if k in ("use", "cast", "repeat"):
        return [rv["op"]]
    if k == "binop":
        return [rv["a"], rv["b"]]
    if k == "agg":
        return rv["ops"]
    return []

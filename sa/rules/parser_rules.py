"""Byte-table rules about the hand-written JSON parser (C01, shared with C05 / C06)."""
from lib.peval import PE, ok as OK, some, byte, NONE
from rules import common

ALL = list(range(256)) + [None]


def seedval(b):
    return OK(some(byte(b))) if b is not None else OK(NONE)


def hexs(bs):
    return "{" + ",".join("EOF" if b is None else "%02X" % b for b in sorted(bs, key=lambda x: -1 if x is None else x)) + "}"


def ranges(vs):
    xs = sorted(v for v in vs if v is not None)
    out = []
    i = 0
    while i < len(xs):
        j = i
        while j + 1 < len(xs) and xs[j + 1] == xs[j] + 1:
            j += 1
        out.append("%02X" % xs[i] if i == j else "%02X-%02X" % (xs[i], xs[j]))
        i = j + 1
    if None in vs:
        out.append("EOF")
    return ",".join(out)


def is_next(c):
    return (c.name or "").endswith("reader::Reader::<R>::next")


def is_peek(c):
    return (c.name or "").endswith("reader::Reader::<R>::peek")


def is_ws(c):
    return (c.name or "").endswith("reader::Reader::<R>::eat_whitespace")


def parser_body(lib, m):
    for n, b in lib.bodies.items():
        if n.endswith("::" + m) and ("json_parser::JsonParser" in n):
            return b
    return None


def table_for(body, site, lib, stop=(), watch=None):
    """For each byte (and EOF) the PE result of running from `site` with its result seeded."""
    out = {}
    eq_ok = common.derived_eq_ok(lib)
    for b in ALL:
        def model(c, av, env, pe, b=b):
            if c.bb == site.bb:
                return (True, seedval(b))
            return None
        out[b] = PE(body, model, eq_ok=eq_ok).run(start=site.bb, stop=stop)
    return out


# ------------------------------------------------------------------ C01-BYTEOR

def byteor(rep, ctx):
    r = rep.rule("C01-BYTEOR", "no binary `|`/`&` whose two operands are both byte/char literals in expression "
                 "position (an or-pattern written where an expression is expected: `b'e' | b'E'` == b'e')",
                 floor=0, analysis="post-expansion AST census of literal/literal binary operators")
    n = 0
    for cr in (ctx.lib, ctx.bin):
        for bl in cr.binlits:
            n += 1
            ka, kb = bl["a"]["kind"], bl["b"]["kind"]
            if bl["op"] in ("BitOr", "BitAnd") and ka in ("Byte", "Char") and kb in ("Byte", "Char"):
                fn = cr.fn_at(bl["loc"]["file"], bl["loc"]["line"])
                r.bad("%s#%s%s%s" % (fn, bl["a"]["sym"], "|" if bl["op"] == "BitOr" else "&", bl["b"]["sym"]),
                      "`%s %s %s` is an integer operation on two literals, not an or-pattern: only one of the two "
                      "bytes is ever matched" % (bl["a"]["sym"], bl["op"], bl["b"]["sym"]),
                      "%s:%d" % (bl["loc"]["file"], bl["loc"]["line"]))
    r.note("literal/literal binary operators in the crate: %d" % n)
    r.ok("census", "%d literal/literal binary operator(s), none on two byte/char literals with | or &" % n, "",
         nontrivial=False)
    return r


# ------------------------------------------------------------------ C01-DISPATCH

READERS = ("read_true", "read_false", "read_null", "read_string", "read_number", "read_array", "read_object")


def dispatch_table(lib):
    """byte -> (set of reader callees reached, number of direct Reader::next calls, returns)"""
    b = parser_body(lib, "next_json_value")
    if b is None:
        return None, None, None
    peeks = [c for c in b.calls if is_peek(c)]
    if len(peeks) != 1:
        return b, None, None
    tab = table_for(b, peeks[0], lib)
    out = {}
    for v, res in tab.items():
        readers = set()
        nexts = []
        for bb, c, av in res.calls:
            m = (c.callee or "").rsplit("::", 1)[-1]
            if m in READERS:
                readers.add(m)
            if is_next(c):
                nexts.append(c)
        out[v] = (readers, nexts, res)
    return b, peeks[0], out


class _Grouped:
    """Collects per-byte violations and reports one instance per distinct message."""

    def __init__(self, r, prefix):
        self.r = r
        self.prefix = prefix
        self.groups = {}

    def bad(self, v, msg, where):
        self.groups.setdefault((msg, where), []).append(v)

    def flush(self):
        for (msg, where), vs in self.groups.items():
            self.r.extra += len(vs) - 1
            self.r.bad("%s[%s]" % (self.prefix, ranges(vs)), "%s  (bytes %s)" % (msg, ranges(vs)), where)


def dispatch(rep, lib):
    r = rep.rule("C01-DISPATCH", "next_json_value selects, for each possible first byte, exactly the reader RFC 8259 "
                 "prescribes; end of input gives Ok(None); every other byte is consumed once and reported",
                 floor=257, analysis="A5 partial evaluation over all 256 byte values + EOF; oracle sa/tables/rfc8259.toml")
    tab = common.table("rfc8259.toml")
    want = {ord(k): v for k, v in tab["dispatch"].items()}
    b, peek, t = dispatch_table(lib)
    if b is None or t is None:
        r.missing("next_json_value with a single peek() decision")
        return None
    g = _Grouped(r, "next_json_value")
    for v in ALL:
        readers, nexts, res = t[v]
        key = "next_json_value[%s]" % ("EOF" if v is None else "%02X" % v)
        if v is None:
            if readers or nexts:
                r.bad(key, "at end of input a reader is called: %s" % sorted(readers), peek.where())
            elif not all(x == OK(NONE) for _, x in res.returns if x is not None and x[0] == "adt" and x[1] == 0) \
                    or not any(x == OK(NONE) for _, x in res.returns):
                r.bad(key, "end of input does not return Ok(None)", peek.where())
            else:
                r.ok(key, "Ok(None)", peek.where())
            continue
        w = want.get(v)
        if w:
            if readers == {w} and not nexts:
                r.ok(key, w, peek.where())
            else:
                r.bad(key, "byte %r must start %s, but reaches %s%s" % (chr(v), w, sorted(readers) or "no reader",
                      " and consumes a byte itself" if nexts else ""), peek.where())
        else:
            if readers:
                g.bad(v, "a byte that cannot start a JSON value is handed to %s" % sorted(readers), peek.where())
            elif len({c.bb for c in nexts}) != 1 or any(b.in_loop(c.bb) for c in nexts):
                g.bad(v, "a byte that cannot start a value must be consumed exactly once before the error is "
                      "returned (found %d next() site(s)%s): otherwise the read loop does not advance / skips into "
                      "the following value" % (len({c.bb for c in nexts}),
                                               ", inside a loop" if any(b.in_loop(c.bb) for c in nexts) else ""),
                      peek.where())
            elif any(x is None or x[0] != "adt" or x[1] != 1 for _, x in res.returns):
                g.bad(v, "the byte is not reported as an error on every path", peek.where())
            else:
                r.ok(key, "consumed once, Err", peek.where(), nontrivial=False)
    g.flush()
    return t


# ------------------------------------------------------------------ C01-WS

def ws(rep, lib):
    r = rep.rule("C01-WS", "Reader::eat_whitespace consumes exactly the RFC 8259 insignificant whitespace "
                 "{20, 09, 0A, 0D} and stops at everything else (including end of input)", floor=257,
                 analysis="A5 partial evaluation over all byte values")
    b = lib.body("reader::Reader::<R>::eat_whitespace")
    if b is None:
        r.missing("Reader::eat_whitespace")
        return
    peeks = [c for c in b.calls if is_peek(c) or is_next(c)]
    seeds = [c for c in b.calls if is_peek(c)]
    if len(seeds) != 1:
        r.missing("single peek() in eat_whitespace")
        return
    want = set(common.table("rfc8259.toml")["whitespace"])
    t = table_for(b, seeds[0], lib)
    consumed = {v for v, res in t.items() if any(is_next(c) for _, c, _ in res.calls)}
    g = _Grouped(r, "eat_whitespace")
    for v in ALL:
        key = "eat_whitespace[%s]" % ("EOF" if v is None else "%02X" % v)
        c = v in consumed
        if c != (v in want):
            g.bad(v, "byte is %s by eat_whitespace, RFC 8259 whitespace is %s"
                  % ("consumed" if c else "not consumed", hexs(want)), b.where())
        else:
            # a non-whitespace byte must end the function with Ok
            if not c and not any(x is not None and x[0] == "adt" and x[1] == 0 for _, x in t[v].returns):
                g.bad(v, "eat_whitespace does not return Ok at a non-whitespace byte", b.where())
            else:
                r.ok(key, "consumed" if c else "stops", b.where(), nontrivial=v in want)
    g.flush()
    return consumed


# ------------------------------------------------------------------ C01-NUMBER

def _classes(body, site, lib, stop):
    """Partition of byte values by behaviour after `site`: {signature: set(bytes)}."""
    t = table_for(body, site, lib, stop=stop)
    part = {}
    info = {}
    for v, res in t.items():
        pushes = tuple(sorted({av[1][1] for _, c, av in res.calls
                               if (c.name or "").endswith("Vec::<T, A>::push") and len(av) > 1 and av[1] is not None
                               and av[1][0] == "i"}))
        unknown_push = any((c.name or "").endswith("Vec::<T, A>::push") and (len(av) < 2 or av[1] is None)
                           for _, c, av in res.calls)
        consumed = any(is_next(c) for _, c, _ in res.calls)
        sig = (frozenset(res.visited & set(stop)), pushes, unknown_push, consumed,
               tuple(sorted({(x[1] if x is not None and x[0] == "adt" else -1) for _, x in res.returns})))
        part.setdefault(sig, set()).add(v)
        info[sig] = (pushes, unknown_push, consumed)
    return part, info


def number(rep, lib):
    r = rep.rule("C01-NUMBER", "the byte decisions of read_number are RFC 8259's: minus {2D}; fraction marker {2E}; "
                 "exponent marker {65,45}; exponent sign {2D},{2B}; and read_digits accepts exactly 30-39",
                 floor=6, analysis="A5 partial evaluation of each peek() decision over all byte values")
    b = parser_body(lib, "read_number")
    if b is None:
        r.missing("read_number")
        return
    tab = common.table("rfc8259.toml")["number"]
    peeks = [c for c in b.calls if is_peek(c)]
    # order by dominance
    peeks.sort(key=lambda c: sum(1 for d in peeks if b.dominates(d.bb, c.bb)))
    stop_all = {c.bb for c in b.calls if is_peek(c) or (c.name or "").endswith("read_digits")
                or (c.name or "").endswith("String::from_utf8")}
    if len(peeks) != len(tab):
        r.bad("read_number#decisions", "read_number has %d peek() decisions, the grammar has %d (minus, fraction, "
              "exponent, exponent sign)" % (len(peeks), len(tab)), b.where())
        return
    for site, spec in zip(peeks, tab):
        part, info = _classes(b, site, lib, stop=stop_all - {site.bb})
        # default class: the one containing a byte that no number syntax uses (0x00)
        default = [s for s, vs in part.items() if 0 in vs][0]
        got = []
        for s, vs in part.items():
            if s == default:
                continue
            got.append((frozenset(vs), info[s]))
        want = [(frozenset(c["bytes"]), c) for c in spec["classes"]]
        key = "read_number#%s" % spec["name"]
        gs = sorted([hexs(g[0]) for g in got])
        ws_ = sorted([hexs(w[0]) for w in want])
        if None not in part[default]:
            r.bad(key, "end of input is not treated like an ordinary terminator", site.where())
            continue
        if gs != ws_:
            r.bad(key, "the %s decision distinguishes byte classes %s, RFC 8259 needs %s" % (spec["name"], gs, ws_),
                  site.where())
            continue
        bad = None
        for wset, c in want:
            pushes, unknown_push, consumed = [g[1] for g in got if g[0] == wset][0]
            if unknown_push or not set(pushes) <= set(c["push"]) or (c["push"] and not pushes):
                bad = "class %s appends %s to the number text, allowed %s" % (hexs(wset), list(pushes), c["push"])
            if consumed != c["consume"]:
                bad = "class %s %s the byte" % (hexs(wset), "does not consume" if c["consume"] else "consumes")
        if bad:
            r.bad(key, bad, site.where())
        else:
            r.ok(key, "classes %s" % gs, site.where())
    # digits
    rd = lib.body("reader::Reader::<R>::read_digits")
    if rd is None:
        r.missing("Reader::read_digits")
    else:
        ps = [c for c in rd.calls if is_peek(c)]
        if len(ps) != 1:
            r.missing("single peek() in read_digits")
        else:
            t = table_for(rd, ps[0], lib)
            acc = {v for v, res in t.items() if any(is_next(c) for _, c, _ in res.calls)}
            pushed_ok = all(any((c.name or "").endswith("Vec::<T, A>::push") and av[1] == ("i", v)
                                for _, c, av in t[v].calls) for v in acc if v is not None)
            if acc != set(range(0x30, 0x3A)):
                r.bad("read_digits", "read_digits accepts %s, digits are {30..39}" % hexs(acc), rd.where())
            elif not pushed_ok:
                r.bad("read_digits", "an accepted digit is not appended verbatim", rd.where())
            else:
                r.ok("read_digits", "accepts 30-39, appends the digit itself", rd.where())
    # call sites of read_digits: one per digit run (int, frac, exp)
    nd = len([c for c in b.calls if (c.name or "").endswith("read_digits")])
    if nd != 3:
        r.bad("read_number#digit-runs", "read_number reads %d digit runs, the grammar has 3 (int, frac, exp)" % nd, b.where())
    else:
        r.ok("read_number#digit-runs", "3", b.where(), nontrivial=False)


# ------------------------------------------------------------------ C01-ESCAPES

def escapes(rep, lib):
    r = rep.rule("C01-ESCAPES", "read_string: an unescaped byte is appended verbatim, `\"` ends the string, `\\` "
                 "starts an escape; escape letters decode to the RFC 8259 bytes; \\u reads exactly four hex digits "
                 "with the right digit values", floor=10, analysis="A5 partial evaluation of the three next() "
                 "decisions of read_string over all byte values")
    b = parser_body(lib, "read_string")
    if b is None:
        r.missing("read_string")
        return None
    nexts = [c for c in b.calls if is_next(c)]
    loops = b.loops()
    inloop = [c for c in nexts if b.in_loop(c.bb)]
    if not inloop:
        r.missing("next() inside the string loop")
        return None
    s1 = [c for c in inloop if all(b.dominates(c.bb, d.bb) for d in inloop)]
    if len(s1) != 1:
        r.missing("a single dominating next() in the string loop")
        return None
    s1 = s1[0]
    t1 = table_for(b, s1, lib, stop={s1.bb})
    esc_sites = set()
    end_bytes = set()
    verbatim_bad = []
    for v in range(256):
        res = t1[v]
        pushes = [av for _, c, av in res.calls if (c.name or "").endswith("Vec::<T, A>::push")]
        reached_next = {c.bb for _, c, _ in res.calls if is_next(c) and c.bb != s1.bb}
        utf = any((c.name or "").endswith("String::from_utf8") for _, c, _ in res.calls)
        if v == 0x22:
            if not utf or pushes:
                r.bad("read_string[22]", "`\"` does not end the string", s1.where())
            else:
                end_bytes.add(v)
        elif v == 0x5C:
            # the escape decision is the reached next() that dominates all other reached ones
            esc_sites = {x for x in reached_next if all(b.dominates(x, y) for y in reached_next)}
            if any(p[1] == ("i", 0x5C) and len(reached_next) == 0 for p in pushes if len(p) > 1):
                r.bad("read_string[5C]", "`\\` is appended instead of starting an escape", s1.where())
        else:
            if utf or len(pushes) != 1 or len(pushes[0]) < 2 or pushes[0][1] != ("i", v) or reached_next:
                verbatim_bad.append(v)
    if verbatim_bad:
        r.bad("read_string[verbatim]", "bytes %s inside a string are not appended unchanged exactly once"
              % hexs(verbatim_bad), s1.where())
    else:
        r.ok("read_string[verbatim]", "254 byte values appended unchanged", s1.where())
    if 0x22 in end_bytes:
        r.ok("read_string[22]", "ends the string", s1.where())
    # EOF inside a string is an error
    rese = t1[None]
    if any(x is None or x[0] != "adt" or x[1] != 1 for _, x in rese.returns) or not rese.returns:
        r.bad("read_string[EOF]", "end of input inside a string is not an error", s1.where())
    else:
        r.ok("read_string[EOF]", "Err", s1.where(), nontrivial=False)
    if len(esc_sites) != 1:
        r.bad("read_string[5C]", "`\\` must be followed by exactly one next() decision (found %d)" % len(esc_sites),
              s1.where())
        return None
    s2 = b.call_at[list(esc_sites)[0]]
    r.ok("read_string[5C]", "starts an escape", s2.where())
    others2 = {c.bb for c in nexts if c.bb not in (s2.bb,)}
    t2 = table_for(b, s2, lib, stop=others2)
    want = {ord(k): v for k, v in common.table("rfc8259.toml")["escapes"].items()}
    hex_sites = set()
    decoded = {}
    for v in ALL:
        res = t2[v]
        pushes = [av[1] for _, c, av in res.calls if (c.name or "").endswith("Vec::<T, A>::push") and len(av) > 1]
        nx = {c.bb for c in nexts if c.bb in res.visited and c.bb not in (s2.bb, s1.bb)}
        key = "escape[%s]" % ("EOF" if v is None else "%02X" % v)
        if v in want:
            if len(pushes) == 1 and pushes[0] == ("i", want[v]) and not nx:
                decoded[v] = want[v]
                r.ok(key, "\\%s -> %02X" % (chr(v), want[v]), s2.where())
            else:
                r.bad(key, "escape \\%s must decode to byte %02X, found pushes %s" % (chr(v), want[v], pushes), s2.where())
        elif v == 0x75:
            hex_sites = nx
            after_digits = set()
            for x in nx:
                after_digits |= b.reachable(x)
            # what is appended once the digits are read is judged by escape[u]#value below
            pushes = [av[1] for bb_, c, av in res.calls if (c.name or "").endswith("Vec::<T, A>::push") and len(av) > 1
                      and c.bb not in after_digits]
            if pushes and any(p is not None for p in pushes):
                r.bad(key, "\\u appends a constant byte", s2.where())
        else:
            if pushes or nx or any(x is None or x[0] != "adt" or x[1] != 1 for _, x in res.returns):
                r.bad(key, "byte %s after a backslash is not an RFC 8259 escape but is accepted"
                      % ("EOF" if v is None else "0x%02X" % v), s2.where())
    r.ok("escape[other]", "every other byte after `\\` is rejected", s2.where())
    if len(hex_sites) != 1:
        r.bad("escape[75]", "\\u must lead to exactly one hex-digit next() decision (found %d)" % len(hex_sites), s2.where())
        return decoded
    s3 = b.call_at[list(hex_sites)[0]]
    t3 = table_for(b, s3, lib, stop={c.bb for c in nexts})
    hv = {}
    # the digit is what is OR-ed into the accumulator: the definitions of the `|`'s right operand
    digit_defs = set()
    hloops = [bl for h_, bl in b.loops().items() if s3.bb in bl]
    hblocks = min(hloops, key=len) if hloops else set()
    for bb, idx, place, rv, _ in b.assignments():
        if bb in hblocks and rv["k"] == "binop" and rv["op"] == "BitOr" and rv["b"].get("k") in ("copy", "move") \
                and not rv["b"]["place"]["p"]:
            dl = rv["b"]["place"]["l"]
            digit_defs |= {(b2, i2) for b2, i2, p2, r2, _ in b.assignments() if p2["l"] == dl and not p2["p"]}
    for v in ALL:
        res = t3[v]
        froms = [av[0] for _, c, av in res.calls if (c.callee or "") == "std::convert::From::from"
                 and c.dest.get("ty") == "u32" and av and av[0] is not None]
        vals = set()
        for k in digit_defs:
            vals |= {x for x in res.assigns.get(k, ()) if x is not None}
        errs = [x for _, x in res.returns if x is not None and x[0] == "adt" and x[1] == 1]
        if res.panics:
            hv[v] = "panic"
        elif len(vals) == 1 and list(vals)[0][0] == "i":
            hv[v] = list(vals)[0][1]
        elif froms and not vals:
            hv[v] = froms[0][1]
    wanthex = {}
    for i in range(10):
        wanthex[0x30 + i] = i
    for i in range(6):
        wanthex[0x61 + i] = 10 + i
        wanthex[0x41 + i] = 10 + i
    if hv != wanthex:
        diff = {("%02X" % k if k is not None else "EOF"): (hv.get(k), wanthex.get(k))
                for k in set(hv) | set(wanthex) if hv.get(k) != wanthex.get(k)}
        r.bad("escape[u]#digits", "hex digit values differ from 0-9,a-f,A-F -> 0..15: (found, wanted) %s" % diff, s3.where())
    else:
        r.ok("escape[u]#digits", "22 hex digits with the right values; everything else rejected", s3.where())
    # exactly four digits: the loop around s3 iterates a Range built from constants 0 and 4
    rng = []
    for bb, idx, place, rv, _ in b.assignments():
        if rv["k"] == "agg" and rv.get("adt") == "std::ops::Range":
            vals = [o.get("int") for o in rv["ops"]]
            rng.append(vals)
    shl = [rv for bb, idx, place, rv, _ in b.assignments() if rv["k"] == "binop" and rv["op"].startswith("Shl")
           and rv["b"].get("int") == 4]
    bor = [rv for bb, idx, place, rv, _ in b.assignments() if rv["k"] == "binop" and rv["op"] == "BitOr"]
    if [0, 4] not in rng or not shl or not bor or not b.in_loop(s3.bb):
        r.bad("escape[u]#four", "the \\u decoder is not a loop over 0..4 accumulating (value << 4) | digit "
              "(ranges %s)" % rng, s3.where())
    else:
        r.ok("escape[u]#four", "for _ in 0..4 { chr = (chr << 4) | d }", s3.where())
    _escape_value(r, b, s1, s3, nexts)
    return decoded


def _escape_value(r, b, s1, s3, nexts):
    """What happens to the 16-bit value once its four digits are read: for every scalar value that is not a surrogate
    the character with exactly that code point is appended and nothing more is consumed."""
    # the accumulator: the destination of the `|` in the digit loop
    hl = [(h, blocks) for h, blocks in b.loops().items() if s3.bb in blocks]
    if not hl:
        return
    h, blocks = min(hl, key=lambda x: len(x[1]))
    acc = None
    for bb, idx, place, rv, _ in b.assignments():
        if bb in blocks and rv["k"] == "binop" and rv["op"] == "BitOr" and not place["p"]:
            acc = place["l"]
            # the value is usually copied into the user variable right away
            for st in b.stmts(bb)[idx + 1:]:
                if st["k"] == "assign" and st["rv"]["k"] == "use" and st["rv"]["op"].get("k") in ("move", "copy") \
                        and st["rv"]["op"]["place"]["l"] == acc and not st["place"]["p"]:
                    acc = st["place"]["l"]
    exits = sorted({t for x in blocks for t in b.succ(x) if t not in blocks and not b.blocks[t]["cleanup"]})
    # the regular exit is the one taken when the 0..4 range is exhausted: successor of the header's decision
    reg = [t for t in exits if any(t in b.succ(x) for x in blocks if b.dominates(x, s3.bb) or x == h)]
    if acc is None or not reg:
        r.bad("escape[u]#value", "cannot find the accumulated value / the exit of the digit loop (unrecognised idiom)",
              s3.where())
        return
    outer = [hh for hh, bl in b.loops().items() if s1.bb in bl and hh != h]
    reps = [0x41, 0xFF, 0x7FF, 0x800, 0x2028, 0xD7FF, 0xE000, 0xF900, 0xFDD0, 0xFFFD, 0xFFFF]
    bad = []
    for V in reps:
        seen_from = []
        problems = []

        def model(c, av, envv, pe):
            n = c.name or ""
            if n.endswith("from_u32"):
                seen_from.append(pe._deref_all(envv, av[0]) if av else None)
                return None
            if is_next(c) or is_peek(c):
                problems.append("another byte is read (%s)" % n.rsplit("::", 1)[-1])
                return (True, None)
            return None
        for start in reg:
            try:
                res = PE(b, model, max_states=20000).run(start=start, env={acc: ("i", V)}, stop=set(outer) | {s1.bb})
            except RuntimeError:
                problems.append("not evaluated (state budget)")
                continue
            if any(x is not None and x[0] == "adt" and x[1] == 1 for _, x in res.returns):
                problems.append("the escape is rejected")
        if not seen_from or any(v != ("i", V) for v in seen_from):
            problems.append("char::from_u32 receives %s, not the value itself" % (seen_from or "nothing"))
        if problems:
            bad.append("\\u%04X: %s" % (V, problems[0]))
    if bad:
        r.bad("escape[u]#value", "%s (%d of %d representative non-surrogate values)" % (bad[0], len(bad), len(reps)),
              s3.where())
    else:
        r.ok("escape[u]#value", "%d representative non-surrogate values: char::from_u32(value) appended, nothing more "
             "read" % len(reps), s3.where())


# ------------------------------------------------------------------ C01-WS-STRUCT

def ws_struct(rep, lib):
    r = rep.rule("C01-WS-STRUCT", "in read_array / read_object every decision on a structural byte (`]` `}` `,` `:`) "
                 "is taken right after eat_whitespace: whitespace is allowed before and after every structural "
                 "character (RFC 8259 section 2)", floor=5, analysis="A5 partition of each peek() decision + A2 "
                 "backward search for the last reader-moving call")
    for m in ("read_array", "read_object"):
        b = parser_body(lib, m)
        if b is None:
            r.missing(m)
            continue
        peeks = [c for c in b.calls if is_peek(c)]
        for n, p in enumerate(peeks):
            key = "%s#peek[%d]" % (m, n)
            # which bytes does this decision distinguish?
            movers = {c.bb for c in b.calls if c.bb != p.bb and (is_next(c) or is_peek(c) or is_ws(c) or
                      (c.callee or "").rsplit("::", 1)[-1] == "next_json_value" or
                      (c.callee or "").rsplit("::", 1)[-1].startswith("read_"))}
            part, info = _classes(b, p, lib, stop=movers)
            default = [s for s, vs in part.items() if 0 in vs][0]
            dist = set()
            for s, vs in part.items():
                if s != default:
                    dist |= {v for v in vs if v is not None}
            if not dist & {0x5D, 0x7D, 0x2C, 0x3A}:
                r.note("%s distinguishes %s: not a structural decision" % (key, hexs(dist)))
                continue
            # backward: last mover on every path must be eat_whitespace
            seen = set()
            work = list(b.pred(p.bb))
            bad = None
            while work and bad is None:
                x = work.pop()
                if x in seen:
                    continue
                seen.add(x)
                c = b.call_at.get(x)
                if c is not None:
                    if is_ws(c):
                        continue
                    mname = (c.callee or "").rsplit("::", 1)[-1]
                    if is_next(c) or mname == "next_json_value" or mname.startswith("read_"):
                        bad = c
                        continue
                if x == 0:
                    bad = "entry"
                    continue
                work.extend(b.pred(x))
            if bad is not None:
                r.bad(key, "the decision on %s is reachable right after %s without eat_whitespace in between: "
                      "whitespace before the structural character is not accepted"
                      % (hexs(dist), bad if bad == "entry" else (bad.callee or "").rsplit("::", 1)[-1]), p.where())
            else:
                r.ok(key, "decides %s after eat_whitespace on every path" % hexs(dist), p.where())


# ------------------------------------------------------------------ C06-RESYNC (reserved words)

def resync(rep, lib):
    r = rep.rule("C06-RESYNC", "after a malformed reserved word the offending byte is the current byte and nothing "
                 "more has been consumed: between the next() whose result is compared and the error return there is "
                 "no further next()", floor=1, analysis="A2 reachability between next() call sites and the error aggregate")
    b = parser_body(lib, "read_reserved_word")
    if b is None:
        r.missing("read_reserved_word")
        return
    nexts = [c for c in b.calls if is_next(c)]
    errs = [(bb, idx) for bb, idx, place, rv, _ in b.assignments()
            if rv["k"] == "agg" and rv.get("variant_name") == "IncompleteReservedWord"]
    if not errs or not nexts:
        r.missing("IncompleteReservedWord aggregate / next() in read_reserved_word")
        return
    for bb, idx in errs:
        last = [n for n in nexts if n.target is not None and
                bb in b.reachable(n.target, avoid={x.bb for x in nexts})]
        if len(last) == 1 and b.in_loop(last[0].bb):
            r.ok("read_reserved_word#mismatch", "error returned right after the compared next()", b.where(bb))
        else:
            r.bad("read_reserved_word#mismatch", "the mismatch error is not raised directly after the compared next() "
                  "(last next() sites before it: %d)" % len(last), b.where(bb))
    # after the error aggregate no next() is reachable
    for bb, idx in errs:
        after = [n for n in nexts if n.bb in b.reachable(bb)]
        if after:
            r.bad("read_reserved_word#after-error", "a byte is consumed after the mismatch was detected", after[0].where())
        else:
            r.ok("read_reserved_word#after-error", "nothing consumed after the mismatch", b.where(bb))


# ------------------------------------------------------------------ C01-INPUT-DECIDES

INPUT_CALLS = ("reader::Reader::<R>::next", "reader::Reader::<R>::peek", "reader::Reader::<R>::eat_whitespace",
               "reader::Reader::<R>::read_digits", "::next_json_value", "::read_array", "::read_object", "::read_string",
               "::read_number", "::read_true", "::read_false", "::read_null", "::read_reserved_word", "::parse_to_double")


def _state_origins(b, pr, atoms, depth):
    """Descriptions of the origins among `atoms` that are the reader's own state: `self` (parameter 1) directly, or a
    call other than the input-reading ones whose arguments reach `self` (where_am_i(), a depth getter ...)."""
    out = set()
    for a in atoms:
        if a[0] == "arg" and a[1] == 1:
            out.add("self%s" % "".join("." + str(p) for p in a[2]))
        elif a[0] == "call" and depth < 3:
            c = b.call_at.get(a[1])
            if c is None:
                continue
            n = c.name or ""
            if any(n.endswith(x) for x in INPUT_CALLS):
                continue
            for i in range(len(c.args)):
                sub = _state_origins(b, pr, pr.call_arg_origins(c, i), depth + 1)
                if sub:
                    out.add("%s(%s)" % (n.rsplit("::", 1)[-1], ", ".join(sorted(sub))[:60]))
    return out


def input_decides(rep, lib):
    """A value is rejected only because of its own bytes."""
    from lib.prov import Prov
    r = rep.rule("C01-INPUT-DECIDES", "every JsonParserError constructed in the JSON reader is decided by the input "
                 "bytes alone: no branch on the way to constructing one tests a parameter or the reader's own fields "
                 "(a depth counter, a mode flag, a count of values read so far) - otherwise a well-formed value can be "
                 "rejected, or the same bytes accepted in one place and rejected in another", floor=15,
                 analysis="control dependence (dominating switch terminators) + A4 provenance of each discriminant")
    names = [n for n in lib.bodies if (n.startswith("<reader::Reader<R> as json_parser::JsonParser") or
                                       n.startswith("reader::Reader::<R>::")) and "{closure" not in n]
    if not names:
        r.missing("the JSON reader's functions (impl JsonParser / JsonParserUtils for Reader)")
        return r
    for n in sorted(names):
        b = lib.bodies[n]
        sites = [(bb, rv.get("variant_name") or "?") for bb, idx, place, rv, _ in b.assignments()
                 if rv["k"] == "agg" and rv.get("adt") == "json_parser::JsonParserError"]
        sites += [(c.bb, "create_unexpected_character") for c in b.calls
                  if (c.name or "").endswith("json_parser::create_unexpected_character")]
        if not sites:
            continue
        pr = Prov(b, common.LOOK)
        idom = b.idom()
        seen = {}
        for bb, what in sites:
            k = seen.get(what, 0)
            seen[what] = k + 1
            key = "%s#%s[%d]" % (n.rsplit("::", 1)[-1], what, k)
            bad = None
            x = bb
            guard = 0
            while x is not None and x != 0 and guard < 10000:
                guard += 1
                x = idom[x]
                if x is None:
                    break
                t = b.term(x)
                if t["k"] != "switch":
                    continue
                at = pr.origins_at(t["discr"], x, len(b.stmts(x)))
                args = sorted(_state_origins(b, pr, at, 0))
                if args:
                    bad = (x, args)
            if bad:
                r.bad(key, "this error is built under a test of %s (not of a byte read from the input): the reader can "
                      "reject a value because of its own state" % bad[1][:2], b.where(bb))
            else:
                r.ok(key, "decided by bytes read", b.where(bb), nontrivial=False)
    return r


# ------------------------------------------------------------------ C01-DIGITS

def digits(rep, lib):
    """Every digit read_digits takes from the input ends up in the number's text."""
    r = rep.rule("C01-DIGITS", "Reader::read_digits: for each of the ten digits the byte is appended to the buffer "
                 "exactly once and then consumed (never consumed without being appended, whatever the buffer already "
                 "holds and however many digits came before); any other byte and the end of input leave the loop without consuming anything", floor=4,
                 analysis="A5 partial evaluation of one loop turn of read_digits over all byte values + EOF")
    b = lib.bodies.get("reader::Reader::<R>::read_digits")
    if b is None:
        r.missing("Reader::read_digits")
        return r
    peeks = [c for c in b.calls if is_peek(c)]
    if not peeks:
        r.missing("peek() in read_digits")
        return r
    bad_digit, bad_other = [], []
    for v in list(range(256)) + [None]:
        ev = []

        def model(c, av, envv, pe, v=v):
            n = c.name or ""
            if is_peek(c):
                if ev and ev[-1] == "consumed":
                    return (True, ("never",)) if False else (True, OK(NONE))   # second turn: pretend the input ends
                return (True, OK(some(byte(v)) if v is not None else NONE))
            if is_next(c):
                ev.append("consumed")
                return (True, OK(some(byte(v)) if v is not None else NONE))
            if n.endswith("Vec::<T, A>::push") or n.endswith("Vec::<T>::push"):
                x = pe._deref_all(envv, av[1]) if len(av) > 1 else None
                ev.append(("push", x))
                return (True, ("adt", 0, ()))
            if n.endswith("::len") or n.endswith("::capacity") or n.endswith("::is_empty"):
                return (True, None)          # the buffer's size is not known: both outcomes are explored
            return None
        try:
            res = PE(b, model, eq_ok=common.derived_eq_ok(lib)).run()
        except RuntimeError:
            (bad_digit if v is not None and 0x30 <= v <= 0x39 else bad_other).append((v, "not evaluated"))
            continue
        pushes = [e for e in ev if e != "consumed"]
        consumed = ev.count("consumed")
        if v is not None and 0x30 <= v <= 0x39:
            # on every explored path: consumed implies pushed; with forks (a size test) events of all paths are pooled,
            # so: as many pushes of this byte as consumptions, at least one, and the push comes first
            if consumed < 1 or len(pushes) != consumed or any(p[1] != ("i", v) for p in pushes) or \
                    ev.index("consumed") < ev.index(pushes[0]) or res.forks:
                bad_digit.append((v, "pushed %d time(s), consumed %d%s" % (
                    len(pushes), consumed, ", depending on something else than the byte" if res.forks else "")))
        else:
            if consumed or pushes or any(x is None or x[0] != "adt" or x[1] != 0 for _, x in res.returns):
                bad_other.append((v, "pushed %d, consumed %d" % (len(pushes), consumed)))
    if bad_digit:
        r.bad("read_digits[digits]", "digit %r: %s - a digit of the literal is lost or duplicated (%d of 10 digits)"
              % (chr(bad_digit[0][0]), bad_digit[0][1], len(bad_digit)), b.where())
    else:
        r.ok("read_digits[digits]", "each digit appended once, then consumed", b.where())
    if bad_other:
        v = bad_other[0][0]
        r.bad("read_digits[other]", "%s ends the run of digits but is %s" % (
            "EOF" if v is None else "byte 0x%02X" % v, bad_other[0][1]), b.where())
    else:
        r.ok("read_digits[other]", "246 other byte values and EOF end the run untouched", b.where())
    r.ok("read_digits[anchor]", "one peek decision", peeks[0].where(), nontrivial=False)
    # the evaluation above is one turn of the loop from the function's entry, where a counter still has its
    # initial value; so, separately: no branch inside the loop tests a local that the loop itself counts up or down
    # (`if kept < MAX { push }`: the first digits are kept, later ones are consumed and dropped - seed C02-r10-1)
    loopblocks = set()
    for h, blocks in b.loops().items():
        if any(c.bb in blocks for c in peeks) or any(is_next(c) and c.bb in blocks for c in b.calls):
            loopblocks |= blocks
    arith, flows = set(), {}
    for bb, idx, place, rv, _ in b.assignments():
        if bb not in loopblocks:
            continue
        if rv["k"] in ("binop", "checked_binop") and rv.get("op") in ("Add", "Sub", "AddWithOverflow", "SubWithOverflow",
                                                                      "AddUnchecked", "SubUnchecked", "Mul", "MulWithOverflow"):
            arith.add(place["l"])
        elif rv["k"] == "use" and rv["op"].get("place") is not None:
            flows.setdefault(rv["op"]["place"]["l"], set()).add(place["l"])
    for c in b.calls:
        if c.bb in loopblocks and (c.name or "").rsplit("::", 1)[-1] in (
                "saturating_add", "saturating_sub", "wrapping_add", "wrapping_sub", "checked_add", "checked_sub"):
            arith.add(c.dest["l"])
    changed = True
    while changed:
        changed = False
        for src, dsts in flows.items():
            if src in arith and not dsts <= arith:
                arith |= dsts
                changed = True
    tested = []
    for bb, idx, place, rv, _ in b.assignments():
        if bb in loopblocks and rv["k"] == "binop" and rv.get("op") in ("Lt", "Le", "Gt", "Ge", "Eq", "Ne"):
            ops = [o.get("place", {}).get("l") for o in (rv["a"], rv["b"]) if o.get("place") is not None]
            if any(o in arith for o in ops):
                res_l = {place["l"]}
                grow = True
                while grow:
                    grow = False
                    for s_, d_ in flows.items():
                        if s_ in res_l and not d_ <= res_l:
                            res_l |= d_
                            grow = True
                for sb in loopblocks:
                    t = b.term(sb)
                    if t["k"] == "switch" and t["discr"].get("place", {}).get("l") in res_l:
                        tested.append((bb, sb))
    if tested:
        r.bad("read_digits[counter]", "inside the digit loop a branch tests a local that the loop itself counts "
              "(comparison in block %d, branch in block %d): what happens to a digit depends on how many digits "
              "came before it, not on the byte alone" % tested[0], b.where(tested[0][1]))
    else:
        r.ok("read_digits[counter]", "no branch of the loop depends on a count of earlier digits", b.where())
    return r


# ------------------------------------------------------------------ C16-IO-ORIGIN

def io_origin(rep, lib, rid="C16-IO-ORIGIN"):
    """An I/O error is what the operating system reported, never something the parser made up."""
    r = rep.rule(rid, "no std::io::Error is constructed in the crate (io::Error::new / other / from(ErrorKind) / "
                 "last_os_error): a JsonParserError::IoError - the one variant that ends the run under every "
                 "--on-error policy - can only carry an error the reader received from the input", floor=0,
                 analysis="A1 census of resolved callees over the lib crate")
    hits = 0
    for name, b in sorted(lib.bodies.items()):
        if name.split(" as ")[0].lstrip("<").startswith(("build_docs::", "functions::proccess::")):
            continue
        for c in b.calls:
            n = c.name or ""
            full = c.full or ""
            made = n in ("std::io::Error::new", "std::io::Error::other", "std::io::Error::last_os_error",
                         "std::io::Error::from_raw_os_error") or \
                ("std::io::Error" in full and "From<std::io::ErrorKind>" in full and n.endswith("::from"))
            if made:
                hits += 1
                r.bad("%s#%s" % (name, n.rsplit("::", 1)[-1]), "an io::Error is made up here: handed to the parser's "
                      "error type it is fatal under every policy (malformed input must stay recoverable), handed "
                      "anywhere else it reports a failure that did not happen", c.where())
    r.ok("census", "no constructed io::Error in %d bodies" % len(lib.bodies), "", nontrivial=False)
    return r


BUF_ADD = ("::push", "::push_str", "::extend", "::extend_from_slice", "::push_back", "::insert", "::append",
           "::write_all", "::write", "::resize")
BUF_CLEAR = ("::clear", "::truncate", "mem::take", "mem::replace", "::drain", "::split_off")


def reader_state(rep, lib, rid="C01-READER-STATE"):
    """What the reader remembers from one value to the next. On the pinned tree that is the byte source, the one
    byte of look-ahead, the position and the end-of-input flag - nothing of the *content* of a value. A field added to
    the reader is state that survives the end (and the failure) of a value: a counter that one path forgets to
    restore, a token buffer that an error return leaves filled, and the next value is read differently because of the
    one before (out(A.B) != out(A).out(B); digits of a broken string prepended to the next number). Accepted: a
    capacity hint (common.hint_fields), and a scratch buffer that every function which appends to it empties first
    (a clear / truncate / take of that field dominates every append in the same function), so that nothing written for
    an earlier value can be read for a later one."""
    from lib import specialize
    r = rep.rule(rid, "the reader carries nothing of a value's content from one value to the next: its fields are the "
                 "byte source, the look-ahead byte, the position and the end flag; a new field is a capacity hint or a "
                 "scratch buffer emptied at the start of every function that fills it", floor=4,
                 analysis="A7 field census against sa/tables/known_fields.txt + A2 dominance of the emptying call over "
                          "every appending call, per function as written")
    adt = lib.adts.get("reader::Reader")
    if not adt or len(adt["variants"]) != 1:
        r.missing("reader::Reader")
        return
    known = {k.rsplit("::", 1)[1] for k in specialize.known_fields() if k.startswith("reader::Reader::")}
    if not known:
        r.missing("known fields of reader::Reader (sa/tables/known_fields.txt)")
        return
    hints = common.hint_fields(lib, "reader::Reader")
    raw = lib.raw_view() if hasattr(lib, "raw_view") else lib
    for fi, f in enumerate(adt["variants"][0]["fields"]):
        key = "Reader.%s" % f["name"]
        if f["name"] in known:
            r.ok(key, "field of the pinned reader (%s)" % f["ty"], "", nontrivial=False)
            continue
        if fi in hints:
            r.ok(key, "capacity hint", "", nontrivial=False)
            continue
        ty = f["ty"].replace(" ", "")
        if not ty.startswith(("std::vec::Vec<", "std::string::String", "std::collections::VecDeque<")):
            r.bad(key, "the reader has a new field `%s: %s` that lives across values and is neither a capacity hint nor "
                  "a scratch buffer: what is read for one value can depend on the values (or errors) before it"
                  % (f["name"], f["ty"]), "")
            continue
        fname = "f%d" % fi
        filled = 0
        view = lib.bodies          # analysed view: helpers new to the rules are part of their callers
        info = {}                  # body name -> (body, undominated appends, clears)
        for name, b in sorted(view.items()):
            refs = {}       # local -> block of `&mut self.field`
            for bb, idx, place, rv, _ in b.assignments():
                if rv["k"] == "ref" and not place["p"]:
                    p = [x for x in rv["place"]["p"] if x != "deref"]
                    base_ty = (b.local_ty(rv["place"]["l"]) or "").replace("&mut ", "").replace("&", "")
                    if p and p[0] == fname and base_ty.startswith("reader::Reader"):
                        refs[place["l"]] = bb
            adds, clears = [], []
            for c in b.calls:
                if not c.args or c.args[0].get("place", {}).get("l") not in refs:
                    continue
                nm = c.name or ""
                if nm.endswith(BUF_CLEAR) or any(x in nm for x in ("mem::take", "mem::replace")):
                    clears.append(c)
                elif nm.endswith(BUF_ADD) or "fmt::Write" in nm or "io::Write" in nm:
                    adds.append(c)
            filled += len(adds)
            if adds or clears:
                info[name] = (b, [a for a in adds if not any(b.dominates(c.bb, a.bb) and c.bb != a.bb for c in clears)],
                              clears)
        # a function that appends to a buffer it has not emptied needs the buffer empty on entry: every call of it
        # must come after an emptying call in the caller, or the caller needs the same of its callers (3 levels)
        needs = {n: (n, v[1][0]) for n, v in info.items() if v[1]}
        problem = None
        for depth in range(4):
            nxt = {}
            for n, (ofn, site) in needs.items():
                callers = [(cn, cb, c) for cn, cb in view.items() for c in cb.calls if (c.name or "") == n]
                if not callers or depth == 3:
                    problem = problem or (info[ofn][0], site, ofn, n)
                    continue
                for cn, cb, c in callers:
                    cl = info.get(cn, (cb, [], []))[2]
                    if not any(cb.dominates(x.bb, c.bb) and x.bb != c.bb for x in cl):
                        nxt.setdefault(cn, (ofn, site))
            needs = nxt
            if not needs:
                break
        if problem:
            b, a, ofn, root = problem
            r.bad(key, "the reader's new buffer `%s` is appended to in %s (line %s) without having been emptied "
                  "first on the way there (followed up to %s): bytes left in it by an earlier value - one that ended in "
                  "an error return, say - become part of this one" % (f["name"], ofn, a.line, root), b.where(a.bb))
        else:
            r.ok(key, "scratch buffer: emptied before each of the %d append(s)" % filled, "")

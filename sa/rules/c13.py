"""C13 — an expression means the same in every position, alias, spelling and cache size."""
from lib.peval import PE
from lib.prov import Prov
from rules import common
from rules import c13_shared
from rules import parser_rules as PR

INFO = {
    "decided": "All option parsers and the recursive argument parser use one expression reader (the sub-parsers are "
               "called from read_getter only, every option's from_str calls read_getter); a function's behaviour "
               "cannot depend on the name it was found under (the factory type has no name parameter, the only "
               "indirect call of a factory passes the arguments alone, every function definition is registered); no "
               "documented spelling resolves to a different function than documented; the terminator sets of all "
               "open-ended token readers of the expression language contain every argument separator (whitespace, "
               "`,`, `)`) and end of input, for all 256 byte values; compiled patterns are obtained only through "
               "the cache, which is keyed by the pattern text it compiles. `(.f x)` pushes the root extractor first and strips exactly the dot; the --set stage is the outermost stage, so its bindings are in scope in every option position. The bounded regex cache is never asked for capacity 0, whatever size is configured. The five expression options hand the whole option text to the expression reader. The command-line layer hands every option value to its parser whole (no value delimiter / terminator is declared on any argument).",
    "not_decided": "Evaluation equality across option positions on run-time values, and (.f x) == (f . x) beyond the "
                   "presence of the rewrite.",
    "trusted": ["sa/tables/aliases.toml (documented spellings)", "cached::SizedCache returns the value stored under an equal key"],
}

SUBPARSERS = ["extractor::parse_extractor", "selection::parse_function", "variables_extractor::parse_get_variable",
              "input_context_extractor::parse_input_context", "selection_extractor::parse_get_selection",
              "const_getter::ConstGetters::parse"]
OPTION_PARSERS = ["<selection::Selection as std::str::FromStr>::from_str", "<filter::Filter as std::str::FromStr>::from_str",
                  "<splitter::Splitter as std::str::FromStr>::from_str", "<sorters::Sorter as std::str::FromStr>::from_str",
                  "<grouper::Grouper as std::str::FromStr>::from_str", "<pre_sets::PreSet as std::str::FromStr>::from_str"]
TOKEN_READERS = ["selection::read_function_name", "extractor::ExtractFromInput::read_extract_key",
                 "variables_extractor::parse_get_variable", "input_context_extractor::parse_input_context"]


SPLITTERS = ("clap::Arg::value_delimiter", "clap::Arg::value_terminator", "clap::Arg::raw", "clap::Arg::trailing_var_arg",
             "clap::Arg::last")


def option_text_whole(rep, lib, rid="C13-OPTION-TEXT"):
    """The text of an option reaches its parser as the user wrote it: the command-line layer does not split it."""
    r = rep.rule(rid, "the command-line layer hands every option value to its parser whole: no argument is declared "
                 "with a value delimiter / terminator (an expression may contain commas wherever it is written)",
                 floor=1, analysis="A7 census of the clap builder calls in the derived augment_args bodies")
    bodies = [(n, b) for n, b in lib.bodies.items() if "clap::Args>::augment_args" in n]
    if not bodies:
        r.missing("<Cli as clap::Args>::augment_args")
        return
    bad = [(n, c) for n, b in bodies for c in b.calls if (c.name or "") in SPLITTERS]
    if bad:
        for n, c in bad:
            r.bad("%s#%s" % (n.split(" as ")[0].lstrip("<"), (c.name or "").rsplit("::", 1)[-1]),
                  "an option is declared with %s: its value is cut into pieces before the expression reader sees it, "
                  "so the same expression (a comma between arguments, in a string or an array) means something else "
                  "in this option than in the others" % c.name, c.where())
    else:
        r.ok("augment_args", "%d derived bodies, no splitting builder call" % len(bodies), bodies[0][1].where())
    return r


def run(ctx, rep):
    dot_sugar(rep, ctx.lib)
    option_text_whole(rep, ctx.lib)
    from rules import c11 as _c11
    _c11.get_pure(rep, ctx.lib)
    # bindings made by --set are in scope for every option: the --set stage is outermost (shared with C03)
    from rules import pipeline_rules as _P
    _P.order(rep, ctx.lib)
    _r = rep.rules[-1]
    _r.instances = [i for i in _r.instances if "PreSetCollection" in i["key"] or i["key"].startswith("anchor-missing")]
    _r.floor = 1
    lib = ctx.lib
    cg = ctx.cg
    # an expression in a later option (second --select, --sort-by, --group-by) is evaluated in a context derived by
    # with_result: it must see the same input, parents and bindings as in the first (shared with C12)
    from rules import c12 as _c12
    common.share(_c12, ctx, rep, {"C12-FRAME", "C12-EXTEND"}, key_prefixes=["with_result"],
                 floors={"C12-FRAME": 0, "C12-EXTEND": 0})
    common.share(_c12, ctx, rep, {"C12-CTOR-CENSUS"})   # ... nor does any other way of deriving a context drop a binding
    # ------------------------------------------------------------ ONE-READER
    r = rep.rule("C13-ONE-READER", "every option parser reads its expression with selection::read_getter, and the "
                 "sub-parsers are reachable only through read_getter", floor=12, analysis="A1 who-may-call")
    for p in OPTION_PARSERS:
        b = lib.body(p)
        key = p.split(" as ")[0].lstrip("<")
        if b is None:
            r.missing(p)
            continue
        if any(c.name == "selection::read_getter" for c in b.calls):
            r.ok(key + "::from_str", "calls read_getter", b.where())
        else:
            r.bad(key + "::from_str", "this option does not parse its expression with the shared reader", b.where())
    for sp in SUBPARSERS:
        if sp not in lib.bodies:
            r.missing(sp)
            continue
        callers = {caller for caller, c in cg.callers_of(lambda n, sp=sp: n == sp)}
        bad = callers - {"selection::read_getter", sp}
        if bad:
            r.bad(sp, "called from %s: an expression fragment is parsed without going through read_getter, so the "
                  "same text can mean something else in that position" % sorted(bad), lib.bodies[sp].where())
        elif not callers:
            r.bad(sp, "never called", lib.bodies[sp].where())
        else:
            r.ok(sp, "called from read_getter only", lib.bodies[sp].where())
    # builders of Rc<dyn Get> from text other than read_getter: any other caller of find_function / create
    for fn in ("functions_definitions::find_function", "functions_definitions::FunctionDefinitions::create"):
        callers = {caller for caller, c in cg.callers_of(lambda n, fn=fn: n == fn)}
        bad = {c for c in callers if not (c == "selection::parse_function" or c.startswith("functions_definitions::")
                                          or "build_docs" in c or "selection_help" in c)}
        if bad:
            r.bad(fn, "called from %s" % sorted(bad), lib.bodies[fn].where())
        else:
            r.ok(fn, "called from parse_function only", lib.bodies[fn].where())
    # ------------------------------------------------------------ ALIAS-BLIND
    r = rep.rule("C13-ALIAS-BLIND", "a function's factory never sees the name it was looked up by, and every "
                 "function definition is registered", floor=113, analysis="type alias + indirect-call census + A1 reachability")
    fty = lib.aliases.get("functions_definitions::Factory")
    want_fty = "fn(std::vec::Vec<std::rc::Rc<(dyn selection::Get + 'static)>>) -> std::rc::Rc<(dyn selection::Get + 'static)>"
    if fty == want_fty:
        r.ok("Factory", fty, "", nontrivial=False)
    else:
        r.bad("Factory", "the factory type is %s: a factory that receives anything but the arguments can behave "
              "differently per alias" % fty, "")
    n_ind = 0
    for name, b in lib.bodies.items():
        for c in b.calls:
            if c.callee is None and c.t.get("indirect"):
                ind = c.t["indirect"]
                ty = ind.get("place", {}).get("ty", "")
                if "selection::Get" in ty and ty.startswith("fn("):
                    n_ind += 1
                    if name != "functions_definitions::FunctionDefinitions::create":
                        r.bad(name + "#factory-call", "a function factory is invoked outside FunctionDefinitions::create",
                              c.where())
                    elif len(c.args) != 1:
                        r.bad(name + "#factory-call", "the factory is called with %d arguments" % len(c.args), c.where())
                    else:
                        pr = Prov(b, common.LOOK)
                        if any(a[0] == "arg" and a[1] == 2 for a in pr.call_arg_origins(c, 0)):
                            r.ok(name + "#factory-call", "build_extractor(args)", c.where())
                        else:
                            r.bad(name + "#factory-call", "the factory's argument is not the parsed argument list", c.where())
    if n_ind == 0:
        r.missing("indirect call of build_extractor")
    reach = cg.reachable(["functions::all::group"])
    for name, b in sorted(lib.bodies.items()):
        if name.startswith("functions::") and name.endswith("::get") and \
                b.locals[0]["ty"] == "functions_definitions::FunctionDefinitions":
            if name in reach:
                r.ok(name, "registered", b.where(), nontrivial=False)
            else:
                r.bad(name, "function definition is not reachable from functions::all::group(): it is not registered "
                      "and its examples are not tested", b.where())
    # ------------------------------------------------------------ ALIAS-TABLE
    r = rep.rule("C13-ALIAS-TABLE", "no documented spelling (name or alias) resolves to a different function than "
                 "documented", floor=150, analysis="string constants of FunctionDefinitions::new / add_alias per "
                 "definition vs sa/tables/aliases.toml (one-directional)")
    tab = common.table("aliases.toml")
    doc = {}
    for f in tab["function"]:
        for s in [f["name"]] + f["aliases"]:
            doc[s] = f["name"]
    cur = {}
    for name, b in sorted(lib.bodies.items()):
        if not (name.startswith("functions::") and name.endswith("::get")):
            continue
        canon = None
        spell = []
        for c in b.calls:
            if c.name == "functions_definitions::FunctionDefinitions::new" and c.args and c.args[0].get("s"):
                canon = _unq(c.args[0]["s"])
            if c.name == "functions_definitions::FunctionDefinitions::add_alias" and len(c.args) > 1 and c.args[1].get("s"):
                spell.append(_unq(c.args[1]["s"]))
        if canon is None:
            continue
        for s in [canon] + spell:
            cur.setdefault(s, []).append((canon, b))
    for s, lst in sorted(cur.items()):
        for canon, b in lst:
            if s in doc and doc[s] != canon:
                r.bad("spelling %r" % s, "`%s` is documented as a spelling of `%s` but now names `%s`: programs using "
                      "it silently change meaning" % (s, doc[s], canon), b.where())
            else:
                r.ok("spelling %r" % s, canon, b.where(), nontrivial=s in doc)
    # ------------------------------------------------------------ DELIMS
    r = rep.rule("C13-DELIMS", "every open-ended token reader of the expression language stops at every argument "
                 "separator (the bytes parse_function's argument loop skips or stops on: whitespace, `,`, `)`) and at "
                 "end of input", floor=5, analysis="A5 partial evaluation of each reader's loop decision over all byte values")
    pf = lib.body("selection::parse_function")
    ew = lib.body("reader::Reader::<R>::eat_whitespace")
    sep = None
    if pf is None or ew is None:
        r.missing("selection::parse_function / eat_whitespace")
    else:
        peeks = [c for c in pf.calls if PR.is_peek(c) and pf.in_loop(c.bb)]
        wsp = [c for c in ew.calls if PR.is_peek(c)]
        if len(peeks) != 1 or len(wsp) != 1:
            r.missing("argument-loop peek() in parse_function")
        else:
            t = PR.table_for(pf, peeks[0], lib, stop={peeks[0].bb})
            # separators: bytes that do not start an argument (no read_getter call reached)
            sep = {v for v, res in t.items() if v is not None and
                   not any(c.name == "selection::read_getter" for _, c, _ in res.calls)}
            tw = PR.table_for(ew, wsp[0], lib)
            sep |= {v for v, res in tw.items() if v is not None and any(PR.is_next(c) for _, c, _ in res.calls)}
            r.ok("parse_function#separators", PR.ranges(sep), peeks[0].where())
    if sep:
        for fn in TOKEN_READERS:
            b = lib.body(fn)
            if b is None:
                r.missing(fn)
                continue
            sites = [c for c in b.calls if (PR.is_next(c) or PR.is_peek(c)) and b.in_loop(c.bb)]
            if len(sites) != 1:
                r.bad(fn, "expected one next()/peek() decision in the token loop, found %d (unrecognised idiom)"
                      % len(sites), b.where())
                continue
            t = PR.table_for(b, sites[0], lib, stop={sites[0].bb})
            cont = set()
            for v, res in t.items():
                pushed = any((c.name or "").endswith("Vec::<T, A>::push") for _, c, _ in res.calls)
                loops_back = any(y == sites[0].bb for (x, y) in res.edges)
                if pushed or loops_back:
                    cont.add(v)
            term = set(PR.ALL) - cont
            missing = (sep | {None}) - term
            if missing:
                r.bad(fn, "the token does not end at %s: a name followed directly by that separator swallows it and "
                      "the rest of the argument list" % PR.ranges(missing), sites[0].where())
            else:
                r.ok(fn, "terminators %s" % PR.ranges(term), sites[0].where())
        # index reader delegates to read_digits
        rei = lib.body("extractor::ExtractFromInput::read_extract_index")
        if rei is None or not any((c.name or "").endswith("read_digits") for c in rei.calls):
            r.bad("extractor::ExtractFromInput::read_extract_index", "does not read its digits with Reader::read_digits",
                  rei.where() if rei else "")
        else:
            r.ok("extractor::ExtractFromInput::read_extract_index", "read_digits (stops at every non-digit, rule C01-NUMBER)",
                 rei.where())
    # ------------------------------------------------------------ REGEX-OWNER
    r = rep.rule("C13-REGEX-OWNER", "regex::Regex::new is called only by the regex cache", floor=2, analysis="A1 who-may-call")
    for caller, c in cg.callers_of(lambda n: n.startswith("regex::Regex::new") or n.startswith("regex::RegexBuilder")
                                   or n.startswith("regex::bytes::Regex::new")):
        if caller.startswith("<regex_cache::RegexCache as regex_cache::RegexCompile>::compile_regex"):
            r.ok(caller, "the cache", c.where(), nontrivial=False)
        elif caller.split(" as ")[0].lstrip("<").startswith(("build_docs::", "selection_help::")):
            # the documentation generator (feature create-docs) is not on the data path of a selection
            r.ok(caller, "documentation generator, outside the scope of the property", c.where(), nontrivial=False)
        else:
            r.bad(caller, "compiles a pattern without the cache", c.where())
    for fn in ("match_regex", "extract_regex_group"):
        bs = [b for n, b in lib.bodies.items() if n.startswith("<functions::string::regex::%s::" % fn)
              and n.endswith("as selection::Get>::get")]
        if not bs:
            continue
        if any((c.callee or "").endswith("RegexCompile::compile_regex") for c in bs[0].calls):
            r.ok("regex::" + fn, "Context::compile_regex", bs[0].where())
        else:
            r.bad("regex::" + fn, "does not obtain its pattern from Context::compile_regex", bs[0].where())
    c13_shared.cache_key(rep, lib)
    # ------------------------------------------------------------ WHOLE-TEXT
    r = rep.rule("C13-WHOLE-TEXT", "--filter, --split-by, --group-by, --select and --sort-by hand the whole option "
                 "text to the expression reader: the string the reader is built over (reader::from_string) is the "
                 "from_str parameter itself (copied / converted, never sliced, trimmed or split beforehand) - so the "
                 "expression is delimited by the expression grammar alone, as in every other position", floor=5,
                 analysis="A4 provenance of the argument of reader::from_string in each option parser")
    from rules import c18 as _c18
    IDENT = common.LOOK + ("ToString>::to_string", "string::ToString::to_string", "String::as_str",
                           "ToOwned>::to_owned", "borrow::ToOwned::to_owned", "String::from", "From<&str>>::from")
    for short_, name in _c18.ALL6:
        if short_ == "PreSet":
            continue            # `name=expression`: the text is split at the first `=` by design
        pb = lib.bodies.get(name)
        if pb is None:
            r.missing(name)
            continue
        fs = [c for c in pb.calls if (c.name or "").endswith("reader::from_string")]
        if len(fs) != 1:
            r.bad(short_ + "::from_str", "expected one reader over the option text, found %d (unrecognised idiom)"
                  % len(fs), pb.where())
            continue
        ppr = Prov(pb, IDENT)
        at = ppr.call_arg_origins(fs[0], 0)
        other = sorted(str(a) if a[0] != "call" else "result of %s" % (pb.call_at[a[1]].name or "?")
                       for a in at if not (a[0] == "via" or (a[0] == "arg" and a[1] == 1 and not a[2])))
        if other:
            r.bad(short_ + "::from_str", "the expression reader is built over a string derived from %s, not over the "
                  "option text itself: part of the text is cut off or rewritten before the expression is read"
                  % other[:2], fs[0].where())
        else:
            r.ok(short_ + "::from_str", "reader::from_string(option text)", fs[0].where())
    # ------------------------------------------------------------ CACHE-SIZE
    r = rep.rule("C13-CACHE-SIZE", "RegexCache::new works for every configured size: the bounded cache is never asked "
                 "for capacity 0 (cached::SizedCache::with_size panics on 0), whatever size is configured", floor=2,
                 analysis="interval analysis of the size argument over dominating comparisons + A5 partial evaluation "
                          "of RegexCache::new for sizes 0, 1, 2")
    from rules import panic_rules as PN
    from lib.peval import PE as _PE
    nb = lib.bodies.get("regex_cache::RegexCache::new")
    if nb is None:
        r.missing("regex_cache::RegexCache::new")
    else:
        class _View:          # the analysed view (helpers new to the rules inlined), not the functions as written
            pass
        _v = _View()
        _v.bodies = {nb.name: nb}
        _v.raw_bodies = None
        sites = [x for x in PN.collect(_v, PN.api_table()) if x.kind == "call:cache_with_size"]
        if not sites:
            r.bad("RegexCache::new#with_size", "no bounded cache is built (unrecognised idiom)", nb.where())
        for n, x in enumerate(sites):
            why = PN.D_cache_size(x, None)
            if why:
                r.ok("RegexCache::new#with_size[%d]" % n, why, x.where)
            else:
                r.bad("RegexCache::new#with_size[%d]" % n, "the capacity handed to SizedCache::with_size can be 0 for "
                      "some configured size: the run panics before any input is read", x.where)
        for size in (0, 1, 2):
            res = _PE(nb).run(env={1: ("i", size)})
            built = [c for bb, c, av in res.calls if (c.name or "").endswith("::with_size")]
            argv = [av[0] for bb, c, av in res.calls if (c.name or "").endswith("::with_size")]
            key = "RegexCache::new[size=%d]" % size
            zero = [a for a in argv if a == ("i", 0)]
            if zero:
                r.bad(key, "configured size %d asks the bounded cache for capacity 0, which panics" % size, nb.where())
            else:
                r.ok(key, "bounded cache of capacity %s" % ([a[1] if a else "?" for a in argv],) if built
                     else "no cache", nb.where())


def _unq(s):
    if s.startswith('"') and s.endswith('"'):
        try:
            return bytes(s[1:-1], "utf-8").decode("unicode_escape")
        except Exception:
            return s[1:-1]
    return s


def dot_sugar(rep, lib):
    """`(.f x)` means `(f . x)`: decided for both answers of the leading-dot test."""
    from lib.peval import PE
    from lib.prov import Prov
    r = rep.rule("C13-DOT-SUGAR", "parse_function: when the function name starts with `.` the current input (the root "
                 "extractor: ExtractFromInput::Root with 0 parents) is pushed as the first argument, before any parsed "
                 "argument, and exactly the dot is stripped from the name that is looked up; otherwise nothing is "
                 "pushed and the name is looked up as read", floor=3,
                 analysis="A5 partial evaluation with starts_with seeded + A4 provenance + aggregate constants of root()")
    b = lib.bodies.get("selection::parse_function")
    rootb = lib.bodies.get("extractor::root")
    if b is None or rootb is None:
        r.missing("selection::parse_function / extractor::root")
        return
    ff = [c for c in b.calls if (c.name or "").endswith("functions_definitions::find_function")]
    rn = [c for c in b.calls if (c.name or "").endswith("selection::read_function_name")]
    if len(ff) != 1 or len(rn) != 1:
        r.missing("one read_function_name call and one find_function call in parse_function (found %d / %d)"
                  % (len(rn), len(ff)))
        return
    from lib.peval import ok as _OK
    for spelled, dotted in ((".len", True), ("len", False), ("..x", True), ("a.b", False)):
        ev = []

        def model(c, av, envv, pe, spelled=spelled):
            n = c.name or ""
            if c.bb == rn[0].bb and c.body is b:
                return (True, _OK(("s", spelled)))
            if n.endswith("extractor::root"):
                return (True, ("tok", "root"))
            if n.endswith("Vec::<T, A>::push") or n.endswith("Vec::<T>::push"):
                ev.append(("push", pe._deref_all(envv, av[1]) if len(av) > 1 else None, b.in_loop(c.bb)))
                return (True, ("adt", 0, ()))
            if c.bb == ff[0].bb and c.body is b:
                ev.append(("find", pe._deref_all(envv, av[0]) if av else None))
                return (True, ("adt", 1, (None,)))     # stop here: the lookup fails, nothing after it matters
            return None
        res = PE(b, model, eq_ok=common.derived_eq_ok(lib), max_states=40000).run()
        key = "parse_function[name %r]" % spelled
        finds = [e for e in ev if e[0] == "find"]
        want_name = spelled[1:] if dotted else spelled
        if not finds or any(e[1] != ("s", want_name) for e in finds):
            r.bad(key, "the name looked up for %r is %s, expected %r (exactly one leading dot is stripped, nothing "
                  "else)" % (spelled, sorted({str(e[1]) for e in finds}) or "never looked up", want_name), ff[0].where())
            continue
        first_find = min(i for i, e in enumerate(ev) if e[0] == "find")
        pre = [e for e in ev[:first_find] if e[0] == "push"]
        if dotted:
            if len(pre) == 1 and pre[0][1] == ("tok", "root") and not pre[0][2]:
                r.ok(key, "root() pushed first, %r looked up" % want_name, ff[0].where())
            else:
                r.bad(key, "the leading-dot form does not push the current input (root()) exactly once as the first "
                      "argument before the lookup: pushes %s" % [str(e[1]) for e in pre], ff[0].where())
        else:
            if not pre:
                r.ok(key, "nothing pushed, name looked up as read", ff[0].where())
            else:
                r.bad(key, "without a leading dot an argument is pushed before the lookup: %s"
                      % [str(e[1]) for e in pre], ff[0].where())
    # root() is the current input itself
    aggs = [rv for bb, idx, place, rv, _ in rootb.assignments() if rv["k"] == "agg" and rv.get("adt") == "extractor::Extract"]
    good = False
    if len(aggs) == 1:
        named = dict(zip(aggs[0]["fields"], aggs[0]["ops"]))
        np_ = named.get("number_of_parents", {})
        pr = Prov(rootb, ())
        ext = named.get("extract_from_input")
        isroot = False
        if ext is not None:
            if ext.get("k") == "const":
                isroot = "Root" in (ext.get("s") or "")
            for a in pr.origins(ext):
                if a[0] == "agg":
                    isroot = rootb.stmts(a[1])[a[2]]["rv"].get("variant_name") == "Root"
        good = np_.get("int") == 0 and isroot
    if good:
        r.ok("root()", "Extract { ExtractFromInput::Root, number_of_parents: 0 }", rootb.where())
    else:
        r.bad("root()", "root() is not the current input (ExtractFromInput::Root with 0 parents)", rootb.where())

"""Regex cache rules shared by C11 and C13."""
from lib.prov import Prov
from rules.common import LOOK

INJECTIVE = ("<&str as std::convert::Into<std::string::String>>::into", "ToString>::to_string", "ToOwned>::to_owned", "String as std::convert::From<&str>>::from",
             "Into<U>>::into", "str>::to_string", "str>::to_owned", "<impl str>::to_string", "String::from")


def cache_key(rep, lib):
    r = rep.rule("C13-CACHE-KEY", "the regex cache is keyed by the pattern text itself (an injective copy of the "
                 "`regex` parameter) and the closure that fills it compiles that same parameter", floor=2,
                 analysis="A4 provenance in RegexCache::compile_regex and its closure")
    b = lib.body("<regex_cache::RegexCache as regex_cache::RegexCompile>::compile_regex")
    if b is None:
        r.missing("RegexCache::compile_regex")
        return
    cache_calls = [c for c in b.calls if "cache_get_or_set_with" in (c.name or "") or "cache_get" in (c.name or "")
                   or "cache_set" in (c.name or "")]
    if not cache_calls:
        r.missing("cached::Cached call in compile_regex")
        return
    pr = Prov(b, ())
    for n, c in enumerate(cache_calls):
        key = "compile_regex#cache[%d]" % n
        # key argument = argument 1
        atoms = pr.call_arg_origins(c, 1)
        good = True
        why = ""
        for a in atoms:
            if a[0] == "call":
                k = b.call_at[a[1]]
                nm = k.full or k.name or ""
                if not any(x in nm for x in INJECTIVE):
                    good, why = False, "key computed by %s" % nm
                else:
                    src = pr.call_arg_origins(k, 0)
                    if not any(x[0] == "arg" and x[1] == 2 for x in src):
                        good, why = False, "key is not derived from the `regex` parameter"
            elif a[0] == "arg":
                if a[1] != 2:
                    good, why = False, "key derives from parameter %d" % a[1]
            elif a[0] in ("op", "via"):
                if a[0] == "op":
                    good, why = False, "key goes through %s" % a[1]
            else:
                good, why = False, "key origin %s" % (a,)
        kty = c.args[1].get("place", {}).get("ty", "")
        if good and kty.replace("&", "").replace("'static ", "").strip() not in ("std::string::String", "str"):
            good, why = False, "key type is %s, not the pattern text" % kty
        if good:
            r.ok(key, "key = regex.to_string()", c.where())
        else:
            r.bad(key, "%s: two different patterns can share a cache slot, so the result depends on the cache size "
                  "and on history" % why, c.where())
    clos = [lib.bodies[n] for n in lib.bodies if n.startswith(b.name + "::{closure")]
    for cb in clos:
        rn = [c for c in cb.calls if (c.name or "").startswith("regex::Regex::new") or "Regex::new" in (c.name or "")]
        for c in rn:
            cp = Prov(cb, LOOK)
            if any(a[0] == "arg" and a[1] == 1 for a in cp.call_arg_origins(c, 0)):
                r.ok("compile_regex#closure", "Regex::new(captured regex)", c.where())
            else:
                r.bad("compile_regex#closure", "the closure compiles something other than the captured pattern", c.where())
    return r

"""C08 — --skip/--take pick exactly rows S..S+T-1 of the unlimited result."""
from rules import pipeline_rules as P

INFO = {
    "decided": "The structural preconditions for the limiter and the sorter's top-N shortcut to be invisible: the "
               "shortcut's capacity depends on both skip and take; only the sorter feeding the limiter gets a "
               "capacity; a full sorter evicts the newest row of the worst key in both directions and emits FIFO; "
               "end-of-input and start pass through the limiter (and every other stage) to the buffering stages "
               "behind it, exactly once; Master::go reaches complete on every non-error path; the limiter sits "
               "between sort and group/merge. The limiter itself, extracted as a finite machine by partial evaluation of "
               "its process() body and composed exhaustively for skip 0..3 x take none/0..3 over streams of 9 rows, "
               "forwards exactly rows S..S+T-1 and answers Break exactly when the T-th row was forwarded; the sorter's "
               "top-N budget is spent only by rows that are actually stored (key present), one slot per row, and a "
               "full sorter evicts exactly one row after inserting.",
    "not_decided": "The limiter's behaviour beyond the explored parameters (skip, take <= 3, streams of 9 rows) as a "
                   "run-time statement, and that the rows the sorter hands over are the S+T smallest (the comparator's "
                   "value logic).",
    "trusted": ["sa/tables/pipeline_order.toml"],
}


def run(ctx, rep):
    lib = ctx.lib
    P.limiter_machine(rep, lib)
    P.limiter_wiring(rep, lib)
    P.sorter_slot(rep, lib)
    P.capacity(rep, lib)
    P.topn_adjacent(rep, lib)
    P.evict(rep, lib)
    P.fifo(rep, lib)
    P.order(rep, lib)
    P.start_forward(rep, lib)
    P.complete_forward(rep, lib)
    P.complete_once(rep, lib)
    P.go_protocol(rep, lib)

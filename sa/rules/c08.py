"""C08 — --skip/--take pick exactly rows S..S+T-1 of the unlimited result."""
from rules import pipeline_rules as P
from rules import common

INFO = {
    "decided": "The structural preconditions for the limiter and the sorter's top-N shortcut to be invisible: the "
               "shortcut's capacity depends on both skip and take; only the sorter feeding the limiter gets a "
               "capacity; a full sorter evicts the newest row of the worst key in both directions and emits FIFO; "
               "end-of-input and start pass through the limiter (and every other stage) to the buffering stages "
               "behind it, exactly once; Master::go reaches complete on every non-error path; the limiter sits "
               "between sort and group/merge. The limiter itself, extracted as a finite machine by partial evaluation of "
               "its process() body and composed exhaustively for skip 0..6 x take none/0..6 over streams of 16 rows (0..12, 40 rows in the thorough tier), "
               "forwards exactly rows S..S+T-1 and answers Break exactly when the T-th row was forwarded; the sorter's "
               "top-N budget is spent only by rows that are actually stored (key present), one slot per row, and a "
               "full sorter evicts exactly one row after inserting. The collecting stage behind the limiter emits exactly once; the comparator the bounded sorter's ordered map relies on is the documented total order.",
    "not_decided": "The limiter's behaviour beyond the explored parameters (skip, take <= 6, streams of 16 rows; <= 12 and 40 rows in the thorough tier) as a "
                   "run-time statement, and that the rows the sorter hands over are the S+T smallest (the comparator's "
                   "value logic).",
    "trusted": ["sa/tables/pipeline_order.toml"],
}


def run(ctx, rep):
    lib = ctx.lib
    P.limiter_machine(rep, lib)
    P.limiter_wiring(rep, lib)
    P.sorter_slot(rep, lib)
    P.capacity(rep, lib)
    P.topn_adjacent(rep, lib)
    P.evict(rep, lib)
    P.fifo(rep, lib)
    P.order(rep, lib)
    P.start_forward(rep, lib)
    P.complete_forward(rep, lib)
    P.complete_once(rep, lib)
    P.go_protocol(rep, lib)
    # the group is still emitted (shared with C09); the bounded sorter keeps its rows in an ordered map, which needs
    # the comparator to be a total order (shared with C07)
    from rules import c09 as _c09, c07 as _c07
    common.share(_c09, ctx, rep, {"C09-EMIT-ONCE"})
    common.share(_c07, ctx, rep, {"C07-RANK", "C07-ORD-DELEGATE", "C07-CASCADE"})

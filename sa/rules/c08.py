"""C08 — --skip/--take pick exactly rows S..S+T-1 of the unlimited result."""
from rules import pipeline_rules as P

INFO = {
    "decided": "The structural preconditions for the limiter and the sorter's top-N shortcut to be invisible: the "
               "shortcut's capacity depends on both skip and take; only the sorter feeding the limiter gets a "
               "capacity; a full sorter evicts the newest row of the worst key in both directions and emits FIFO; "
               "end-of-input and start pass through the limiter (and every other stage) to the buffering stages "
               "behind it, exactly once; Master::go reaches complete on every non-error path; the limiter sits "
               "between sort and group/merge.",
    "not_decided": "The limiter's counter arithmetic (skipped/passed and the >= comparison), i.e. that exactly rows "
                   "S..S+T-1 pass - a property of run-time values.",
    "trusted": ["sa/tables/pipeline_order.toml"],
}


def run(ctx, rep):
    lib = ctx.lib
    P.capacity(rep, lib)
    P.topn_adjacent(rep, lib)
    P.evict(rep, lib)
    P.fifo(rep, lib)
    P.order(rep, lib)
    P.start_forward(rep, lib)
    P.complete_forward(rep, lib)
    P.complete_once(rep, lib)
    P.go_protocol(rep, lib)

"""C05 — no input data and no parsable expression can make jawk panic or hang."""
from rules import panic_rules as PN
from rules import progress_rules as PG

INFO = {
    "decided": "(a) Panic edges: every Assert terminator, diverging call and call of an API documented to panic, in "
               "every body of the lib and bin crates (clap derive output excluded), is discharged by a structural "
               "argument re-verified on each run - a guard edge that dominates it (is_empty/len, == 0, find/"
               "starts_with on the same string, Some-match, capacity <= existing length), a counter that starts from "
               "a constant and only increments, a recursion-depth counter, a partial evaluation over all 256 byte "
               "values of the reader, a RefCell guard that dies before any call that could borrow again, a format! "
               "whose argument types cannot fail - or is listed with a reason in sa/tables/panic_sites.toml "
               "(configuration-only or library contract); new or unguarded sites are reported. (b) Progress: every "
               "loop is driven by a finite iterator that dominates its latches, pops from a finite collection, or - "
               "for the parsers - cannot return to its header without consuming a byte for any of the 256 "
               "current-byte values or at end of input (abstract one-byte-lookahead reader, least-fixpoint "
               "consumption queries through the functions it calls, so unguarded recursion earns no credit); "
               "next_json_value consumes before every return while input remains, so the retrying read loop "
               "advances. (c) Re-entrancy: evaluation of a macro body fetched from the run-time table must be "
               "behind a depth bound (today it is not: known finding).",
    "not_decided": "Stack depth of deeply nested JSON or deeply nested expressions, memory use (range, huge "
                   "collections), panics inside dependencies on arguments other than those tabled in "
                   "sa/tables/panicking_apis.toml, arithmetic overflow of values that are not counters in release "
                   "builds (wrapping, not a panic).",
    "trusted": ["sa/tables/panicking_apis.toml (which std/chrono/bigdecimal/regex APIs can panic)",
                "sa/tables/panic_sites.toml (per-site reasons for configuration-only and library-contract sites)",
                "std iterator types listed in progress_rules.FINITE_BASES are finite over finite collections"],
}


def run(ctx, rep):
    PN.census(rep, ctx)
    _, ar = PG.progress(rep, ctx)
    PG.recover_consumes(rep, ctx, ar)
    PG.reentry(rep, ctx)

"""C17 — delivery-independent input; files stay separate; input-context is exact."""
from lib.peval import PE, ok as OK, some, NONE
from lib.prov import Prov
from rules import common
from rules import c16
from rules.printer_rules import field_index, _variant_index

INFO = {
    "decided": "(a) Input is pulled strictly one byte at a time through std::io::Bytes (no bare read, no whole-file "
               "read), end of input is recognised only when the byte source is exhausted, so chunking cannot "
               "influence anything; (b) files are read one after the other in command-line order, each through its "
               "own Reader built inside the per-file function, and no Reader is stored anywhere; (c) the run-wide "
               "counter is one local of Master::go that starts at 0 and is handed by &mut to every file, the "
               "per-file counter is a local of read_input that starts at 0; decided by partial evaluation of one "
               "turn of the read loop per scenario: both counters advance by exactly 1 when a value was processed "
               "and the pipeline answered Continue, and by 0 when the value was skipped by "
               "--only-objects-and-arrays or the turn ended in a recoverable error, under every --on-error policy; "
               "(d) Context::new_with_input receives (value, position before the parse, position after the parse, "
               "per-file counter, run-wide counter) and stores each in the field of that meaning; every selector "
               "reads its own field; (e) Reader.location is written only by Reader::next, which adds 1 to the line "
               "and resets the column on 0x0A and adds 1 to the column on every other byte, for all 256 bytes. A file that ends inside a value is a recoverable error, so the files after it are still read. Every derived context carries the input context of the context it was derived from.",
    "not_decided": "That consecutive ranges are contiguous and contain the value's text as a run-time statement "
                   "about arbitrary inputs (follows from (d)+(e) only informally), and directory traversal order "
                   "(the operating system's).",
    "trusted": ["std::io::Bytes retries Interrupted and reads one byte at a time",
                "closed-world dispatch for Process::process"],
}

LOOKX = common.LOOK + ("Deref>::deref", "DerefMut>::deref_mut")


def _master_env(lib, only_objects=None, on_error=None):
    ma = lib.adts.get("Master")
    ca = lib.adts.get("Cli")
    if not ma or not ca:
        return None
    mf = [f["name"] for f in ma["variants"][0]["fields"]]
    cf = [f["name"] for f in ca["variants"][0]["fields"]]
    cli = [None] * len(cf)
    if only_objects is not None:
        cli[cf.index("only_objects_and_arrays")] = ("b", only_objects)
    if on_error is not None:
        cli[cf.index("on_error")] = ("adt", _variant_index(lib, "OnError", on_error), ())
    mv = [None] * len(mf)
    mv[mf.index("cli")] = ("adt", 0, tuple(cli))
    return ("rv", ("adt", 0, tuple(mv)))


def counters(rep, lib):
    r = rep.rule("C17-COUNTERS", "one turn of Master::read_input's loop, per scenario: the per-file and the run-wide "
                 "counter both advance by exactly 1 iff a value was handed to the pipeline and it answered Continue; "
                 "they do not move when the value is skipped by --only-objects-and-arrays or when the turn ends in a "
                 "recoverable error (any --on-error policy); Context::new_with_input receives (value, position "
                 "before the parse, position after it, per-file counter, run-wide counter)", floor=9,
                 analysis="A5 partial evaluation of the loop body from its header with the parser result, the "
                          "pipeline's decision, the option flags and both counters seeded; the state on re-arrival at "
                          "the header is observed")
    b = common.read_input_body(lib)
    if b is None:
        r.missing("Master::read_input")
        return
    loops = b.loops()
    nj = [c for c in b.calls if (c.name or "").endswith("next_json_value")]
    pp = [c for c in b.calls if c.trait == common.PROCESS_TRAIT and c.method() == "process"]
    nw = [c for c in b.calls if (c.name or "").endswith("Context::new_with_input")]
    if len(nj) != 1 or len(pp) != 1 or len(nw) != 1 or not loops:
        r.missing("one next_json_value / process / new_with_input call in a loop (found %d/%d/%d)"
                  % (len(nj), len(pp), len(nw)))
        return
    hs = [h for h, blocks in loops.items() if nj[0].bb in blocks]
    h = min(hs)
    # the run-wide counter is the `&mut u64` parameter; the per-file counter is the u64 user variable of this body
    # that is initialised outside the loop (identified independently of the order of new_with_input's arguments)
    idx_param = None
    for l in range(1, b.arg_count + 1):
        if b.local_ty(l) == "&mut u64":
            idx_param = l
    cands = []
    for l in range(b.arg_count + 1, len(b.locals)):
        if b.local_ty(l) == "u64" and b.local_name(l):
            outs = [bb for bb, idx, place, rv, _ in b.assignments() if place["l"] == l and not place["p"]
                    and bb not in loops[h]]
            if outs:
                cands.append(l)
    fl_local = cands[0] if len(cands) == 1 else None
    if fl_local is None or idx_param is None:
        r.missing("the per-file counter (a u64 variable initialised before the loop) and the run-wide counter "
                  "(&mut u64 parameter)")
        return
    # per-file counter starts at constant 0 outside the loop
    inits = [(bb, rv) for bb, idx, place, rv, _ in b.assignments() if place["l"] == fl_local and not place["p"]
             and bb not in loops[h]]
    if len(inits) == 1 and inits[0][1]["k"] == "use" and inits[0][1]["op"].get("int") == 0 and b.dominates(inits[0][0], h):
        r.ok("in_file_index/init", "starts at 0 before the loop, once per call of read_input (= per file)", b.where(inits[0][0]))
    else:
        r.bad("in_file_index/init", "the per-file counter is not initialised to 0 exactly once before the read loop",
              b.where())
    nullv = _variant_index(lib, "json_value::JsonValue", "Null")
    objv = _variant_index(lib, "json_value::JsonValue", "Object")
    dec = lib.adts.get("processor::ProcessDesision")
    dn = [v["name"] for v in dec["variants"]]
    CONT = ("adt", dn.index("Continue"), ())
    BRK = ("adt", dn.index("Break"), ())
    scen = [
        ("value,Continue", dict(val=("adt", nullv, ()), only=False, dec=CONT), (1, 1)),
        ("object,only-objects,Continue", dict(val=("adt", objv, (None,)), only=True, dec=CONT), (1, 1)),
        ("scalar,only-objects(skipped)", dict(val=("adt", nullv, ()), only=True, dec=CONT), (0, 0)),
        ("value,Break", dict(val=("adt", nullv, ()), only=False, dec=BRK), None),
    ]
    for pol in ("Ignore", "Stdout", "Stderr"):
        scen.append(("recoverable-error,%s" % pol, dict(err=True, pol=pol), (0, 0)))
    scen.append(("recoverable-error,Panic", dict(err=True, pol="Panic"), None))
    for label, s, want in scen:
        env = {1: _master_env(lib, only_objects=s.get("only"), on_error=s.get("pol")),
               fl_local: ("i", 100), idx_param: ("rv", ("i", 200))}
        seen = []
        args_seen = []

        def model(c, av, envv, pe, s=s):
            n = c.name or ""
            if c.bb == nj[0].bb:
                envv[-5] = ("b", True)
                if s.get("err"):
                    return (True, ("adt", 1, (None,)))
                return (True, OK(some(s["val"])))
            if n.endswith("Reader::<R>::where_am_i"):
                return (True, ("i", 2222 if envv.get(-5) else 1111))
            if c.bb == pp[0].bb:
                return (True, OK(s["dec"]))
            if c.bb == nw[0].bb:
                args_seen.append(tuple(pe._deref_all(envv, a) if a is not None else None for a in av[:5]))
                return (True, ("i", 7))
            if n.endswith("can_recover"):
                return (True, ("b", True))
            if n.endswith("::write_fmt"):
                return (True, OK(("adt", 0, ())))
            return None
        pe = PE(b, model, eq_ok=common.derived_eq_ok(lib), max_states=40000)

        def hook(bb, e, first, seen=seen):
            if bb == h and not first:
                v5 = e.get(fl_local)
                v3 = pe._deref_all(e, e.get(idx_param))
                seen.append((v5, v3))
                return "stop"
            return None
        pe.visit_hook = hook
        try:
            res = pe.run(start=h, env=env)
        except RuntimeError:
            r.bad("turn[%s]" % label, "state budget exceeded (unrecognised idiom)", b.where(h))
            continue
        key = "turn[%s]" % label
        if want is None:
            if seen:
                r.bad(key, "the loop goes round again (it must be left)", b.where(h))
            else:
                oks = [v for _, v in res.returns]
                r.ok(key, "the loop is left (%d return(s))" % len(oks), b.where(h))
            continue
        exp = (("i", 100 + want[0]), ("i", 200 + want[1]))
        if not seen:
            r.bad(key, "the loop does not go round again", b.where(h))
        elif any(x != exp for x in seen):
            x = [x for x in seen if x != exp][0]
            d5 = x[0][1] - 100 if x[0] else "?"
            d3 = x[1][1] - 200 if x[1] else "?"
            r.bad(key, "after this turn the per-file counter moved by %s and the run-wide counter by %s; expected %d "
                  "and %d" % (d5, d3, want[0], want[1]), b.where(h))
        else:
            r.ok(key, "per-file counter +%d, run-wide counter +%d" % want, b.where(h))
        if label == "value,Continue":
            wantargs = (s["val"], ("i", 1111), ("i", 2222), ("i", 100), ("i", 200))
            # the four position / ordinal values may also arrive as one InputContext built by the caller: then each
            # field, by name, must hold the value of that meaning
            nwb = lib.bodies.get("processor::Context::new_with_input")
            ic = lib.adts.get("processor::InputContext")
            if len(args_seen) == 1 and nwb is not None and ic is not None:
                flat = []
                for ai, v in enumerate(args_seen[0]):
                    if ai + 1 <= nwb.arg_count and nwb.local_ty(ai + 1) == "processor::InputContext" \
                            and v is not None and v[0] == "adt":
                        byname = dict(zip([f["name"] for f in ic["variants"][0]["fields"]], v[2]))
                        flat.extend([byname.get("start_location"), byname.get("end_location"),
                                     byname.get("file_index"), byname.get("index")])
                    else:
                        flat.append(v)
                args_seen[0] = tuple(flat[:5])
            if len(args_seen) == 1 and args_seen[0] == wantargs:
                r.ok("new_with_input/args", "(value, position before the parse, position after it, per-file counter, "
                     "run-wide counter)", nw[0].where())
            else:
                r.bad("new_with_input/args", "Context::new_with_input is not given (value, position before the parse, "
                      "position after the parse, per-file counter, run-wide counter): observed %s"
                      % (args_seen[:1],), nw[0].where())


def constructor(rep, lib):
    r = rep.rule("C17-ARGS", "Context::new_with_input stores its parameters in the InputContext fields of the same "
                 "meaning, and every &selector reads its own field", floor=10,
                 analysis="A6 aggregate provenance + A5 partial evaluation of InputContextExtractor::get per selector "
                          "with distinct seeded field values")
    b = lib.bodies.get("processor::Context::new_with_input")
    if b is None:
        r.missing("Context::new_with_input")
        return
    pr = Prov(b, LOOKX + ("Rc::<T>::new",))
    aggs = [rv for bb, idx, place, rv, _ in b.assignments() if rv["k"] == "agg" and rv.get("adt") == "processor::InputContext"]
    whole = [l for l in range(1, b.arg_count + 1) if b.local_ty(l) == "processor::InputContext"]
    if not aggs and len(whole) == 1:
        # the caller builds the InputContext and hands it over whole (its fields are judged where it is built:
        # C17-COUNTERS observes them by name at the call in read_input)
        for name in ("start_location", "end_location", "file_index", "index"):
            r.ok("InputContext." + name, "built by the caller, passed whole as parameter %d" % whole[0], b.where())
    elif len(aggs) != 1:
        r.missing("the InputContext aggregate")
        return
    want = {"start_location": 2, "end_location": 3, "file_index": 4, "index": 5}
    for name, o in (zip(aggs[0]["fields"], aggs[0]["ops"]) if aggs else ()):
        at = {a for a in pr.origins(o) if a[0] in ("arg", "call", "const", "local")}
        if name in want and at == {("arg", want[name], ())}:
            r.ok("InputContext." + name, "parameter %d" % want[name], b.where())
        else:
            r.bad("InputContext." + name, "is not initialised from the parameter of that meaning (found %s)" % sorted(at),
                  b.where())
    # the context carries it
    cagg = [rv for bb, idx, place, rv, _ in b.assignments() if rv["k"] == "agg" and rv.get("adt") == "processor::Context"]
    okc = False
    if len(cagg) == 1:
        o = dict(zip(cagg[0]["fields"], cagg[0]["ops"])).get("input_context")
        ic_sites = {(bb, idx) for bb, idx, place, rv, _ in b.assignments()
                    if rv["k"] == "agg" and rv.get("adt") == "processor::InputContext"}
        ic_params = set(whole) if not aggs else set()
        if o is not None:
            # the InputContext aggregate reaches this field through Some(..), Rc::new(..), Option::map(Rc::new) ...
            pr2 = Prov(b, LOOKX + ("Rc::<T>::new", "Option::<T>::map"))
            seen, work, hit, other = set(), list(pr2.origins(o)), False, False
            while work:
                a = work.pop()
                if a in seen:
                    continue
                seen.add(a)
                if a[0] == "agg":
                    if (a[1], a[2]) in ic_sites:
                        hit = True
                        continue
                    rvx = b.stmts(a[1])[a[2]]["rv"]
                    if rvx.get("variant_name") == "None":
                        other = True
                    for oo in rvx["ops"]:
                        work.extend(pr2.origins(oo))
                elif a[0] in ("call", "arg"):
                    if a[0] == "call" and (b.call_at[a[1]].name or "").startswith(("std::rc::Rc::<T>::new", "core::ops::function")):
                        continue
                    if a[0] == "arg":
                        if a[1] in ic_params and not a[2]:
                            hit = True
                        else:
                            other = True
            okc = hit and not other
    if okc:
        r.ok("Context.input_context", "Some(Rc::new(input_context))", b.where())
    else:
        r.bad("Context.input_context", "the new context does not carry the InputContext just built", b.where())
    # selectors
    gb = lib.bodies.get("<input_context_extractor::InputContextExtractor as selection::Get>::get")
    ty = lib.adts.get("input_context_extractor::Type")
    ic = lib.adts.get("processor::InputContext")
    loc = lib.adts.get("reader::Location")
    if not gb or not ty or not ic or not loc:
        r.missing("InputContextExtractor::get / Type / InputContext / Location")
        return
    icf = [f["name"] for f in ic["variants"][0]["fields"]]
    lf = [f["name"] for f in loc["variants"][0]["fields"]]

    def location(line, ch):
        v = [None] * len(lf)
        v[lf.index("line_number")] = ("i", line)
        v[lf.index("char_number")] = ("i", ch)
        return ("adt", 0, tuple(v))
    icv = [None] * len(icf)
    icv[icf.index("start_location")] = location(11, 12)
    icv[icf.index("end_location")] = location(21, 22)
    icv[icf.index("file_index")] = ("i", 111)
    icv[icf.index("index")] = ("i", 222)
    expect = {"Index": 222, "IndexInFile": 111, "StartedAtLineNumber": 11, "StartedAtCharNumber": 12,
              "EndsAtLineNumber": 21, "EndAtCharNumber": 22}
    for vi, v in enumerate(ty["variants"]):
        name = v["name"]
        if name not in expect:
            r.ok("selector[%s]" % name, "not a position/ordinal selector", gb.where(), nontrivial=False)
            continue
        got = []

        def model(c, av, envv, pe):
            n = c.name or ""
            if n.endswith("Context::input_context"):
                return (True, some(("rv", ("adt", 0, tuple(icv)))))
            if (c.callee or "") == "std::ops::Deref::deref":
                x = pe._deref_all(envv, av[0]) if av else None
                return (True, ("rv", x) if x is not None else None)
            if (c.callee or "") in ("std::convert::Into::into", "std::convert::From::from"):
                x = pe._deref_all(envv, av[0]) if av else None
                got.append(x)
                return (True, ("i", -1))
            return None
        pe = PE(gb, model, eq_ok=common.derived_eq_ok(lib))
        res = pe.run(env={1: ("rv", ("adt", 0, (("adt", vi, ()),)))})
        vals = set()
        for bb, idx, rv, opv in res.aggs:
            if rv.get("adt") == "json_value::NumberValue" and opv:
                vals.add(opv[0])
        for x in got:
            if x is not None and x[0] == "i":
                vals.add(x)
        key = "selector[%s]" % name
        if res.forks:
            r.bad(key, "the field read depends on something other than the selector (fork at bb%d)" % res.forks[0], gb.where())
        elif vals == {("i", expect[name])}:
            r.ok(key, "reads the field seeded with %d" % expect[name], gb.where())
        else:
            r.bad(key, "does not read its own field: with start=(11,12) end=(21,22) index-in-file=111 index=222 it "
                  "yields %s" % sorted(v_[1] for v_ in vals if v_), gb.where())


def files(rep, lib, cg):
    r = rep.rule("C17-FILES", "Master::go creates the run-wide counter once as 0 and hands the same &mut to every "
                 "read; files are visited in command-line order; read_file hands its counter on unchanged and builds "
                 "one Reader per file; no Reader is stored in a struct or static", floor=6,
                 analysis="A4 provenance of the counter argument at every read_* call + iterator type of the file loop "
                          "+ A7 census of Reader-typed fields + A1 callers of the Reader constructors")
    go = common.go_body(lib)
    rf = None
    for n, b in lib.bodies.items():
        if n.startswith("Master") and n.endswith("::read_file"):
            rf = b
    if go is None or rf is None:
        r.missing("Master::go / Master::read_file")
        return
    pr = Prov(go, LOOKX)
    reads = [c for c in go.calls if (c.name or "").endswith("::read_input") or (c.name or "").endswith("::read_file")]
    if len(reads) < 2:
        r.missing("read_input and read_file calls in Master::go")
    roots = set()
    for c in reads:
        # index argument: the &mut u64
        idx = [i for i, a in enumerate(c.args) if (a.get("place") or {}).get("ty") == "&mut u64"]
        if len(idx) != 1:
            r.bad("go#%s/counter" % c.method(), "cannot identify the counter argument", c.where())
            continue
        at = pr.origins(c.args[idx[0]])
        consts = {a for a in at if a[0] == "const"}
        other = {a for a in at if a[0] in ("arg", "call", "agg", "local")}
        if consts == {("const", "0_u64")} and not other:
            r.ok("go#%s/counter" % c.method(), "&mut of a local that starts at 0", c.where())
        else:
            r.bad("go#%s/counter" % c.method(), "the run-wide counter handed to %s does not start at the constant 0 "
                  "(origins %s)" % (c.method(), sorted(consts | other)), c.where())
        l = c.args[idx[0]]["place"]["l"]
        from rules.panic_rules import def_of
        d = def_of(go, l)
        while d and d[0] == "rv" and d[3]["k"] == "ref" and d[3]["place"]["p"] == ["deref"]:
            d = def_of(go, d[3]["place"]["l"])
        if d and d[0] == "rv" and d[3]["k"] == "ref":
            roots.add(d[3]["place"]["l"])
    if len(roots) == 1:
        root = list(roots)[0]
        defs = [(bb, rv) for bb, idx, place, rv, _ in go.assignments() if place["l"] == root and not place["p"]]
        if len(defs) == 1 and not go.in_loop(defs[0][0]):
            r.ok("go/one-counter", "every read is handed the same local, initialised once outside the file loop",
                 go.where(defs[0][0]))
        else:
            r.bad("go/one-counter", "the run-wide counter is (re)initialised %d times or inside the file loop"
                  % len(defs), go.where())
    else:
        r.bad("go/one-counter", "the reads are handed %d different counters" % len(roots), go.where())
    # file order
    from rules.progress_rules import loop_driver, iter_type
    rfc = [c for c in go.calls if (c.name or "").endswith("::read_file")]
    okorder = False
    for h, blocks in go.loops().items():
        if rfc and rfc[0].bb in blocks:
            drv = loop_driver(go, blocks, h)
            tys = [iter_type(c) for c in drv]
            if tys and all(t and (t.startswith("std::vec::IntoIter<std::path::PathBuf")
                                  or t.startswith("std::slice::Iter<'_, std::path::PathBuf")) for t in tys):
                src = Prov(go, LOOKX + ("Clone>::clone", "IntoIterator>::into_iter")).origins(drv[0].args[0])
                okorder = any(a[0] == "arg" and a[1] == 1 for a in src)
    if okorder:
        r.ok("go/file-order", "for file in self.cli.files (forward)", rfc[0].where())
    else:
        r.bad("go/file-order", "the files are not visited by a forward iteration over the command-line list",
              rfc[0].where() if rfc else go.where())
    # read_file passes its counter through, one reader per file
    prf = Prov(rf, LOOKX)
    for c in rf.calls:
        if (c.name or "").endswith("::read_input") or (c.name or "").endswith("::read_file"):
            idx = [i for i, a in enumerate(c.args) if (a.get("place") or {}).get("ty") == "&mut u64"]
            at = {a for a in prf.origins(c.args[idx[0]]) if a[0] in ("arg", "call", "const", "agg", "local")} if idx else set()
            if at and all(a[0] == "arg" and not [p for p in a[2] if p != "deref"] for a in at):
                r.ok("read_file#%s/counter" % c.method(), "its own counter parameter, unchanged", c.where())
            else:
                r.bad("read_file#%s/counter" % c.method(), "read_file does not hand on the counter it was given", c.where())
        if (c.name or "").endswith("::read_input"):
            ra = [a for a in prf.origins(c.args[1]) if a[0] == "call"]
            if ra and all((rf.call_at[a[1]].name or "").endswith("reader::from_file") for a in ra):
                r.ok("read_file/reader", "a Reader built by from_file in this very call", c.where())
            else:
                r.bad("read_file/reader", "the Reader handed to read_input is not freshly built for this file", c.where())
    stored = []
    for path, adt in lib.adts.items():
        for v in adt["variants"]:
            for f in v["fields"]:
                if "reader::Reader<" in f["ty"]:
                    stored.append("%s.%s" % (path, f["name"]))
    for s in lib.statics:
        if "reader::Reader<" in s["ty"]:
            stored.append(s["path"])
    if stored:
        r.bad("reader/not-stored", "a Reader is kept in %s: values could span files or be read out of order" % stored, "")
    else:
        r.ok("reader/not-stored", "no struct field or static of type Reader", "", nontrivial=False)
    allowed = {"reader::from_file": ("read_file",), "reader::from_std_in": ("go",)}
    for ctor, homes in allowed.items():
        callers = sorted({n for n, c in cg.callers_of(lambda t: t == ctor)})
        if callers and all(any(n.endswith("::" + h) and n.startswith("Master") for h in homes) for n in callers):
            r.ok("callers[%s]" % ctor, "%s" % callers, "", nontrivial=False)
        else:
            r.bad("callers[%s]" % ctor, "called from %s, expected only Master::%s" % (callers, homes[0]), "")


def location(rep, lib):
    r = rep.rule("C17-LOCATION", "Reader.location is written only by Reader::next (and built in Reader::new); for each "
                 "of the 256 byte values next() adds 1 to the line and resets the column to 1 on 0x0A and adds 1 to the "
                 "column otherwise; an exhausted or failing source moves nothing", floor=4,
                 analysis="A7 census of writes to Reader.location + A5 partial evaluation of Reader::next with the "
                          "Bytes::next result and the location seeded")
    radt = lib.adts.get("reader::Reader")
    ladt = lib.adts.get("reader::Location")
    nb = lib.body("reader::Reader::<R>::next")
    if not radt or not ladt or nb is None:
        r.missing("reader::Reader / Location / next")
        return
    rfn = [f["name"] for f in radt["variants"][0]["fields"]]
    lfn = [f["name"] for f in ladt["variants"][0]["fields"]]
    li = rfn.index("location")
    writers = set()
    for n, b in lib.bodies.items():
        for bb, idx, place, rv, _ in b.assignments():
            ps = [p for p in place["p"] if p != "deref"]
            if ps and ps[0] == "f%d" % li and "reader::Reader<" in b.local_ty(place["l"]):
                writers.add(n)
    if writers <= {"reader::Reader::<R>::next"}:
        r.ok("location/writers", "written only in Reader::next", nb.where())
    else:
        r.bad("location/writers", "Reader.location is also written in %s" % sorted(writers - {"reader::Reader::<R>::next"}), "")
    bn = [c for c in nb.calls if (c.callee or "").endswith("Iterator::next") and "std::io::Bytes<" in (c.full or "")]
    if len(bn) != 1:
        r.missing("Bytes::next call")
        return

    def run(val):
        rv = [None] * len(rfn)
        lv = [None] * len(lfn)
        lv[lfn.index("line_number")] = ("i", 7)
        lv[lfn.index("char_number")] = ("i", 9)
        rv[li] = ("adt", 0, tuple(lv))
        rv[rfn.index("eof")] = ("b", False)
        out = []

        def model(c, av, envv, pe):
            if c.bb == bn[0].bb:
                return (True, val)
            return None
        pe = PE(nb, model)
        finals = []

        def hook(bb, e, first):
            if nb.term(bb)["k"] == "return":
                s = pe._deref_all(e, e.get(1))
                if s is not None and s[0] == "adt":
                    loc = s[2][li]
                    finals.append((loc[2][lfn.index("line_number")], loc[2][lfn.index("char_number")]) if loc else None)
                else:
                    finals.append(None)
            return None
        pe.visit_hook = hook
        pe.run(env={1: ("rv", ("adt", 0, tuple(rv)))})
        return finals
    bad = []
    for v in range(256):
        fin = run(some(("adt", 0, (("i", v),))))
        want = (("i", 8), ("i", 1)) if v == 0x0A else (("i", 7), ("i", 10))
        if not fin or any(f != want for f in fin):
            bad.append((v, fin[:2]))
    if bad:
        v, fin = bad[0]
        r.bad("next[bytes]", "from (line 7, column 9) byte 0x%02X leads to %s (%d byte value(s) wrong): lines are "
              "counted by 0x0A, columns by bytes" % (v, fin, len(bad)), nb.where())
    else:
        r.ok("next[bytes]", "256 byte values: 0x0A -> (line+1, column 1), others -> (line, column+1)", nb.where())
    for label, val in (("exhausted", NONE), ("read-error", some(("adt", 1, (None,))))):
        fin = run(val)
        if fin and all(f == (("i", 7), ("i", 9)) for f in fin):
            r.ok("next[%s]" % label, "location unchanged", nb.where())
        else:
            r.bad("next[%s]" % label, "the location moves although no byte was consumed: %s" % fin[:2], nb.where())
    # Reader::new starts at line 1
    newb = lib.body("reader::Reader::<R>::new")
    if newb is not None:
        aggs = [rv for bb, idx, place, rv, _ in newb.assignments() if rv["k"] == "agg" and rv.get("adt") == "reader::Location"]
        if len(aggs) == 1:
            named = dict(zip(aggs[0]["fields"], aggs[0]["ops"]))
            if named["line_number"].get("int") == 1 and named["char_number"].get("int") == 1:
                r.ok("new/start", "a new Reader starts at line 1, column 1", newb.where(), nontrivial=False)
            else:
                r.bad("new/start", "a new Reader does not start at line 1, column 1", newb.where())


def run(ctx, rep):
    lib = ctx.lib
    c16.raw_io(rep, lib, side="input")
    c16.eof_distinct(rep, lib)
    counters(rep, lib)
    constructor(rep, lib)
    files(rep, lib, ctx.cg)
    location(rep, lib)
    # a file that ends inside a value must not end the run: the files after it are still read (an UnexpectedEof
    # is recoverable; only an I/O error is fatal)
    from rules import c06_shared
    c06_shared.recover(rep, lib, rid="C16-RECOVER", require_recoverable=True)
    # the input context travels with every derived context (after --split-by, inside map / | / filter ...): the
    # input_context cell of each Context constructor is a copy of self.input_context (shared with C12)
    from rules import c12 as _c12
    common.share(_c12, ctx, rep, {"C12-FRAME"}, key_suffixes=[".input_context"], floors={"C12-FRAME": 5})
    common.share(_c12, ctx, rep, {"C12-CTOR-CENSUS"})   # input_context is one of the fields no derived context may reset
    common.clone_faithful(rep, lib)

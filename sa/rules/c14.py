"""C14 — `--take` stops reading: the Break decision reaches the read loop."""
from lib.peval import PE, ok as OK
from rules import common

INFO = {
    "decided": "The Break decision produced by the limiter reaches the read loop: for every stage that can sit "
               "in front of the limiter and is not a buffering stage, whenever its successor's process() answers "
               "Break the stage returns Ok(Break) without calling the successor again (decided by partial "
               "evaluation of the stage body with the call result seeded to Ok(Break)); Master::read_input leaves "
               "its loop on Break; the limiter has a path that answers Break. Each instance is a necessary "
               "condition: a stage that drops the decision makes jawk read an endless input forever. Input is pulled "
               "one byte at a time through io::Bytes (no whole-file or block read), so what is read past the last "
               "needed value is bounded by the reader's look-ahead. The limiter is built from cli.skip / cli.take as they are (take is an Option, so --take 0 is a limit of zero rows).",
    "not_decided": "The limiter's Break timing beyond the explored parameters (skip, take <= 6; streams of 16 rows; <= 12 and 40 rows in the thorough tier) and "
                   "the exact number of bytes read past the last value (one byte of look-ahead by construction of Reader).",
    "trusted": ["sa/tables/pipeline_order.toml (which stage classes may precede the limiter)"],
}

BREAK = ("adt", 1, ())
CONT = ("adt", 0, ())


def decision_variants(lib):
    adt = lib.adts.get("processor::ProcessDesision")
    if not adt:
        return None
    names = [v["name"] for v in adt["variants"]]
    return names


def run(ctx, rep):
    lib = ctx.lib
    names = decision_variants(lib)
    r1 = rep.rule("C14-DECISION-FLOW",
                  "in every non-buffering stage in front of the limiter, when self.next.process(..) answers "
                  "Ok(Break) the stage returns Ok(Break) without calling self.next.process again",
                  floor=5, analysis="A5 partial evaluation (seed: call result = Ok(Break)) + A4 receiver provenance")
    r2 = rep.rule("C14-READLOOP", "Master::read_input: on Ok(Break) from process.process(..) no path leads back "
                  "to next_json_value (the loop is left)", floor=1, analysis="A5 partial evaluation")
    r3 = rep.rule("C14-LIMITER-BREAKS", "the limiter has a return path answering Ok(Break)", floor=1,
                  analysis="aggregate census")
    if not names or "Break" not in names or "Continue" not in names:
        r1.missing("processor::ProcessDesision{Continue,Break}")
        return
    brk = ("adt", names.index("Break"), ())
    stage_cls, tab = common.stage_classes(lib)
    order = tab["construction_order"]
    lim_idx = order.index("limit")
    eq_ok = common.derived_eq_ok(lib)
    for st in common.stages(lib):
        cls = stage_cls.get(st.struct)
        if st.is_sink():
            continue
        if cls is not None and order.index(cls) <= lim_idx:
            # limiter itself and stages behind it are exempt (they never see a Break from a limiter)
            if cls == "limit":
                pb = st.bodies.get("process")
                found = False
                if pb:
                    for bb, idx, place, rv, _ in pb.assignments():
                        if rv["k"] == "agg" and rv.get("adt") == "processor::ProcessDesision" \
                                and rv.get("variant_name") == "Break":
                            found = True
                if found:
                    r3.ok(st.short + "::process", "constructs ProcessDesision::Break", pb.where())
                else:
                    r3.bad(st.short + "::process", "the limiter never answers Break: --take cannot stop the read loop",
                           pb.where() if pb else "")
            continue
        if st.is_buffering():
            r1.note("%s: buffering stage (complete() calls next.process), exempt" % st.short)
            continue
        pb = st.bodies.get("process")
        if pb is None:
            r1.missing(st.short + "::process")
            continue
        sites = st.next_calls(pb, "process")
        if not sites:
            r1.bad(st.short + "::process", "stage in front of the limiter never calls self.next.process: it cannot "
                   "forward the Break decision (class %s)" % cls, pb.where())
            continue
        for n, site in enumerate(sites):
            key = "%s::process#next.process[%d]" % (st.short, n)

            def model(c, av, env, pe, site=site):
                if c.bb == site.bb:
                    return (True, OK(brk))
                return None

            pe = PE(pb, model, eq_ok=eq_ok)
            # start at the call block itself (skip statements: they run before the call anyway)
            res = pe.run(start=site.bb)
            again = [bb for bb, c, av in res.calls if c.bb != site.bb and c in sites]
            again_same = [(a, b) for (a, b) in res.edges if b == site.bb]
            bad_returns = [(bb, v) for bb, v in res.returns if v != OK(brk)]
            if again or again_same:
                path = pb.path(site.bb, (again or [site.bb])[0])
                r1.bad(key, "after the successor answered Break the stage can call self.next.process again "
                       "(decision dropped)", site.where(),
                       witness="blocks %s in %s" % (path, pb.name))
            elif bad_returns:
                bb, v = bad_returns[0]
                r1.bad(key, "the successor's Break is not returned: a return is reached with value %s "
                       "(expected Ok(Break))" % (fmt(v, names),), site.where(),
                       witness="return block bb%d of %s; path %s" % (bb, pb.name, pb.path(site.bb, bb)))
            elif not res.returns:
                r1.bad(key, "no return reached after the call (unrecognised idiom)", site.where())
            else:
                r1.ok(key, "Ok(Break) is returned on all %d return path(s); %d states explored"
                      % (len(res.returns), res.states), site.where())
    # read loop
    ri = common.read_input_body(lib)
    if ri is None:
        r2.missing("Master::read_input")
        return
    psites = [c for c in ri.calls if c.trait == common.PROCESS_TRAIT and c.method() == "process"]
    if not psites:
        r2.missing("process.process(..) call in read_input")
    for n, site in enumerate(psites):
        def model(c, av, env, pe, site=site):
            if c.bb == site.bb:
                return (True, OK(brk))
            return None
        res = PE(ri, model, eq_ok=eq_ok).run(start=site.bb)
        again = [c for bb, c, av in res.calls if (c.name or "").endswith("next_json_value")
                 or (c.callee or "").endswith("next_json_value")]
        key = "read_input#process.process[%d]" % n
        if again:
            r2.bad(key, "after Ok(Break) the read loop can call next_json_value again", site.where(),
                   witness="path %s" % ri.path(site.bb, again[0].bb))
        elif not res.returns:
            r2.bad(key, "no return reached after Ok(Break)", site.where())
        else:
            r2.ok(key, "Break leaves the loop; returns reached: %d" % len(res.returns), site.where())


    # "a bounded number of bytes past the value": input is pulled one byte at a time, never a whole file / block
    from rules import pipeline_rules as _P
    _P.limiter_machine(rep, lib, rid="C14-LIMITER-MACHINE")
    _P.limiter_wiring(rep, lib, rid="C14-LIMITER-WIRING")
    # the limiter can only answer Break on a row it is shown: no stage in front of it keeps rows back on its own account
    _P.withhold(rep, lib, rid="C14-WITHHOLD")
    from rules import c10 as _c10
    common.share(_c10, ctx, rep, {"C10-FIRST-ONLY"})
    from rules import c16
    c16.raw_io(rep, lib, side="input")
    c16.eof_distinct(rep, lib)


def fmt(v, names):
    if v is None:
        return "unknown"
    try:
        if v[0] == "adt" and v[2] and v[2][0] and v[2][0][0] == "adt":
            return ("Ok" if v[1] == 0 else "Err") + "(" + names[v[2][0][1]] + ")"
    except Exception:
        pass
    return str(v)

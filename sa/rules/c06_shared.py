"""Rules about Master::read_input / Master::go shared by C06, C16, C18, C20."""
from lib.peval import PE
from lib.prov import Prov
from rules import common
from rules import pipeline_rules as P
from rules.common import LOOK


def master_fields(lib):
    m = lib.adts.get("Master")
    cli = lib.adts.get("Cli")
    if not m or not cli:
        return None, None
    return [f["name"] for f in m["variants"][0]["fields"]], [f["name"] for f in cli["variants"][0]["fields"]]


def seed_self(lib, on_error_variant=None, extra_cli=None):
    """PE env with self = Master{cli: Cli{on_error: variant, ..}, ..} (everything else Unknown)."""
    mf, cf = master_fields(lib)
    cli_vals = [None] * len(cf)
    if on_error_variant is not None:
        cli_vals[cf.index("on_error")] = ("adt", on_error_variant, ())
    for k, v in (extra_cli or {}).items():
        cli_vals[cf.index(k)] = v
    mvals = [None] * len(mf)
    mvals[mf.index("cli")] = ("adt", 0, tuple(cli_vals))
    return {1: ("ref", -1, ()), -1: ("adt", 0, tuple(mvals))}


def _writer_field(body, prov, c, mf):
    """Which Master field the receiver of a RefCell::borrow_mut call is."""
    out = set()
    for a in prov.call_arg_origins(c, 0):
        if a[0] in ("via", "op"):
            continue
        if a[0] == "arg" and a[1] == 1 and a[2]:
            p = a[2][0]
            if p.startswith("f") and p[1:].isdigit() and int(p[1:]) < len(mf):
                out.add(mf[int(p[1:])])
            else:
                out.add("?" + p)
        else:
            out.add("?" + str(a[0]))
    return out


def route(rep, lib, rid="C06-ROUTE"):
    r = rep.rule(rid, "read_input's handling of a recoverable parse error, per --on-error policy: ignore writes "
                 "nothing and continues; panic returns the error; stdout writes one `error:` line to the stdout "
                 "parameter only (propagating a write failure) and continues; stderr does the same on the stderr "
                 "parameter only", floor=4,
                 analysis="A5 partial evaluation of read_input with next_json_value()=Err, can_recover()=true and "
                          "self.cli.on_error seeded to each variant + A4 receiver provenance")
    ri = common.read_input_body(lib)
    oe = lib.adts.get("OnError")
    mf, cf = master_fields(lib)
    if ri is None or oe is None or mf is None:
        r.missing("Master::read_input / OnError / Master")
        return
    njv = [c for c in ri.calls if (c.callee or "").endswith("next_json_value")]
    if len(njv) != 1:
        r.missing("exactly one next_json_value call in read_input (found %d)" % len(njv))
        return
    njv = njv[0]
    prov = Prov(ri, LOOK)
    loops = ri.loops()
    hdrs = [h for h, blocks in loops.items() if njv.bb in blocks]
    variants = [v["name"] for v in oe["variants"]]
    for vi, vn in enumerate(variants):
        def model(c, av, env, pe):
            if c.bb == njv.bb:
                return (True, ("adt", 1, (None,)))
            if (c.name or "").endswith("JsonParserError::can_recover"):
                return (True, ("b", True))
            if (c.callee or "").endswith("Write::write_fmt"):
                return None
            return None
        env = seed_self(lib, vi)
        res = PE(ri, model, eq_ok=common.derived_eq_ok(lib)).run(start=njv.bb, env=env, stop=hdrs)
        writes = [c for bb, c, av in res.calls if (c.callee or "").endswith("Write::write_fmt")
                  or (c.callee or "").endswith("Write::write_all") or (c.callee or "").endswith("Write::write")]
        borrows = [c for bb, c, av in res.calls if (c.name or "").endswith("RefCell::<T>::borrow_mut")
                   or (c.name or "").endswith("RefCell::<T>::borrow")]
        fields = set()
        for c in borrows:
            fields |= _writer_field(ri, prov, c, mf)
        others = [c for bb, c, av in res.calls if c.trait == common.PROCESS_TRAIT]
        back = any(b in hdrs for (a, b) in res.edges)
        rets = res.returns
        key = "read_input[on_error=%s]" % vn
        where = njv.where()
        low = vn.lower()
        if others:
            r.bad(key, "a pipeline call is reachable while handling a parse error", others[0].where())
            continue
        if low == "ignore":
            if writes or borrows:
                r.bad(key, "--on-error=ignore writes a diagnostic", (writes or borrows)[0].where())
            elif not back or rets:
                r.bad(key, "--on-error=ignore does not simply continue with the next value", where)
            else:
                r.ok(key, "silent, continues", where)
        elif low == "panic":
            errs = [v for _, v in rets if v is not None and v[0] == "adt" and v[1] == 1]
            if writes:
                r.bad(key, "--on-error=panic writes a diagnostic line instead of failing", writes[0].where())
            elif back or len(errs) != len(rets) or not rets:
                r.bad(key, "--on-error=panic does not return the error on every path (continues: %s)" % back, where)
            else:
                r.ok(key, "returns Err", where)
        elif low in ("stdout", "stderr"):
            if not writes:
                r.bad(key, "no diagnostic is written", where)
            elif fields != {low}:
                r.bad(key, "the diagnostic for --on-error=%s is written to %s (fields of Master), expected exactly "
                      "{%s}" % (low, sorted(fields), low), writes[0].where())
            elif len(writes) != 1:
                r.bad(key, "%d writes per malformed region, expected one" % len(writes), writes[0].where())
            elif not back:
                r.bad(key, "after reporting the error the loop does not continue", where)
            else:
                # write failure must propagate: seed the write as Err
                def model2(c, av, env, pe):
                    if (c.callee or "").endswith("Write::write_fmt"):
                        return (True, ("adt", 1, (None,)))
                    return model(c, av, env, pe)
                res2 = PE(ri, model2, eq_ok=common.derived_eq_ok(lib)).run(start=njv.bb, env=seed_self(lib, vi), stop=hdrs)
                back2 = any(b in hdrs for (a, b) in res2.edges)
                if back2 or not res2.returns:
                    r.bad(key, "a failed write of the diagnostic is ignored (the loop continues)", writes[0].where())
                else:
                    r.ok(key, "one line on `%s`, write failure propagated, continues" % low, writes[0].where())
        else:
            r.bad(key, "unknown OnError variant %s: no routing rule (add it to the rule consciously)" % vn, where)
    return r


def recover(rep, lib, rid="C16-RECOVER", require_recoverable=False):
    r = rep.rule(rid, "an unrecoverable (I/O) parse error returns before the policy is consulted: can_recover() is "
                 "false for every JsonParserError variant that carries an io::Error, and in read_input the failing "
                 "edge of can_recover reaches only `return Err` with no write and no loop continuation, under every "
                 "policy", floor=5, analysis="ADT facts + A5 partial evaluation")
    ri = common.read_input_body(lib)
    jpe = lib.adts.get("json_parser::JsonParserError")
    cr = lib.body("json_parser::JsonParserError::can_recover")
    oe = lib.adts.get("OnError")
    if ri is None or jpe is None or cr is None or oe is None:
        r.missing("read_input / JsonParserError / can_recover / OnError")
        return
    io_variants = []
    for vi, v in enumerate(jpe["variants"]):
        carries = any("std::io::Error" in f["ty"] for f in v["fields"])
        val = ("adt", vi, tuple([None] * len(v["fields"])))
        res = PE(cr, eq_ok=common.derived_eq_ok(lib)).run(env={1: ("rv", val)})
        vals = {x for _, x in res.returns}
        key = "can_recover[%s]" % v["name"]
        if carries:
            io_variants.append(v["name"])
            if vals == {("b", False)}:
                r.ok(key, "carries io::Error -> not recoverable", cr.where())
            else:
                r.bad(key, "variant %s carries an io::Error but can_recover() may answer %s: a read failure is "
                      "skipped like a malformed value" % (v["name"], vals), cr.where())
        else:
            if vals == {("b", True)}:
                r.ok(key, "recoverable", cr.where(), nontrivial=False)
            elif vals == {("b", False)} and require_recoverable:
                r.bad(key, "a malformed-input error without an io::Error (%s) is treated as fatal: under --on-error "
                      "ignore / stdout / stderr such input must be skipped or reported, not end the run" % v["name"],
                      cr.where())
            elif vals == {("b", False)}:
                r.ok(key, "treated as fatal (stricter than required)", cr.where(), nontrivial=False)
            else:
                r.bad(key, "can_recover() is not a constant per variant: %s" % vals, cr.where())
    if not io_variants:
        r.bad("can_recover[io]", "no JsonParserError variant carries an io::Error: read failures cannot be "
              "distinguished from malformed input", cr.where())
    njv = [c for c in ri.calls if (c.callee or "").endswith("next_json_value")]
    if len(njv) != 1:
        r.missing("next_json_value call")
        return
    njv = njv[0]
    hdrs = [h for h, blocks in ri.loops().items() if njv.bb in blocks]
    for vi, v in enumerate(oe["variants"]):
        def model(c, av, env, pe):
            if c.bb == njv.bb:
                return (True, ("adt", 1, (None,)))
            if (c.name or "").endswith("JsonParserError::can_recover"):
                return (True, ("b", False))
            return None
        res = PE(ri, model, eq_ok=common.derived_eq_ok(lib)).run(start=njv.bb, env=seed_self(lib, vi), stop=hdrs)
        writes = [c for bb, c, av in res.calls if "Write::write" in (c.callee or "")
                  or (c.name or "").endswith("RefCell::<T>::borrow_mut")]
        recov = [c for bb, c, av in res.calls if (c.name or "").endswith("JsonParserError::can_recover")]
        back = any(b in hdrs for (a, b) in res.edges)
        errs = [x for _, x in res.returns if x is not None and x[0] == "adt" and x[1] == 1]
        key = "read_input[fatal,on_error=%s]" % v["name"]
        if not recov:
            r.bad(key, "can_recover() is not consulted on the error path under this policy", njv.where())
        elif writes:
            r.bad(key, "an unrecoverable error is reported as a diagnostic line instead of stopping the run",
                  writes[0].where())
        elif back:
            r.bad(key, "after an unrecoverable error the read loop continues (a failing reader is read forever)",
                  njv.where())
        elif not res.returns or len(errs) != len(res.returns):
            r.bad(key, "an unrecoverable error does not make read_input return Err on every path", njv.where())
        else:
            r.ok(key, "returns Err immediately", njv.where())
    return r


def flush_rule(r, lib):
    go = common.go_body(lib)
    mf, cf = master_fields(lib)
    if go is None or mf is None:
        r.missing("Master::go")
        return
    starts = [c for c in go.calls if c.trait == common.PROCESS_TRAIT and c.method() == "start"]
    if len(starts) != 1 or starts[0].target is None:
        r.missing("single Process::start call in Master::go")
        return
    prov = Prov(go, LOOK + ("RefCell::<T>::borrow_mut", "RefMut<'_, T> as std::ops::DerefMut>::deref_mut"))
    flushes = []
    for c in go.calls:
        if (c.callee or "") == "std::io::Write::flush":
            srcs = set()
            for a in prov.call_arg_origins(c, 0):
                if a[0] == "arg" and a[1] == 1 and a[2] and a[2][0][1:].isdigit():
                    srcs.add(mf[int(a[2][0][1:])])
            if srcs == {"stdout"}:
                # result must be propagated: dest consumed by Try::branch
                uses = [x for x in go.calls if (x.callee or "") == "std::ops::Try::branch"
                        and x.args and x.args[0]["k"] in ("move", "copy") and x.args[0]["place"]["l"] == c.dest["l"]]
                if uses or c.dest["l"] == 0:
                    flushes.append(c)
    esc = P.non_error_escape(go, [c.bb for c in flushes], start=starts[0].target)
    if esc:
        r.bad("go#flush", "after start() a successful return of Master::go is reachable without flushing the output "
              "writer with error propagation: output that is still buffered (no trailing newline, or a buffering "
              "writer) is lost silently and the exit status stays 0", go.where(),
              witness=P.witness(go, starts[0].target, esc[0], [c.bb for c in flushes]))
    else:
        r.ok("go#flush", "%d propagated flush call(s) on self.stdout" % len(flushes), flushes[0].where())

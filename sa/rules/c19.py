"""C19 — 64-bit integers survive untouched; number-as-string arithmetic is exact."""
from rules import common
from rules import number_rules as NR

INFO = {
    "decided": "Payload integrity: an integer payload (Positive(u64) / Negative(i64)) is created only by a direct "
               "integer parse of that width, from a usize/u64 counter, or - inside From<f64> only - by a cast of the "
               "double to that very width, and the normalisation window of From<f64> is exact on every region its "
               "constants define; a JSON number is converted to a double only by the documented arithmetic "
               "functions and the comparator; integer->float casts occur only at tabled sites; the printers write "
               "u64/i64 with a plain `{}` of that type. The number-as-string functions contain no floating-point "
               "value and call only exact bigdecimal operations. NumberValue::eq on all pairs of 64-bit integer representations (incl. 2^53, 2^53+1, 2^64-1, -2^63) compares integers as integers. JSON values are never identified by their order: no BTreeSet / BTreeMap / BinaryHeap keyed by JsonValue outside the tabled --sort-by buckets (Ord compares numbers as doubles, so two integers above 2^53 would be merged). Every comparison made by a number-as-string comparison function is a comparison of BigDecimal values, never of the raw JSON values or their spelling.",
    "not_decided": "That bigdecimal's + - * abs normalized cmp and std's str::parse are exact (trusted libraries), "
                   "and the equality of printed digits with input digits as a run-time statement.",
    "trusted": ["sa/tables/arithmetic.toml", "sa/tables/nas_exact.toml", "bigdecimal 0.4 operator impls are exact"],
}


def nas_float_free(rep, ctx):
    lib = ctx.lib
    r = rep.rule("C19-NAS-FLOAT-FREE", "no body under functions::number_as_string has a floating-point local, and "
                 "every bigdecimal operation it calls is one of the tabled exact operations", floor=17,
                 analysis="A7 census of local types + A1 foreign-callee census; oracle sa/tables/nas_exact.toml")
    allowed = set(common.table("nas_exact.toml")["allowed"])
    for name, b in sorted(lib.bodies.items()):
        if "functions::number_as_string" not in name:
            continue
        key = NR.short(name) + ("#" + name.rsplit("::", 1)[-1] if "closure" in name.rsplit("::", 1)[-1] else "")
        fl = [l for l in b.locals if l["ty"] in ("f64", "f32") or "f64" in l["ty"] or "f32" in l["ty"]]
        bad = None
        if fl:
            bad = "has a floating-point local of type %s" % fl[0]["ty"]
        for c in b.calls:
            full = c.full or ""
            if c.t.get("resolved_local") or c.t.get("callee_local") or ctx.cg.forwarded(c):
                continue
            if "f64" in full or "f32" in full:
                bad = "calls %s" % full
            if "bigdecimal" in full or "BigDecimal" in full:
                if full not in allowed and (c.name or "") not in allowed:
                    # generic plumbing over BigDecimal values (Option::map, Rc::new ...) is fine
                    if (c.name or "").startswith("bigdecimal::") or (c.resolved or "").startswith("bigdecimal::") \
                            or full.startswith("<bigdecimal::"):
                        bad = "calls %s, which is not a tabled exact operation (precision-limited or lossy)" % full
        if bad:
            r.bad(key + "@" + name[-40:], "%s: number-as-string arithmetic would no longer be exact" % bad, b.where())
        else:
            r.ok(key + "@" + name[-40:], "float-free, exact operations only", b.where(), nontrivial=bool(b.calls))
    return r


def nas_compare_exact(rep, ctx):
    """The number-as-string comparison functions compare decimal *values*: every comparison in those bodies is a
    comparison of BigDecimals (a comparison of the raw JSON values or their texts compares spellings: "1.0" vs "1")."""
    lib = ctx.lib
    r = rep.rule("C19-NAS-COMPARE", "every comparison made by a number-as-string comparison function is a comparison "
                 "of bigdecimal::BigDecimal values (never of the raw JSON values or their spelling)", floor=6, analysis="A7 census of the std::cmp calls in the bodies under "
                                                          "functions::number_as_string::nas_compare, with their resolved self types")
    seen = {}
    for name, b in sorted(lib.bodies.items()):
        if "functions::number_as_string::nas_compare" not in name:
            continue
        mod = name.split("nas_compare::", 1)[-1].split("::", 1)[0]
        for c in b.calls:
            cal = c.callee or ""
            if not cal.startswith("std::cmp::"):
                continue
            full = c.full or ""
            key = "%s#%s@%s" % (mod, cal.rsplit("::", 1)[-1], NR.short(name)[-30:])
            if "bigdecimal::BigDecimal" in full:
                seen[mod] = seen.get(mod, 0) + 1
                r.ok(key, full[:90], c.where())
            else:
                r.bad(key, "compares %s: two spellings of one number (\"1.0\" and \"1\", \"100\" and \"1E2\") are "
                      "told apart, or ordered by their text" % full[:120], c.where())
    return r


def run(ctx, rep):
    lib = ctx.lib
    NR.parse_direct(rep, lib)
    from rules import parser_rules as _PRS
    _PRS.digits(rep, lib)
    _PRS.reader_state(rep, lib)   # a token buffer that survives a value would put stale digits in front of an integer
    NR.int_ctor(rep, lib)
    NR.float_window(rep, lib)
    NR.float_ctor(rep, lib)
    NR.float_conv(rep, ctx)
    NR.num_eq(rep, ctx, rid="C19-NUM-EQ", integers_only=True)
    NR.print_direct(rep, lib)
    nas_float_free(rep, ctx)
    NR.ord_identity(rep, lib)
    nas_compare_exact(rep, ctx)

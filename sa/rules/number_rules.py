"""Rules about number representation shared by C01, C02, C10, C19."""
import math
import re

from lib.peval import PE, ok as OK, some, byte, NONE
from lib.prov import Prov
from lib.callgraph import CallGraph
from rules import common
from rules.common import LOOK
from rules import parser_rules as PR

JV = "json_value::JsonValue"
NV = "json_value::NumberValue"
FROM_F64 = "<json_value::JsonValue as std::convert::From<f64>>::from"
CONV = ("json_value::<impl std::convert::From<json_value::NumberValue> for f64>::from",
        "json_value::<impl std::convert::From<&json_value::NumberValue> for f64>::from",
        "json_value::<impl std::convert::TryFrom<json_value::JsonValue> for f64>::try_from")


def _idx(lib, adt, name):
    a = lib.adts.get(adt)
    if not a:
        return None
    names = [v["name"] for v in a["variants"]]
    return names.index(name) if name in names else None


def jnum(lib, variant, payload):
    """PE value of JsonValue::Number(NumberValue::<variant>(payload))."""
    return ("adt", _idx(lib, JV, "Number"), (("adt", _idx(lib, NV, variant), (payload,)),))


# ------------------------------------------------------------------ C19-PARSE-DIRECT

def parse_direct(rep, lib):
    r = rep.rule("C19-PARSE-DIRECT", "a plain integer literal becomes Positive(u64) / Negative(i64) by a direct "
                 "integer parse of that width, with no floating-point parse on that path", floor=2,
                 analysis="A5 partial evaluation of read_number under the scenarios 'digits only' and 'minus, digits'")
    b = PR.parser_body(lib, "read_number")
    if b is None:
        r.missing("read_number")
        return
    peeks = [c for c in b.calls if PR.is_peek(c)]
    peeks.sort(key=lambda c: sum(1 for d in peeks if b.dominates(d.bb, c.bb)))
    if len(peeks) < 3:
        r.missing("three peek() decisions in read_number")
        return
    for name, first, want_variant, want_val in (("digits", 0x35, "Positive", 7), ("minus-digits", 0x2D, "Negative", -9)):
        def model(c, av, env, pe, first=first):
            if c.bb == peeks[0].bb:
                return (True, OK(some(byte(first))))
            if PR.is_peek(c):
                return (True, OK(NONE))
            if PR.is_next(c):
                return (True, OK(some(byte(0x35))))
            n = c.full or ""
            if n.startswith("std::string::String::from_utf8"):
                return (True, ("adt", 0, (None,)))
            if n.startswith("core::str::<impl str>::parse::<u64>"):
                return (True, ("adt", 0, (("i", 7),)))
            if n.startswith("core::str::<impl str>::parse::<i64>"):
                return (True, ("adt", 0, (("i", -9),)))
            if (c.name or "").endswith("read_digits"):
                return (True, ("adt", 0, (("adt", 0, ()),)))
            return None
        res = PE(b, model, eq_ok=common.derived_eq_ok(lib)).run()
        calls = [c for _, c, _ in res.calls]
        fl = [c for c in calls if (c.callee or "").endswith("parse_to_double")
              or (c.full or "").startswith("core::str::<impl str>::parse::<f64>")]
        want = OK(jnum(lib, want_variant, ("i", want_val)))
        rets = [v for _, v in res.returns]
        key = "read_number[%s]" % name
        if fl:
            r.bad(key, "a plain integer literal can reach the floating-point parse (%s): integers above 2^53 lose "
                  "digits" % fl[0].full, fl[0].where())
        elif not rets or any(v != want for v in rets):
            r.bad(key, "a plain %s integer literal does not simply return Number(%s(parsed %s)); returned: %s"
                  % ("negative" if first == 0x2D else "non-negative", want_variant,
                     "i64" if first == 0x2D else "u64", sorted(set(map(str, rets)))[:3]), b.where())
        else:
            r.ok(key, "Number(%s(str::parse::<%s>))" % (want_variant, "i64" if first == 0x2D else "u64"), b.where())
    return r


# ------------------------------------------------------------------ C19-INT-CTOR / C10-FLOAT-CTOR

def int_ctor(rep, lib):
    r = rep.rule("C19-INT-CTOR", "an integer payload is created only from an integer parse (read_number), a usize / "
                 "u64 counter, or - inside From<f64> for JsonValue only - a cast of the double to that very width",
                 floor=7, analysis="A7 census of NumberValue::{Positive,Negative} aggregates + A4 payload provenance")
    for name, b in sorted(lib.bodies.items()):
        pr = None
        ordinal = {}
        for bb, idx, place, rv, st in b.assignments():
            if rv["k"] != "agg" or rv.get("adt") != NV or rv.get("variant_name") not in ("Positive", "Negative"):
                continue
            ordinal[rv["variant_name"]] = ordinal.get(rv["variant_name"], 0) + 1
            if "std::clone::Clone>::clone" in name and (lib.fninfo.get(name, {}).get("derived")
                                                         or common.clone_body_ok(lib, name)):
                r.ok("%s#%s" % (short(name), rv["variant_name"]), "a field-wise Clone", b.where(bb), nontrivial=False)
                continue
            pr = pr or Prov(b, LOOK)
            want_ty = "u64" if rv["variant_name"] == "Positive" else "i64"
            atoms = pr._rv_origins_at({"k": "use", "op": rv["ops"][0]}, (), bb, idx, set())
            key = "%s#%s[%d]" % (short(name), rv["variant_name"], ordinal[rv["variant_name"]])
            verdict = None
            for a in atoms:
                if a[0] == "call":
                    c = b.call_at[a[1]]
                    full = c.full or ""
                    if full.startswith("core::str::<impl str>::parse::<%s>" % want_ty) and "dc0:Ok" in a[2]:
                        continue
                    if (c.name or "") == "processor::Context::input_context" and want_ty == "u64" \
                            and rv["ops"][0].get("place", {}).get("ty") == "u64":
                        continue   # a u64 counter field of InputContext, moved as is
                    verdict = "payload comes from %s" % full
                elif a[0] == "op":
                    kind = a[1]
                    if kind.startswith("cast:IntToInt:") and kind.endswith(":" + want_ty):
                        # integer widening is fine only from usize/u32.. of the same signedness (no truncation)
                        continue
                    if kind.startswith("cast:FloatToInt:") and name == FROM_F64 and kind.endswith(":" + want_ty):
                        continue
                    verdict = "payload goes through %s" % kind
                elif a[0] == "arg":
                    continue
                elif a[0] == "const":
                    continue
                elif a[0] == "via":
                    continue
                else:
                    verdict = "payload origin %s" % (a,)
                if verdict:
                    break
            # IntToInt casts: source must be an unsigned type for Positive
            if verdict is None:
                for bb2, idx2, place2, rv2, _ in b.assignments():
                    if rv2["k"] == "cast" and rv2["cast"] == "IntToInt" and rv2["ty"] == want_ty:
                        src = rv2["op"].get("place", {}).get("ty") or rv2["op"].get("ty")
                        if want_ty == "u64" and src not in ("usize", "u32", "u16", "u8", "u64"):
                            verdict = "payload is an integer cast from %s to u64 (sign/width change)" % src
            if verdict:
                r.bad(key, "%s: an integer value can be altered on its way into the payload" % verdict, b.where(bb))
            else:
                r.ok(key, "payload provenance ok", b.where(bb))
    return r


def float_ctor(rep, lib):
    r = rep.rule("C10-FLOAT-CTOR", "NumberValue::Float is constructed only inside From<f64> for JsonValue (behind "
                 "its integrality test), so an integral value in range is never represented as Float and the "
                 "hand-written Hash agrees with equality", floor=2, analysis="A7 construction-site census")
    for name, b in sorted(lib.bodies.items()):
        for bb, idx, place, rv, st in b.assignments():
            if rv["k"] == "agg" and rv.get("adt") == NV and rv.get("variant_name") == "Float":
                key = "%s#Float" % short(name)
                if name == FROM_F64:
                    r.ok(key, "the normalising constructor", b.where(bb))
                elif "std::clone::Clone>::clone" in name and (lib.fninfo.get(name, {}).get("derived")
                                                               or common.clone_body_ok(lib, name)):
                    r.ok(key, "a field-wise Clone", b.where(bb), nontrivial=False)
                else:
                    r.bad(key, "NumberValue::Float is built directly: 1.0 and 1 would be equal but hash differently "
                          "(--unique keeps both) and print differently", b.where(bb))
    return r


# ------------------------------------------------------------------ float window (C10 / C01 / C02 / C19)

def _representatives(body):
    xs = {0.0, -0.0, 0.5, -0.5, 1.0, -1.0, 1.5, -1.5, 3.0, 2.0 ** 53, 2.0 ** 53 + 2, -(2.0 ** 53), 2.0 ** 63,
          2.0 ** 63 + 2048, -(2.0 ** 63), -(2.0 ** 63) + 1024, -(2.0 ** 63) - 2048, 2.0 ** 64, 2.0 ** 64 - 2048,
          2.0 ** 64 + 4096, -(2.0 ** 64), -(2.0 ** 64) + 2048, 1e19, 1.2e19, -1e19, 1e300, -1e300, 5e-324, -5e-324,
          1.7976931348623157e308, 9007199254740993.0, 0.1, -0.1, 1e15 + 0.5, math.inf, -math.inf, math.nan}
    # plus every float constant of the function and its neighbours
    for bb, idx, place, rv, _ in body.assignments():
        for o in _ops(rv):
            if o.get("k") == "const" and o.get("ty") in ("f64",) and "bits" in o:
                import struct
                c = struct.unpack("<d", struct.pack("<Q", o["bits"]))[0]
                xs |= {c, math.nextafter(c, math.inf), math.nextafter(c, -math.inf)}
            if o.get("k") == "const" and o.get("ty") in ("u64", "i64") and "int" in o:
                c = float(o["int"])
                xs |= {c, math.nextafter(c, math.inf), math.nextafter(c, -math.inf)}
    # a Python set identifies 0.0 and -0.0: keep both signed zeros explicitly (they print differently: `0` / `-0`)
    out = {}
    import struct as _st
    for x in list(xs) + [-0.0, 0.0]:
        out[_st.pack("<d", x)] = x
    return list(out.values())


def float_window(rep, lib, rid="C10-WINDOW"):
    r = rep.rule(rid, "From<f64> for JsonValue normalises exactly: an integral double in [0, 2^64) becomes "
                 "Positive(that integer), an integral double in (-2^63, 0) becomes Negative(that integer), every "
                 "other double (fractional, out of range, non-finite) stays Float unchanged",
                 floor=30, analysis="A5 partial evaluation over the regions cut by the function's own float "
                 "constants (one representative per region and boundary, including neighbours by nextafter)")
    b = lib.body(FROM_F64)
    if b is None:
        r.missing(FROM_F64)
        return
    bad = {}
    n = 0
    for x in sorted(_representatives(b), key=lambda v: (v != v, v)):
        res = PE(b).run(env={1: ("f", x)})
        rets = {v for _, v in res.returns}
        n += 1
        integral = math.isfinite(x) and x == math.floor(x)
        if integral and 0 <= x < 2.0 ** 64:
            want = [jnum(lib, "Positive", ("i", int(x)))]
        elif integral and -(2.0 ** 63) < x < 0:
            want = [jnum(lib, "Negative", ("i", int(x)))]
        elif integral and x == -(2.0 ** 63):
            # both spellings denote the same value; the boundary itself is outside the properties' ranges
            want = [jnum(lib, "Negative", ("i", int(x))), jnum(lib, "Float", ("f", x))]
        else:
            want = [jnum(lib, "Float", ("f", x))]
        okv = len(rets) == 1 and any(_same(list(rets)[0], w) for w in want)
        if not okv and res.panics:
            okv = False
        if okv:
            r.ok("from_f64[%r]" % x, "-> %s" % _fmt(list(rets)[0]), b.where(), nontrivial=True)
        else:
            bad.setdefault((_fmt(sorted(rets, key=str)[0]) if rets else "no return", _fmt(want[0])), []).append(x)
    for (got, want), xs in bad.items():
        r.extra += len(xs) - 1
        r.bad("from_f64[%s]" % ",".join(repr(x) for x in xs[:4]),
              "for the double(s) %s the result is %s, expected %s: the value changes on its way through the "
              "normalisation (or an integral value stays Float and hashes unlike the equal integer)"
              % ([repr(x) for x in xs[:6]], got, want), b.where())
    return r


def _same(a, b):
    if a is None or b is None:
        return a is b
    if a[0] == "f" and b[0] == "f":
        return (a[1] != a[1] and b[1] != b[1]) or (a[1] == b[1] and math.copysign(1, a[1]) == math.copysign(1, b[1])) \
            or (a[1] == b[1] == 0)
    if a[0] == "adt" and b[0] == "adt":
        return a[1] == b[1] and len(a[2]) == len(b[2]) and all(_same(x, y) for x, y in zip(a[2], b[2]))
    return a == b


def _fmt(v):
    if v is None:
        return "unknown"
    if v[0] == "adt":
        return "adt#%d(%s)" % (v[1], ",".join(_fmt(x) for x in v[2]))
    return "%s:%r" % (v[0], v[1])


# ------------------------------------------------------------------ C19-FLOAT-CONV / casts

def float_conv(rep, ctx):
    lib = ctx.lib
    tab = common.table("arithmetic.toml")
    r = rep.rule("C19-FLOAT-CONV", "a JSON number is converted to a double only by the documented arithmetic "
                 "functions and the comparator; integer->float casts occur only in the conversion impls and the "
                 "tabled time functions", floor=20, analysis="A1 who-may-call (with Into/TryInto forwarding) + cast census")
    cg = ctx.cg
    for caller, c in cg.callers_of(lambda n: n in CONV):
        key = "%s#to_f64" % short(caller)
        if any(caller.startswith(p) for p in tab["float_conv_callers"]):
            r.ok(key, "documented arithmetic / comparator", c.where(), nontrivial=False)
        elif caller in CONV:
            r.ok(key, "one conversion impl delegating to another", c.where(), nontrivial=False)
        else:
            r.bad(key, "%s converts a JSON number to f64 (%s): an integer passing through it is rounded to 53 bits"
                  % (caller, c.full), c.where())
    allowed = {e["fn"]: e["reason"] for e in tab["int_to_float"]}
    for name, b in sorted(lib.bodies.items()):
        for bb, idx, place, rv, st in b.assignments():
            if rv["k"] == "cast" and rv["cast"] == "IntToFloat":
                key = "%s#IntToFloat" % short(name)
                if name in allowed:
                    r.ok(key, allowed[name], b.where(bb), nontrivial=False)
                else:
                    r.bad(key, "integer -> float cast outside the tabled conversion sites: a 64-bit integer would be "
                          "rounded to 53 bits here", b.where(bb))
    return r


# ------------------------------------------------------------------ C19-PRINT-DIRECT / C02-NUMFMT

def print_direct(rep, lib, rid="C19-PRINT-DIRECT"):
    r = rep.rule(rid, "every print_u64 / print_i64 / print_f64 writes its argument with a plain `{}` (Display, no "
                 "width, precision, sign or alternate flag) of exactly that type, with no cast in the body",
                 floor=6, analysis="format_args templates (post-expansion AST) joined with the MIR argument types")
    for name, b in sorted(lib.bodies.items()):
        m = name.rsplit("::", 1)[-1]
        if m not in ("print_u64", "print_i64", "print_f64") or "output_style::Print<W>>::" not in name:
            continue
        want_ty = m.split("_")[1]
        key = "%s::%s" % (name.split(" as ")[0].lstrip("<").rsplit("::", 1)[-1], m)
        # the templates of the writes that are part of the analysed body (a write that only runs under an option the
        # rules do not know is not: lib/specialize.py)
        from rules.printer_rules import fmt_site, is_write_fmt
        sites = [x for x in (fmt_site(lib, c) for c in b.calls if is_write_fmt(c)) if x is not None]
        if not sites and not any(is_write_fmt(c) for c in b.calls):
            sites = lib.fmt_in(name)
        casts = [rv for bb, idx, place, rv, _ in b.assignments() if rv["k"] == "cast"
                 and rv["cast"] in ("IntToFloat", "FloatToInt", "IntToInt", "FloatToFloat")]
        args = [c for c in b.calls if (c.name or "").startswith("core::fmt::rt::Argument::<'_>::new_")]
        others = [c for c in b.calls if (c.name or "").endswith("::%s" % m.replace(want_ty, "f64")) and want_ty != "f64"]
        if len(sites) != 1:
            r.bad(key, "expected exactly one write! in %s, found %d" % (m, len(sites)), b.where())
            continue
        pcs = sites[0]["pieces"]
        phs = [p for p in pcs if "ph" in p]
        lits = [p for p in pcs if "lit" in p]
        if casts:
            r.bad(key, "%s converts its argument (%s) before printing" % (m, casts[0]["cast"]), b.where())
        elif lits or len(phs) != 1:
            r.bad(key, "the template is not a single placeholder: %s" % pcs, b.where())
        elif phs[0]["ph"] != "Display" or any(phs[0][k] for k in ("width", "precision", "fill", "align", "sign",
                                                                  "debug_hex")) or phs[0]["alternate"] or phs[0]["zero_pad"]:
            r.bad(key, "the number is not written with a plain `{}`: %s" % phs[0], b.where())
        elif len(args) != 1 or args[0].gargs[-1:] != [want_ty] or not args[0].name.endswith("new_display"):
            r.bad(key, "the value formatted is not the %s parameter itself: %s" % (want_ty, [a.full for a in args]),
                  b.where())
        else:
            r.ok(key, "write!(f, \"{}\") of the %s" % want_ty, b.where())
    return r


# ------------------------------------------------------------------ C02-FINITE

def finite(rep, ctx):
    lib = ctx.lib
    tab = common.table("arithmetic.toml")
    r = rep.rule("C02-FINITE", "no non-finite double reaches the JSON number constructor: every argument of "
                 "From<f64> for JsonValue is guarded by is_finite() or is computed from finite sources by "
                 "finite-preserving operations", floor=10, analysis="A1 callers (with Into forwarding) + A4 "
                 "provenance classification + A2 guard dominance")
    cg = ctx.cg
    preserving = set(tab["finite_preserving"])
    sources = set(tab["finite_sources"])
    for caller, c in cg.callers_of(lambda n: n == FROM_F64):
        b = lib.bodies[caller]
        key = "%s#from_f64" % short(caller)
        pr = Prov(b, LOOK)
        # 1. guarded by is_finite on the same value?
        guarded = False
        for g in b.calls:
            if (g.name or "").endswith("<impl f64>::is_finite") and g.target is not None:
                for s in range(b.n):
                    t = b.term(s)
                    if t["k"] == "switch" and t["discr"].get("k") in ("copy", "move") \
                            and t["discr"]["place"]["l"] == g.dest["l"] and not t["discr"]["place"]["p"]:
                        true_t = t["otherwise"]
                        if b.edge_dominates((s, true_t), c.bb):
                            guarded = True
        if guarded:
            r.ok(key, "guarded by is_finite()", c.where())
            continue
        verdict = _finite_safe(b, pr, c.args[0], c.bb, len(b.stmts(c.bb)), preserving, sources, lib, 0)
        if verdict is None:
            r.ok(key, "finite sources through finite-preserving operations", c.where())
        else:
            r.bad(key, "the double handed to the JSON number constructor may be infinite or NaN (%s): it would be "
                  "printed as `inf`/`NaN`, which is not JSON" % verdict, c.where())
    # the constructor handed on as a function value (`.map(JsonValue::from)`): its argument is whatever the adapter
    # feeds it, i.e. the payload of the Option / Result / iterator it is applied to
    for name, b in sorted(lib.bodies.items()):
        for c in b.calls:
            for ai, a in enumerate(c.args):
                if a.get("k") == "const" and (a.get("s") == FROM_F64 or ("{%s}" % FROM_F64) in (a.get("ty") or "")):
                    key = "%s#from_f64(fn value)" % short(name)
                    pr = Prov(b, LOOK)
                    verdict = "applied by %s to values that are not judged" % (c.name or "?")
                    if ai >= 1 and c.args[0].get("k") in ("move", "copy"):
                        v = _finite_safe(b, pr, c.args[0], c.bb, len(b.stmts(c.bb)), preserving, sources, lib, 0)
                        verdict = None if v is None else "%s; payload: %s" % (c.name, v)
                    if verdict is None:
                        r.ok(key, "applied to a finite payload", c.where())
                    else:
                        r.bad(key, "the JSON number constructor is applied as a function value to a double that may "
                              "be infinite or NaN (%s): it would be printed as `inf`/`NaN`, which is not JSON"
                              % verdict, c.where())
    return r


def _finite_safe(b, pr, operand, bb, pos, preserving, sources, lib, depth):
    """None if provably finite, else a reason string."""
    if depth > 6:
        return "too deep"
    if operand.get("k") == "const":
        return None
    place = operand["place"]
    l = place["l"]
    sites = pr.reaching(l, bb, pos) if len(pr._def_sites(l)) > 1 else pr._def_sites(l)
    if not sites:
        if 1 <= l <= b.arg_count:
            return "parameter _%d" % l
        return "no definition of _%d" % l
    for sbb, spos, kind, payload in sites:
        if kind == "call":
            c = b.call_at[sbb]
            full = c.full or ""
            name = c.name or ""
            fwd = None
            if (c.callee or "") == "std::convert::Into::into" and len(c.gargs) >= 2 and c.gargs[1] == "f64" \
                    and "NumberValue" in c.gargs[0]:
                continue
            if name in CONV or full in sources or name in sources:
                continue
            if (name.startswith("std::f64::<impl f64>::") or name.startswith("core::f64::<impl f64>::")) \
                    and name.rsplit("::", 1)[-1] in preserving:
                v = _finite_safe(b, pr, c.args[0], sbb, spos, preserving, sources, lib, depth + 1)
                if v:
                    return v
                continue
            if (c.callee or "") == "std::ops::Try::branch" or name.endswith("Try>::branch"):
                v = _finite_safe(b, pr, c.args[0], sbb, spos, preserving, sources, lib, depth + 1)
                if v:
                    return v
                continue
            return "result of %s" % (full or name)
        dproj, rv = payload
        k = rv["k"]
        if k == "use":
            v = _finite_safe(b, pr, rv["op"], sbb, spos, preserving, sources, lib, depth + 1)
            if v:
                return v
        elif k == "cast" and rv["cast"] == "IntToFloat":
            continue
        elif k == "binop" and rv["op"] in ("Div", "Rem", "Mul", "Add", "Sub"):
            a, bo = rv["a"], rv["b"]
            if rv["op"] == "Div" and bo.get("k") == "const" and "bits" in bo:
                import struct
                d = struct.unpack("<d", struct.pack("<Q", bo["bits"]))[0]
                if abs(d) >= 1.0 and math.isfinite(d):
                    v = _finite_safe(b, pr, a, sbb, spos, preserving, sources, lib, depth + 1)
                    if v:
                        return v
                    continue
            if rv["op"] == "Rem":
                # finite % finite is finite unless the divisor is zero: need a dominating `== 0.0` test
                va = _finite_safe(b, pr, a, sbb, spos, preserving, sources, lib, depth + 1)
                vb = _finite_safe(b, pr, bo, sbb, spos, preserving, sources, lib, depth + 1)
                if va or vb:
                    return va or vb
                if _zero_guard(b, bo, sbb):
                    continue
                return "remainder without a zero-divisor test"
            return "unguarded floating-point %s" % rv["op"]
        else:
            return "defined by %s" % k
    return None


def _zero_guard(b, divisor, block):
    if divisor.get("k") not in ("copy", "move"):
        return False
    dl = divisor["place"]["l"]
    # locals holding the same value as the divisor (copies)
    same = {dl}
    changed = True
    while changed:
        changed = False
        for bb, idx, place, rv, _ in b.assignments():
            if rv["k"] == "use" and rv["op"].get("k") in ("copy", "move") and not place["p"] \
                    and not rv["op"]["place"]["p"]:
                a, c = rv["op"]["place"]["l"], place["l"]
                if (a in same) != (c in same):
                    same.update((a, c))
                    changed = True
    for bb, idx, place, rv, _ in b.assignments():
        if rv["k"] == "binop" and rv["op"] in ("Eq", "Ne"):
            ops = [rv["a"], rv["b"]]
            locs = [o["place"]["l"] for o in ops if o.get("k") in ("copy", "move")]
            zero = [o for o in ops if o.get("k") == "const" and o.get("bits") in (0, 1 << 63)]
            if zero and any(x in same for x in locs):
                # find the switch on this bool
                t = b.term(bb)
                if t["k"] == "switch" and t["discr"].get("k") in ("copy", "move") and t["discr"]["place"]["l"] == place["l"]:
                    false_t = [tg for v, tg in t["arms"] if v == 0]
                    nonzero_edge = (bb, false_t[0]) if rv["op"] == "Eq" and false_t else (bb, t["otherwise"])
                    if b.edge_dominates(nonzero_edge, block):
                        return True
    return False


def _ops(rv):
    k = rv["k"]
    if k in ("use", "cast", "repeat"):
        return [rv["op"]]
    if k == "binop":
        return [rv["a"], rv["b"]]
    if k == "unop":
        return [rv["a"]]
    if k == "agg":
        return rv["ops"]
    return []


def short(name):
    n = name
    if n.startswith("<functions::") or n.startswith("functions::"):
        n = n.lstrip("<")[len("functions::"):]
        return n.split("::get::")[0]
    return n


# ------------------------------------------------------------------ number universe (C10 / C07 / C19)

def _num_variants(lib):
    a = lib.adts.get("json_value::NumberValue")
    return {v["name"]: i for i, v in enumerate(a["variants"])} if a else None


def _universe():
    """(label, variant, payload, exact value as Fraction, canonical?) - canonical = a representation the parser and
    From<f64> can produce for that value (C10-FLOAT-CTOR / C10-WINDOW / C19-INT-CTOR establish that only these arise;
    the bare literal -0 is excluded by the property itself)."""
    from fractions import Fraction
    out = []
    for n in (0, 1, 2, 10, 2 ** 53 - 1, 2 ** 53, 2 ** 53 + 1, 2 ** 63 - 1, 2 ** 63, 2 ** 64 - 1):
        out.append(("Positive(%d)" % n, "Positive", ("i", n), Fraction(n), True))
    for n in (-1, -2, -10, -(2 ** 53) + 1, -(2 ** 53), -(2 ** 53) - 1, -(2 ** 63)):
        out.append(("Negative(%d)" % n, "Negative", ("i", n), Fraction(n), True))
    out.append(("Negative(0)", "Negative", ("i", 0), Fraction(0), False))
    for x in (0.5, -0.5, 1.5, 2.5e-10, 1e300, -1e300, 5e-324, 1.7976931348623157e308, 2.0 ** 64, 2.0 ** 70, -(2.0 ** 70),
              4503599627370496.5):
        out.append(("Float(%r)" % x, "Float", ("f", x), Fraction(x), True))
    for x in (0.0, 1.0, -1.0, 2.0 ** 52):
        out.append(("Float(%r) [non-canonical]" % x, "Float", ("f", x), Fraction(x), False))
    return out


def _interop(u):
    """The property's interoperable range: integers below 2^53 in magnitude, or non-integral numbers."""
    x = u[3]
    return x.denominator != 1 or abs(x) < 2 ** 53


def _nv(vs, variant, payload):
    return ("adt", vs[variant], (payload,))


def num_eq(rep, ctx, rid="C10-NUM-EQ", integers_only=False):
    lib = ctx.lib
    what = ("every pair of 64-bit integer representations (0, 1, 2^53-1, 2^53, 2^53+1, 2^63-1, 2^63, 2^64-1, -1 .. "
            "-2^63, and the spelling Negative(0))" if integers_only else
            "every pair of representations in the interoperable range (integers below 2^53 in magnitude, non-integral "
            "doubles incl. 5e-324, and the non-canonical spellings Float(0.0), Float(1.0), Float(-1.0), Float(2^52), "
            "Negative(0))")
    r = rep.rule(rid, "NumberValue::eq, evaluated on %s, answers exactly whether the two denote the same number - "
                 "integers are compared as integers, never through a double" % what, floor=100,
                 analysis="A5 partial evaluation of the body of PartialEq for NumberValue with both operands seeded; "
                          "oracle: exact rational equality")
    b = lib.bodies.get("<json_value::NumberValue as std::cmp::PartialEq>::eq")
    vs = _num_variants(lib)
    if b is None or vs is None:
        r.missing("PartialEq for NumberValue")
        return
    U = [u for u in _universe() if (u[1] != "Float" if integers_only else _interop(u))]
    bad = []
    n = 0
    for la, va, pa, xa, _ in U:
        for lb, vb, pb, xb, _ in U:
            env = {1: ("rv", _nv(vs, va, pa)), 2: ("rv", _nv(vs, vb, pb))}
            res = PE(b, None, max_states=4000).run(env=env)
            vals = {v for _, v in res.returns}
            n += 1
            want = ("b", xa == xb)
            if vals != {want}:
                bad.append((la, lb, sorted(map(str, vals)), want[1]))
    r.extra = n - 1
    if bad:
        la, lb, got, want = bad[0]
        r.bad("eq/universe", "(= %s %s) is %s, the numbers are %s (%d of %d pairs wrong or undecided - an undecided pair "
              "means eq delegates to code outside its own body, e.g. a comparison through f64)"
              % (la, lb, got, "equal" if want else "different", len(bad), n), b.where())
    else:
        r.ok("eq/universe", "%d pairs agree with exact equality" % n, b.where())


def _hash_feed(lib, hb, val):
    feed = []

    def model(c, av, envv, pe):
        cal = c.callee or ""
        if cal.startswith("std::hash::Hasher::write_"):
            feed.append((cal.rsplit("::", 1)[-1], pe._deref_all(envv, av[1]) if len(av) > 1 else None))
            return (True, ("adt", 0, ()))
        return None
    res = PE(hb, model, max_states=4000).run(env={1: ("rv", val)})
    if res.forks:
        return None
    return tuple(feed)


def num_hash(rep, ctx, rid="C10-NUM-HASH"):
    lib = ctx.lib
    r = rep.rule(rid, "Hash for JsonValue is coherent with = on numbers: two canonical representations that are "
                 "equal feed the hasher the same sequence, and every number feeds a tag plus its payload", floor=300,
                 analysis="A5 partial evaluation of Hash::hash with the value seeded, recording the Hasher::write_* "
                          "calls; joined with the exact-equality oracle over the canonical part of the universe")
    hb = lib.bodies.get("<json_value::JsonValue as std::hash::Hash>::hash")
    vs = _num_variants(lib)
    ja = lib.adts.get("json_value::JsonValue")
    if hb is None or vs is None or not ja:
        r.missing("Hash for JsonValue")
        return
    jn = [v["name"] for v in ja["variants"]].index("Number")
    U = [u for u in _universe() if u[4]]
    feeds = {}
    for la, va, pa, xa, _ in U:
        f = _hash_feed(lib, hb, ("adt", jn, (_nv(vs, va, pa),)))
        feeds[la] = f
    undecided = [l for l, f in feeds.items() if f is None or len(f) < 2 or any(x[1] is None for x in f)]
    if undecided:
        r.bad("hash/feed", "what is hashed for %s is not a tag followed by the payload (or depends on something else): %s"
              % (undecided[0], feeds[undecided[0]]), hb.where())
        return
    bad = []
    n = 0
    for la, va, pa, xa, _ in U:
        for lb, vb, pb, xb, _ in U:
            n += 1
            if xa == xb and feeds[la] != feeds[lb]:
                bad.append((la, lb))
            if xa != xb and feeds[la] == feeds[lb]:
                pass   # a collision is allowed (only wasteful)
    r.extra = n - 1
    if bad:
        r.bad("hash/coherent", "%s and %s are equal but feed the hasher %s and %s: --unique keeps both"
              % (bad[0][0], bad[0][1], feeds[bad[0][0]], feeds[bad[0][1]]), hb.where())
    else:
        r.ok("hash/coherent", "%d pairs: equal canonical numbers hash alike; tags distinguish the three "
             "representations" % n, hb.where())
    # other kinds: a distinct tag each
    tags = {}
    for name, payload in (("Null", ()), ("Boolean", (("b", True),)), ("Boolean", (("b", False),))):
        vi = [v["name"] for v in ja["variants"]].index(name)
        f = _hash_feed(lib, hb, ("adt", vi, payload))
        tags["%s%s" % (name, payload)] = f
    distinct = len({f for f in tags.values()}) == len(tags) and all(f for f in tags.values())
    numtags = {f[0] for f in feeds.values()}
    if distinct and not ({f[0] for f in tags.values() if f} & numtags):
        r.ok("hash/tags", "null, true, false and the three number representations have distinct tags", hb.where(),
             nontrivial=False)
    else:
        r.bad("hash/tags", "null / true / false / numbers do not have distinct hash tags: %s" % tags, hb.where())


def num_order(rep, ctx, rid="C07-NUM-ORDER"):
    lib = ctx.lib
    r = rep.rule(rid, "Ord for NumberValue, evaluated on every pair of the universe restricted to the interoperable "
                 "range (|n| < 2^53 or non-integral), orders by numeric value, is antisymmetric, and answers Equal "
                 "exactly when = does; partial_cmp is Some(cmp)", floor=200,
                 analysis="A5 partial evaluation of Ord::cmp with both operands seeded, the conversion impls it calls "
                          "evaluated the same way; oracle: exact rational order")
    from fractions import Fraction
    b = lib.bodies.get("<json_value::NumberValue as std::cmp::Ord>::cmp")
    vs = _num_variants(lib)
    if b is None or vs is None:
        r.missing("Ord for NumberValue")
        return
    cg = ctx.cg
    U = [u for u in _universe() if _interop(u)]

    def model(c, av, envv, pe):
        tgt = cg.forwarded(c)
        name = tgt or (c.name if (c.name or "") in lib.bodies and not c.is_dyn() else None)
        if name and name in lib.bodies and name != b.name:
            sub = PE(lib.bodies[name], model, max_states=4000)
            env2 = {}
            for i, v in enumerate(av):
                if v is None:
                    continue
                if v[0] == "ref":
                    inner = pe._read(envv, v[1], list(v[2]))
                    v = ("rv", inner) if inner is not None else None
                if v is not None:
                    env2[i + 1] = v
            rr = sub.run(env=env2)
            vals = {v for _, v in rr.returns}
            if len(vals) == 1:
                return (True, next(iter(vals)))
            return (True, None)
        return None
    bad = []
    n = 0
    sign = {0: -1, 1: 0, 2: 1}
    table = {}
    for la, va, pa, xa, _ in U:
        for lb, vb, pb, xb, _ in U:
            env = {1: ("rv", _nv(vs, va, pa)), 2: ("rv", _nv(vs, vb, pb))}
            res = PE(b, model, max_states=4000).run(env=env)
            vals = {v for _, v in res.returns}
            n += 1
            want = (xa > xb) - (xa < xb)
            got = None
            if len(vals) == 1:
                v = next(iter(vals))
                if v is not None and v[0] == "adt" and v[1] in sign:
                    got = sign[v[1]]
            # -0.0 vs 0.0 style ties are outside the universe (no signed zeros in it)
            table[(la, lb)] = got
            if got != want:
                bad.append((la, lb, got, want))
    r.extra = n - 1
    if bad:
        la, lb, got, want = bad[0]
        r.bad("cmp/universe", "cmp(%s, %s) is %s, by value it is %s (%d of %d pairs wrong or undecided)"
              % (la, lb, got, want, len(bad), n), b.where())
    else:
        r.ok("cmp/universe", "%d pairs ordered by exact value (hence antisymmetric, transitive, Equal iff =)" % n,
             b.where())
    pb_ = lib.bodies.get("<json_value::NumberValue as std::cmp::PartialOrd>::partial_cmp")
    if pb_ is not None:
        calls = [c for c in pb_.calls if (c.name or "") == b.name or (c.callee or "") == "std::cmp::Ord::cmp"]
        aggs = [rv for bb, idx, place, rv, _ in pb_.assignments() if rv["k"] == "agg" and rv.get("variant_name") == "Some"]
        if len(calls) == 1 and aggs and len(pb_.calls) == 1:
            r.ok("partial_cmp", "Some(self.cmp(other))", pb_.where(), nontrivial=False)
        else:
            r.bad("partial_cmp", "partial_cmp is not Some(self.cmp(other)): < <= > >= could disagree with the sort order",
                  pb_.where())



def double_accept(rep, lib, rid="C01-DOUBLE-ACCEPT"):
    """Every finite double the text denotes is accepted as that double; inf / NaN are not."""
    import math
    r = rep.rule(rid, "parse_to_double: whatever finite double str::parse::<f64> yields - zero of either sign, a "
                 "subnormal, the smallest normal, ordinary values, f64::MAX - is handed unchanged to From<f64> for "
                 "JsonValue and returned as Ok; an infinite or NaN result is an error", floor=9,
                 analysis="A5 partial evaluation of parse_to_double with the result of str::parse::<f64> seeded")
    b = PR.parser_body(lib, "parse_to_double")
    if b is None:
        r.missing("parse_to_double")
        return r
    reps = [("0.0", 0.0, True), ("-0.0", -0.0, True), ("5e-324", 5e-324, True),
            ("2.2250738585072009e-308", 2.2250738585072009e-308, True),
            ("2.2250738585072014e-308", 2.2250738585072014e-308, True), ("1.5", 1.5, True), ("-1e300", -1e300, True),
            ("1.7976931348623157e308", 1.7976931348623157e308, True), ("1e400", math.inf, False),
            ("-1e400", -math.inf, False), ("NaN", math.nan, False)]
    for text, x, accept in reps:
        seen = []

        def model(c, av, envv, pe, x=x):
            n = c.full or c.name or ""
            if "<impl str>::parse::<f64>" in n:
                return (True, ("adt", 0, (("f", x),)))
            if (c.name or "") == FROM_F64 or ((c.callee or "") in ("std::convert::From::from", "std::convert::Into::into")
                                              and "f64" in " ".join(c.gargs or [])):
                seen.append(pe._deref_all(envv, av[0]) if av else None)
                return (True, ("tok", "value"))
            return None
        try:
            res = PE(b, model, eq_ok=common.derived_eq_ok(lib)).run()
        except RuntimeError as e:
            r.bad("parse_to_double[%s]" % text, "not evaluated: %s" % e, b.where())
            continue
        rets = {v for _, v in res.returns}
        oks = [v for v in rets if v is not None and v[0] == "adt" and v[1] == 0]
        errs = [v for v in rets if v is not None and v[0] == "adt" and v[1] == 1]
        key = "parse_to_double[%s]" % text
        if res.forks or None in rets:
            r.bad(key, "the outcome for this value is not determined by the parsed double (unrecognised idiom)", b.where())
        elif accept:
            same = len(seen) >= 1 and all(v is not None and v[0] == "f" and (
                v[1] == x and math.copysign(1.0, v[1]) == math.copysign(1.0, x)) for v in seen)
            if oks and not errs and same:
                r.ok(key, "accepted as is", b.where())
            else:
                r.bad(key, "the finite double %s is %s" % (text, "rejected: the number (a valid JSON number) is reported "
                      "as an error and dropped" if errs else "not handed unchanged to the value constructor (%s)" % seen),
                      b.where())
        else:
            if errs and not oks:
                r.ok(key, "rejected", b.where(), nontrivial=False)
            else:
                r.bad(key, "a non-finite result is accepted", b.where())
    return r


# ------------------------------------------------------------------ C19-ORD-IDENTITY

ORD_KEYED = ("std::collections::BTreeSet<", "std::collections::BTreeMap<", "std::collections::BinaryHeap<",
             "std::collections::btree_set::", "std::collections::btree_map::")
ORD_TABLED = {
    "sorters::": "the --sort-by buckets: rows whose keys compare Equal share a bucket and are all kept, in arrival "
                 "order (C07-FIFO / C07-STABLE); the key only orders them",
}


def ord_identity(rep, lib, rid="C19-ORD-IDENTITY"):
    """`Ord for JsonValue` orders numbers by their value as doubles: two different 64-bit integers can compare Equal.
    That is harmless for ordering, but a collection that *identifies* its elements by Ord (BTreeSet / BTreeMap keys,
    dedup_by on a comparison, binary_search) merges such values into one. Values are identified by `==` / Hash only."""
    r = rep.rule(rid, "JSON values are never identified by their order: no BTreeSet / BTreeMap / BinaryHeap keyed by "
                 "JsonValue (two different 64-bit integers that share a double compare Equal and would be merged) "
                 "outside the tabled --sort-by buckets, which keep every row of a key", floor=1,
                 analysis="A7 census of local types and generic arguments in every body")
    pat = re.compile(r"(BTreeSet|BTreeMap|BinaryHeap)<(?:&\s*)?(?:std::option::Option<)?json_value::JsonValue")
    n = 0
    for name, b in sorted(lib.bodies.items()):
        hits = sorted({l["ty"] for l in b.locals if pat.search(l["ty"] or "")})
        for c in b.calls:
            for g in (c.gargs or []):
                if pat.search(g):
                    hits.append(g)
        if not hits:
            continue
        key = short(name)
        tabled = [why for pre, why in ORD_TABLED.items() if name.startswith(pre) or ("<" + pre) in name[:len(pre) + 2]]
        if tabled:
            n += 1
            r.ok(key, "tabled: " + tabled[0][:80], b.where(), nontrivial=False)
        else:
            r.bad(key, "holds JSON values in %s: elements that compare Equal under Ord are merged, and Ord compares "
                  "numbers as doubles - two different integers above 2^53 (and any two values `=` tells apart but Ord "
                  "does not) collapse into one" % hits[0][:120], b.where())
    if n == 0:
        r.ok("census", "no order-keyed collection of JSON values", "", nontrivial=False)
    return r

"""C04 — the function library: the clauses of the property whose truth is in the shape of the code.

The property as a whole (the *value* of 108 functions against their documentation) is a run-time statement and is not
decided. Four of its clauses have a structural part that is a genuine necessary condition and is decided here."""
import re

from rules import common
from rules import number_rules as NR

INFO = {
    "decided": "Four clauses of the property, each through its structural necessary condition, and nothing else: "
               "(1) 'collection functions preserve element and member order': an operation that reorders a "
               "collection (sort*, reverse / rev, swap_remove, swap, rotate, IndexMap swap_remove / sort_*, a "
               "BTreeMap / BTreeSet / BinaryHeap or std hash collection of JSON values) occurs in the function "
               "library only inside the functions whose documentation says they sort, reverse or take the last "
               "element (a frozen table of 9 modules); nothing is produced in the iteration order of a std hash "
               "collection. (2) 'arguments of the wrong type or absent arguments give nothing rather than a "
               "failure', 'honour N = 0, N = size and N > size' as far as failing is concerned: every panic edge "
               "of every body under functions:: is discharged or tabled (the functions:: part of the panic census). "
               "(3) 'numeric results with zero fractional part are integers': a double becomes a JSON number only "
               "through From<f64>, whose integrality window is exact on every region its constants define (signed "
               "zeros included), and non-finite results never reach it. (4) the arity the documentation declares is "
               "the arity the implementation needs: for each of the 111 registrations the declared minimum suffices "
               "for the implementation to yield a value and no argument beyond the declared maximum is read; every "
               "documented spelling resolves to its own function.",
    "not_decided": "What any function returns: (take xs 0), (take_last \"1234\" 2), (sum ..), the order inside the "
                   "sorting functions, the texts of the documentation. No run-time test stands in for that; the "
                   "property is claimed for the four structural clauses only.",
    "trusted": ["the frozen table of reordering functions in rules/c04.py (one reason per module)",
                "sa/tables/panicking_apis.toml, sa/tables/panic_sites.toml, sa/tables/aliases.toml"],
}

# modules of the function library whose documentation says they reorder (or pick from the far end)
REORDERING = {
    "functions::list::list_manipulations::sort": "sort: sorts the list",
    "functions::list::list_manipulations::sort_unique": "sort_unique: sorts and removes adjacent duplicates",
    "functions::list::list_manipulations::reverese": "reverse: reverses the list",
    "functions::list::functional::sort_by": "sort_by / order_by: sorts by a key",
    "functions::list::list_folding::last": "last: takes the last element (no reordering, reads the far end)",
    "functions::object::sort_objects::sort_by_keys": "sort_by_keys",
    "functions::object::sort_objects::sort_by_values": "sort_by_values",
    "functions::object::sort_objects::sort_by_values_by": "sort_by_values_by",
    "functions::number_as_string::nas_compare::sort_by": "number-as-string sort",
}
REORDER = re.compile(r"::(sort\w*|reverse|rev|swap_remove\w*|swap|swap_indices|move_index|rotate_left|rotate_right|"
                     r"sort_keys|sort_unstable\w*|select_nth\w*|last|next_back|nth_back|rfold|rfind|rposition|"
                     r"pop_front|push_front)$")
ORDERED_COLL = re.compile(r"(BTreeSet|BTreeMap|BinaryHeap)<(?:&\s*)?(?:std::option::Option<)?(json_value::JsonValue|"
                          r"std::string::String)")


def order_census(rep, lib):
    r = rep.rule("C04-ORDER-CENSUS", "operations that reorder a collection (or read it from the far end) occur in the "
                 "function library only inside the functions documented to sort, reverse or take the last element; "
                 "every other collection function hands elements and members on in the order it found them",
                 floor=9, analysis="A7 census of resolved callees and of order-keyed collection types in every body "
                                   "under functions::, against the frozen table of reordering modules")
    seen = set()
    for name, b in sorted(lib.bodies.items()):
        head = name.split(" as ")[0].lstrip("<")
        if not head.startswith("functions::"):
            continue
        mod = None
        for m in REORDERING:
            if head.startswith(m + "::") or head == m:
                mod = m
        hits = []
        for c in b.calls:
            nm = c.name or ""
            if REORDER.search(nm) and ("slice" in nm or "Vec" in nm or "VecDeque" in nm or "IndexMap" in nm
                                       or "IndexSet" in nm or "Iterator" in (c.callee or "") or "iter::" in nm):
                hits.append((c, nm))
        for l in b.locals:
            if ORDERED_COLL.search(l["ty"] or ""):
                hits.append((None, "a local of type " + l["ty"][:80]))
        for c, nm in hits:
            key = "%s#%s" % (head[len("functions::"):][:70], nm.rsplit("::", 1)[-1][:40])
            if key in seen:
                continue
            seen.add(key)
            where = c.where() if c is not None else b.where()
            if mod:
                r.ok(key, "tabled: " + REORDERING[mod], where, nontrivial=False)
            else:
                r.bad(key, "%s is used by a function that is not documented to reorder: elements or members no "
                      "longer come out in the order they were given" % nm[:100], where)
    return r


def run(ctx, rep):
    lib = ctx.lib
    # (1) order
    order_census(rep, lib)
    common.hash_order(rep, lib)
    # (2) no failure on ill-typed / absent arguments and at the boundaries of N: the functions:: part of the census
    from rules import c05 as _c05
    common.share(_c05, ctx, rep, {"C05-PANIC-CENSUS"}, key_prefixes=["<functions::", "functions::"],
                 floors={"C05-PANIC-CENSUS": 20})
    # (3) whole doubles are integers, and only finite doubles become numbers
    NR.float_ctor(rep, lib)
    NR.float_window(rep, lib)
    NR.finite(rep, ctx)
    # (4) declared arity = needed arity; every documented spelling is its own function
    from rules import c18 as _c18
    _c18.arity_use(rep, ctx)
    from rules import c13 as _c13
    common.share(_c13, ctx, rep, {"C13-ALIAS-TABLE", "C13-ALIAS-BLIND"})

"""C04 — the function library: the clauses of the property whose truth is in the shape of the code.

The property as a whole (the *value* of 108 functions against their documentation) is a run-time statement and is not
decided. Four of its clauses have a structural part that is a genuine necessary condition and is decided here."""
import re

from rules import common
from rules import number_rules as NR

INFO = {
    "decided": "Clauses of the property, each through its structural necessary condition, and nothing else: "
               "(1) 'collection functions preserve element and member order': an operation that reorders a "
               "collection (sort*, reverse / rev, swap_remove, swap, rotate, IndexMap swap_remove / sort_*, a "
               "BTreeMap / BTreeSet / BinaryHeap or std hash collection of JSON values) occurs in the function "
               "library only inside the functions whose documentation says they sort, reverse or take the last "
               "element (a frozen table of 9 modules); nothing is produced in the iteration order of a std hash "
               "collection. (2) 'arguments of the wrong type or absent arguments give nothing rather than a "
               "failure', 'honour N = 0, N = size and N > size' as far as failing is concerned: every panic edge "
               "of every body under functions:: is discharged or tabled (the functions:: part of the panic census). "
               "(3) 'numeric results with zero fractional part are integers': a double becomes a JSON number only "
               "through From<f64>, whose integrality window is exact on every region its constants define (signed "
               "zeros included), and non-finite results never reach it. (4) the arity the documentation declares is "
               "the arity the implementation needs: for each of the 111 registrations the declared minimum suffices "
               "for the implementation to yield a value and no argument beyond the declared maximum is read; every "
               "documented spelling resolves to its own function. (5) 'absent arguments give nothing': the adapters "
               "that drop None (filter_map, flat_map, flatten) see evaluated arguments only in the four element-wise "
               "mapping functions; no index, size or count is narrowed or re-signed by an `as` cast (one tabled site); "
               "names and keys written in an expression are decoded as UTF-8, never byte by byte; the sorting "
               "functions use the one comparator and a stable sort; (take xs 0) and (take_last xs 0), evaluated on a "
               "one-element array and object with N seeded to 0, add nothing to their result.",
    "not_decided": "What any function returns: (take xs 0), (take_last \"1234\" 2), (sum ..), the order inside the "
                   "sorting functions, the texts of the documentation. No run-time test stands in for that; the "
                   "property is claimed for the four structural clauses only.",
    "trusted": ["the frozen table of reordering functions in rules/c04.py (one reason per module)",
                "sa/tables/panicking_apis.toml, sa/tables/panic_sites.toml, sa/tables/aliases.toml"],
}

# modules of the function library whose documentation says they reorder (or pick from the far end)
REORDERING = {
    "functions::list::list_manipulations::sort": "sort: sorts the list",
    "functions::list::list_manipulations::sort_unique": "sort_unique: sorts and removes adjacent duplicates",
    "functions::list::list_manipulations::reverese": "reverse: reverses the list",
    "functions::list::functional::sort_by": "sort_by / order_by: sorts by a key",
    "functions::list::list_folding::last": "last: takes the last element (no reordering, reads the far end)",
    "functions::object::sort_objects::sort_by_keys": "sort_by_keys",
    "functions::object::sort_objects::sort_by_values": "sort_by_values",
    "functions::object::sort_objects::sort_by_values_by": "sort_by_values_by",
    "functions::number_as_string::nas_compare::sort_by": "number-as-string sort",
}
REORDER = re.compile(r"::(sort\w*|reverse|rev|swap_remove\w*|swap|swap_indices|move_index|rotate_left|rotate_right|"
                     r"sort_keys|sort_unstable\w*|select_nth\w*|last|next_back|nth_back|rfold|rfind|rposition|"
                     r"pop_front|push_front)$")
ORDERED_COLL = re.compile(r"(BTreeSet|BTreeMap|BinaryHeap)<(?:&\s*)?(?:std::option::Option<)?(json_value::JsonValue|"
                          r"std::string::String)")


def order_census(rep, lib):
    r = rep.rule("C04-ORDER-CENSUS", "operations that reorder a collection (or read it from the far end) occur in the "
                 "function library only inside the functions documented to sort, reverse or take the last element; "
                 "every other collection function hands elements and members on in the order it found them",
                 floor=9, analysis="A7 census of resolved callees and of order-keyed collection types in every body "
                                   "under functions::, against the frozen table of reordering modules")
    seen = set()
    for name, b in sorted(lib.bodies.items()):
        head = name.split(" as ")[0].lstrip("<")
        if not head.startswith("functions::"):
            continue
        mod = None
        for m in REORDERING:
            if head.startswith(m + "::") or head == m:
                mod = m
        hits = []
        for c in b.calls:
            nm = c.name or ""
            if REORDER.search(nm) and ("slice" in nm or "Vec" in nm or "VecDeque" in nm or "IndexMap" in nm
                                       or "IndexSet" in nm or "Iterator" in (c.callee or "") or "iter::" in nm):
                hits.append((c, nm))
        for l in b.locals:
            if ORDERED_COLL.search(l["ty"] or ""):
                hits.append((None, "a local of type " + l["ty"][:80]))
        for c, nm in hits:
            key = "%s#%s" % (head[len("functions::"):][:70], nm.rsplit("::", 1)[-1][:40])
            if key in seen:
                continue
            seen.add(key)
            where = c.where() if c is not None else b.where()
            if mod:
                r.ok(key, "tabled: " + REORDERING[mod], where, nontrivial=False)
            else:
                r.bad(key, "%s is used by a function that is not documented to reorder: elements or members no "
                      "longer come out in the order they were given" % nm[:100], where)
    return r


# functions that map an expression over the elements / members of a collection: an element whose result is nothing is
# left out of the result (the per-element evaluation may be skipped); everywhere else an absent argument makes the
# whole call nothing
ELEMENTWISE = {
    "functions::list::functional::map": "map: elements whose result is nothing are left out",
    "functions::list::functional::flat_map": "flat_map: the same, flattened",
    "functions::object::functional::map_keys": "map_keys: members whose new key is nothing are left out",
    "functions::object::functional::map_values": "map_values: members whose new value is nothing are left out",
}
NARROW_TABLE = {
    "read_string": "json_parser read_string: a hex digit value 0..15 (i32 from char arithmetic) widened into the "
                   "code unit accumulator",
}
_W = {"u8": 8, "i8": 8, "u16": 16, "i16": 16, "u32": 32, "i32": 32, "u64": 64, "i64": 64, "usize": 64, "isize": 64,
      "u128": 128, "i128": 128}


def absent_not_skipped(rep, lib):
    r = rep.rule("C04-ABSENT-SKIP", "an argument that evaluates to nothing is never silently skipped: the adapters "
                 "that drop None (filter_map, flat_map, flatten) are applied to evaluated arguments only by the "
                 "element-wise mapping functions documented to leave such elements out", floor=4,
                 analysis="A7 census of Iterator::filter_map / flat_map / flatten in every body under functions::")
    for name, b in sorted(lib.bodies.items()):
        head = name.split(" as ")[0].lstrip("<")
        if not head.startswith("functions::"):
            continue
        for c in b.calls:
            cal = c.callee or ""
            if not cal.endswith(("Iterator::filter_map", "Iterator::flat_map", "Iterator::flatten")):
                continue
            key = "%s#%s@bb%d" % (head[len("functions::"):][:60], cal.rsplit("::", 1)[-1], c.bb)
            mod = [m for m in ELEMENTWISE if head.startswith(m + "::")]
            # does the adapter see evaluated arguments? (its closure, or the iterator it is applied to, evaluates a
            # getter): decided on the closure body when there is one
            evaluates = True
            clos = [a for a in c.args[1:] if "{closure" in (a.get("ty") or "")]
            if clos:
                cn = re.search(r"\{closure@[^}]*\}|\{closure#\d+\}", clos[0].get("ty") or "")
                cands = [bd for n2, bd in lib.bodies.items() if n2.startswith(name + "::{closure")]
                if cands:
                    evaluates = any((x.callee or "").endswith(("Get::get", "Arguments::apply")) or
                                    (x.name or "").endswith("Arguments>::apply") for bd in cands for x in bd.calls)
            if mod:
                r.ok(key, "tabled: " + ELEMENTWISE[mod[0]], c.where(), nontrivial=False)
            elif not evaluates:
                r.ok(key, "the adapter does not see evaluated arguments", c.where(), nontrivial=False)
            else:
                r.bad(key, "%s drops the arguments that evaluate to nothing instead of making the call nothing: "
                      "(f a b) with an absent b answers as if b had not been written" % cal, c.where())
    return r


def narrowing_casts(rep, lib):
    r = rep.rule("C04-NARROW-CAST", "no integer is narrowed or re-signed by an `as` cast outside the tabled site: an "
                 "index, size or count taken from an expression would wrap (#4294967296 would mean #0)", floor=1,
                 analysis="A7 census of IntToInt casts whose target is narrower than, or of another signedness than, "
                          "their source, in every body of the crate but the derived command-line code")
    for name, b in sorted(lib.bodies.items()):
        if "clap::" in name or name.split(" as ")[0].lstrip("<").startswith(("build_docs::", "selection_help::")):
            continue
        k = 0
        for bb, idx, place, rv, _ in b.assignments():
            if rv["k"] == "cast" and rv.get("cast") == "IntToInt":
                src = (rv["op"].get("place") or {}).get("ty") or rv["op"].get("ty")
                dst = rv.get("ty")
                if src in _W and dst in _W and (_W[dst] < _W[src] or (src[0] != dst[0] and _W[dst] <= _W[src])):
                    key = "%s#%s->%s[%d]" % (name[-60:], src, dst, k)
                    k += 1
                    tab = [why for fn, why in NARROW_TABLE.items() if name.endswith("::" + fn)]
                    if tab and (src, dst) == ("i32", "u32"):
                        r.ok(key, "tabled: " + tab[0], b.where(bb), nontrivial=False)
                    elif rv["op"].get("k") == "const":
                        r.ok(key, "a constant", b.where(bb), nontrivial=False)
                    else:
                        r.bad(key, "%s is cast to %s: values that do not fit wrap silently" % (src, dst), b.where(bb))
    return r


def run(ctx, rep):
    lib = ctx.lib
    # (1) order
    order_census(rep, lib)
    common.hash_order(rep, lib)
    # ... including the order of ties in the sorting functions (shared with C07)
    from rules import c07 as _c07
    common.share(_c07, ctx, rep, {"C07-STABLE", "C07-ONE-ORDER"})
    # (2) no failure on ill-typed / absent arguments and at the boundaries of N: the functions:: part of the census
    from rules import c05 as _c05
    common.share(_c05, ctx, rep, {"C05-PANIC-CENSUS"}, key_prefixes=["<functions::", "functions::"],
                 floors={"C05-PANIC-CENSUS": 20})
    absent_not_skipped(rep, lib)
    narrowing_casts(rep, lib)
    zero_takes_nothing(rep, lib)
    # names and keys written in an expression are UTF-8 text (shared with C15)
    from rules import printer_rules as _PR
    _PR.byte_text(rep, lib)
    # (3) whole doubles are integers, and only finite doubles become numbers
    NR.float_ctor(rep, lib)
    NR.float_window(rep, lib)
    NR.finite(rep, ctx)
    # (4) declared arity = needed arity; every documented spelling is its own function
    from rules import c18 as _c18
    _c18.arity_use(rep, ctx)
    from rules import c13 as _c13
    common.share(_c13, ctx, rep, {"C13-ALIAS-TABLE", "C13-ALIAS-BLIND"})
    # set / define / | are functions of the library too: (set n v body) rebinds n for the body whatever was bound
    # before - the derived context adds the new entry unconditionally and it shadows an older one - and (| a b) hands
    # every stage's value on as the next input (shared with C12; seed C04-r10-2: or_insert instead of insert)
    from rules import c12 as _c12
    common.share(_c12, ctx, rep, {"C12-FRAME", "C12-EXTEND"}, key_prefixes=["with_variable", "with_definition"],
                 floors={"C12-FRAME": 0, "C12-EXTEND": 0})
    common.share(_c12, ctx, rep, {"C12-SHADOW", "C12-BODY-IN-NEW", "C12-PIPE"})


# ------------------------------------------------------------------ C04-ZERO-TAKES-NOTHING

def zero_takes_nothing(rep, lib):
    """'honour N = 0': (take xs 0) and (take_last xs 0) keep no element. Decided by partial evaluation of the
    function's get() with N seeded to 0 and a non-empty array / object as the collection: no element may be added to
    the result on any path (a loop that adds first and compares the length with N afterwards keeps one element - and,
    with `==`, all of them)."""
    from lib.peval import PE, ok as OK, some, NONE
    r = rep.rule("C04-ZERO-TAKES-NOTHING", "with N = 0 the keep-N functions add no element to their result: for a "
                 "non-empty array and a non-empty object, no push / insert into the collection being built is "
                 "reachable when the size argument is 0", floor=4,
                 analysis="A5 partial evaluation of Impl::get with the size conversion seeded to Ok(0), the collection "
                          "seeded to a non-empty array / object (its iterator yields one element, then ends), the "
                          "length of the collection being built tracked per path")
    jv = lib.adts.get("json_value::JsonValue")
    if not jv:
        r.missing("json_value::JsonValue")
        return r
    vn = [v["name"] for v in jv["variants"]]
    eq_ok = common.derived_eq_ok(lib)
    for mod in ("functions::basic::collection::take", "functions::basic::collection::take_last"):
        bs = [bd for n, bd in lib.bodies.items() if n.startswith("<" + mod + "::") and n.endswith(" as selection::Get>::get")]
        if len(bs) != 1:
            r.missing(mod + " Impl::get")
            continue
        b = bs[0]
        for kind in ("Array", "Object"):
            key = "%s[%s, N=0]" % (mod.rsplit("::", 1)[-1], kind)
            added = []

            def model(c, av, envv, pe, kind=kind, added=added):
                n = c.name or ""
                cal = c.callee or ""
                if n.endswith("functions_definitions::Arguments>::apply"):
                    k = av[2] if len(av) > 2 else None
                    if k is not None and k[0] == "i" and k[1] == 0:
                        return (True, some(("adt", vn.index(kind), (None,))))
                    return (True, some(None))
                if cal.endswith("TryInto::try_into") or cal.endswith("TryFrom::try_from"):
                    return (True, OK(("i", 0)))
                if cal.endswith("Iterator::next") or cal.endswith("DoubleEndedIterator::next_back"):
                    i = envv.get(-8, ("i", 0))[1]
                    envv[-8] = ("i", i + 1)
                    return (True, some(None) if i == 0 else NONE)
                last = n.rsplit("::", 1)[-1]
                if last in ("push", "insert", "push_back", "push_front", "insert_full") and b.in_loop(c.bb):
                    i = envv.get(-9, ("i", 0))[1]
                    envv[-9] = ("i", i + 1)
                    added.append(c)
                    return (True, None)
                if last == "len" and b.in_loop(c.bb):
                    return (True, envv.get(-9, ("i", 0)))
                if last == "len":
                    return (True, ("i", 1))      # the collection given has the one element its iterator yields
                return None
            try:
                res = PE(b, model, eq_ok=eq_ok, crate=lib, max_states=40000).run()
            except RuntimeError:
                r.bad(key, "state budget exceeded (unrecognised idiom)", b.where())
                continue
            if added:
                r.bad(key, "with N = 0 an element is added to the result (%s) before the length is compared with N: "
                      "(%s xs 0) keeps elements instead of none" % (added[0].name, mod.rsplit("::", 1)[-1]),
                      added[0].where())
            else:
                r.ok(key, "nothing is added when N = 0 (%d return(s) explored)" % len(res.returns), b.where())
    return r

"""Shared discovery of the processing pipeline (used by C03, C08, C09, C11, C14)."""
import os
import re
import tomllib

from lib.prov import Prov
from lib.peval import PE

TABLES = os.path.join(os.path.dirname(os.path.dirname(os.path.abspath(__file__))), "tables")

PROCESS_TRAIT = "processor::Process"
GET_TRAIT = "selection::Get"
BOX_PROCESS = "std::boxed::Box<dyn processor::Process>"
# set by ./check: the thorough tier widens the bounded explorations (container grammar 0..12 elements, row grammar
# 1..12 fields, limiter machine 13 x 14 x 40)
TIER = "quick"

LOOK = ("Try>::branch", "Try::branch", "Clone>::clone", "Deref>::deref", "DerefMut>::deref_mut",
        "AsRef>::as_ref", "Borrow>::borrow", "AsMut>::as_mut", "BorrowMut>::borrow_mut",
        "convert::AsRef::as_ref", "convert::AsMut::as_mut", "borrow::Borrow::borrow", "borrow::BorrowMut::borrow_mut",
        "Result::<T, E>::map_err")        # the Ok payload passes through unchanged


def is_box_process(ty):
    return ty.startswith("std::boxed::Box<") and "dyn processor::Process" in ty and "Result<" not in ty


def is_result_box_process(ty):
    return ty.startswith("std::result::Result<std::boxed::Box<") and "dyn processor::Process" in ty


def table(name):
    with open(os.path.join(TABLES, name), "rb") as f:
        return tomllib.load(f)


class Stage:
    def __init__(self, lib, imp):
        self.lib = lib
        self.struct = imp["self"]
        self.impl = imp
        self.bodies = {}
        for it in imp["items"]:
            m = it.rsplit("::", 1)[-1]
            if it in lib.bodies:
                self.bodies[m] = lib.bodies[it]
        adt = lib.adts.get(self.struct)
        self.next_field = None
        self.fields = []
        if adt and adt["variants"]:
            self.fields = adt["variants"][0]["fields"]
            for i, f in enumerate(self.fields):
                if is_box_process(f["ty"]):
                    self.next_field = i
        self.short = self.struct.rsplit("::", 1)[-1]

    def is_sink(self):
        return self.next_field is None

    def next_calls(self, method_body, trait_method=None):
        """Calls of Process::<trait_method> (any if None) whose receiver is self.next."""
        out = []
        if self.next_field is None:
            return out
        prov = Prov(method_body, LOOK)
        for c in method_body.calls:
            if c.trait != PROCESS_TRAIT:
                continue
            if trait_method and c.method() != trait_method:
                continue
            if not c.args:
                continue
            for a in prov.origins(c.args[0]):
                if a[0] == "arg" and a[1] == 1 and a[2] and a[2][0] == "f%d" % self.next_field:
                    out.append(c)
                    break
        return out

    def is_buffering(self):
        b = self.bodies.get("complete")
        return bool(b and self.next_calls(b, "process"))

    def complete_is_trivial(self):
        """No call and no write through self in `complete`."""
        b = self.bodies.get("complete")
        if b is None:
            return True
        if b.calls:
            return False
        for bb, idx, place, rv, _ in b.assignments():
            if place["l"] == 1 and place["p"]:
                return False
        return True


def stages(lib):
    out = []
    for imp in lib.impls_of(PROCESS_TRAIT):
        out.append(Stage(lib, imp))
    return out


def go_body(lib):
    for n, b in lib.bodies.items():
        if n.endswith("::go") and n.startswith("Master"):
            return b
    return None


def read_input_body(lib):
    for n, b in lib.bodies.items():
        if n.endswith("::read_input") and n.startswith("Master"):
            return b
    return None


def constructor_sites(lib):
    """Stage-constructor call sites in Master::go: calls whose result type is
    Box<dyn Process> or Result<Box<dyn Process>, _>. Returns [(Call, class_name, class_index)]
    using sa/tables/pipeline_order.toml; unknown constructors get index None."""
    go = go_body(lib)
    tab = table("pipeline_order.toml")
    order = tab["construction_order"]
    cls_of = {}
    for i, cls in enumerate(order):
        for fn in tab["classes"][cls]["constructors"]:
            cls_of[fn] = (cls, i)
    sites = []
    if go is None:
        return go, sites, tab
    for c in go.calls:
        ty = c.dest.get("ty", "")
        if is_box_process(ty) or is_result_box_process(ty):
            if (c.callee or "").startswith("std::") or "std::ops::" in (c.callee or ""):
                continue
            cls = cls_of.get(c.name) or cls_of.get(c.callee)
            sites.append((c, cls[0] if cls else None, cls[1] if cls else None))
    return go, sites, tab


def stage_classes(lib):
    """Map stage struct -> pipeline class (from the table's `stages` lists)."""
    tab = table("pipeline_order.toml")
    out = {}
    for cls, d in tab["classes"].items():
        for s in d.get("stages", []):
            out[s] = cls
    return out, tab


def derived_eq_ok(lib):
    """Predicate for PE: structural modelling of PartialEq::eq is valid for this call."""
    def ok(c):
        r = c.resolved or ""
        info = lib.fninfo.get(r)
        if info is None:
            return True   # foreign impl (primitives, Option, ...)
        return bool(info.get("derived"))
    return ok


def share(module, ctx, rep, rule_ids, key_prefixes=None, floors=None, key_suffixes=None):
    """Evaluate another property's module and adopt only the named rules (optionally only the instances whose key
    starts with one of `key_prefixes`) into `rep`. Used where one structural rule is a necessary condition of several
    properties; the rule keeps its home id."""
    from lib.report import Report
    tmp = Report(rep.prop, rep.tier, rep.seed)
    module.run(ctx, tmp)
    for r in tmp.rules:
        if r.id not in rule_ids:
            continue
        if key_prefixes is not None:
            r.instances = [i for i in r.instances if i["key"].startswith(tuple(key_prefixes))
                           or i["key"].startswith("anchor-missing")]
            r.floor = (floors or {}).get(r.id, 1)
        if key_suffixes is not None:
            r.instances = [i for i in r.instances if i["key"].endswith(tuple(key_suffixes))
                           or i["key"].startswith("anchor-missing")]
            r.floor = (floors or {}).get(r.id, 1)
        rep.rules.append(r)


def get_impls_in(lib, module):
    """Bodies of `<... as selection::Get>::get` for the implementing types defined in `module` (e.g.
    "functions::boolean::compare::eq"), whatever the type is called and wherever in the module it is declared
    (inside the factory closure or at module level)."""
    pre = "<" + module + "::"
    return [b for n, b in lib.bodies.items() if n.startswith(pre) and n.endswith(" as selection::Get>::get")]


def ret_locals(body):
    """The return place and the locals whose whole value is moved into it (the result of an inlined local function)."""
    ret = {0}
    grew = True
    while grew:
        grew = False
        for bb, idx, place, rv, _ in body.assignments():
            if place["l"] in ret and not place["p"] and rv["k"] == "use" and rv["op"].get("k") == "move" \
                    and not rv["op"]["place"]["p"] and rv["op"]["place"]["l"] not in ret \
                    and not (1 <= rv["op"]["place"]["l"] <= body.arg_count):
                ret.add(rv["op"]["place"]["l"])
                grew = True
    return ret


CAPACITY_SINKS = ("::with_capacity", "::reserve", "::reserve_exact", "::shrink_to", "::try_reserve")
PURE_SIZE_CALLS = ("::len", "::capacity", "::min", "::max", "::count", "Ord::min", "Ord::max")


def hint_fields(lib, struct_path):
    """Fields of `struct_path` that are nothing but capacity hints: {field index: (bounded, switch blocks per body)}.

    A field qualifies when, in every body of the crate, (1) each read of it goes only into a capacity argument
    (with_capacity / reserve ...), or into a comparison whose outcome decides nothing but whether the field itself is
    updated (the blocks the branch dominates contain only size computations and assignments to that field), and
    (2) each write stores a constant or the result of len / min / max. Such a field cannot influence what is
    written or decided; `bounded` is True when every stored value is a constant or min(.., constant)."""
    from lib.prov import Prov
    adt = lib.adts.get(struct_path)
    if not adt or len(adt["variants"]) != 1:
        return {}
    out = {}
    nfields = len(adt["variants"][0]["fields"])
    for fi in range(nfields):
        fty = adt["variants"][0]["fields"][fi]["ty"]
        if fty not in ("usize", "u64", "u32"):
            continue
        f = "f%d" % fi
        ok = True
        bounded = True
        touched = False
        switches = {}
        for name, b in lib.bodies.items():
            if b.arg_count < 1 or _strip_ty(b.local_ty(1)) != struct_path:
                # the field of this struct reached through another local: only constructors (aggregates) are allowed
                continue
            pr = None

            def is_f(place):
                return place["l"] == 1 and [p for p in place["p"] if p != "deref"] == [f]
            reads = []
            for bb, idx, place, rv, _ in b.assignments():
                if is_f(place):
                    touched = True
                    pr = pr or Prov(b, LOOK)
                    at = [a for a in pr._rv_origins_at(rv, (), bb, idx, set()) if a[0] not in ("via", "op")]
                    for a in at:
                        if a[0] == "const":
                            continue
                        if a[0] == "call" and (b.call_at[a[1]].name or "").endswith(PURE_SIZE_CALLS):
                            c = b.call_at[a[1]]
                            if not ((c.name or "").endswith(("::min", "Ord::min")) and any(
                                    o.get("k") == "const" or all(x[0] == "const" for x in pr.origins(o) if x[0] not in ("via", "op"))
                                    for o in c.args)):
                                bounded = False
                            continue
                        if a[0] == "arg" and a[1] == 1 and [p for p in a[2] if p != "deref"] == [f]:
                            continue
                        ok = False
                for o in _rv_operands(rv):
                    if o.get("k") in ("copy", "move") and is_f(o["place"]):
                        reads.append((bb, idx, place, rv))
                if rv["k"] == "ref" and is_f(rv["place"]):
                    ok = False
            for c in b.calls:
                for a in c.args:
                    if a.get("k") in ("copy", "move") and is_f(a["place"]):
                        touched = True
                        if not (c.name or "").endswith(CAPACITY_SINKS):
                            ok = False
            for bb, idx, place, rv in reads:
                touched = True
                if place["p"]:
                    ok = False
                    continue
                # the temporary the field was copied into: follow its single use
                uses = _uses_of(b, place["l"])
                for kind, where in uses:
                    if kind == "callarg":
                        if not (where.name or "").endswith(CAPACITY_SINKS + PURE_SIZE_CALLS):
                            ok = False
                    elif kind == "cmp":
                        sw = _switch_on(b, where)
                        if sw is None or not _region_only_updates(b, sw, f):
                            ok = False
                        else:
                            switches.setdefault(name, set()).add(sw)
                    elif kind == "self-assign":
                        pass
                    else:
                        ok = False
        if ok and touched:
            out[fi] = (bounded, switches)
    return out


def _strip_ty(ty):
    t = ty.strip()
    while t.startswith("&"):
        t = t[1:].lstrip()
        if t.startswith("mut "):
            t = t[4:].lstrip()
    return t.split("<")[0]


def _rv_operands(rv):
    k = rv["k"]
    if k in ("use", "cast", "repeat"):
        return [rv["op"]]
    if k == "binop":
        return [rv["a"], rv["b"]]
    if k == "unop":
        return [rv["a"]]
    if k == "agg":
        return list(rv["ops"])
    return []


def _uses_of(b, l):
    """[(kind, payload)] uses of temporary l: 'callarg' (Call), 'cmp' (dest local of a comparison), 'self-assign',
    'other'."""
    out = []
    for bb, idx, place, rv, _ in b.assignments():
        ops = _rv_operands(rv)
        if any(o.get("k") in ("copy", "move") and o["place"]["l"] == l and not o["place"]["p"] for o in ops):
            if rv["k"] == "binop" and rv["op"] in ("Lt", "Le", "Gt", "Ge", "Eq", "Ne") and not place["p"]:
                out.append(("cmp", place["l"]))
            elif rv["k"] == "use" and not place["p"]:
                out.extend(_uses_of(b, place["l"]))
            else:
                out.append(("other", (bb, idx)))
        if rv["k"] in ("ref", "discr") and rv["place"]["l"] == l:
            out.append(("other", (bb, idx)))
    for c in b.calls:
        if any(a.get("k") in ("copy", "move") and a["place"]["l"] == l for a in c.args):
            out.append(("callarg", c))
    for i in range(b.n):
        t = b.term(i)
        if t["k"] == "switch" and t["discr"].get("k") in ("copy", "move") and t["discr"]["place"]["l"] == l:
            out.append(("other", (i, "switch")))
    return out


def _switch_on(b, l):
    for i in range(b.n):
        t = b.term(i)
        if t["k"] == "switch" and t["discr"].get("k") in ("copy", "move") and t["discr"]["place"]["l"] == l \
                and not t["discr"]["place"]["p"]:
            return i
    return None


def _region_only_updates(b, sw, f):
    """Every block that one arm of switch `sw` dominates holds nothing but size computations and assignments to the
    field `f` of self (and temporaries)."""
    for tg in b.succ(sw):
        if len([p for p in b.pred(tg)]) > 1:
            continue          # the join: not part of an arm
        region = [x for x in range(b.n) if not b.blocks[x]["cleanup"] and b.dominates(tg, x)
                  and len(b.pred(x)) >= 0]
        # stop at the first block with several predecessors (the join)
        arm = []
        work = [tg]
        seen = set()
        while work:
            x = work.pop()
            if x in seen or (x != tg and len(b.pred(x)) > 1):
                continue
            seen.add(x)
            arm.append(x)
            work.extend(y for y in b.succ(x) if not b.blocks[y]["cleanup"])
        for x in arm:
            t = b.term(x)
            if t["k"] == "return":
                return False
            if t["k"] == "call":
                c = b.call_at.get(x)
                if c is None or not (c.name or "").endswith(PURE_SIZE_CALLS):
                    return False
            for st in b.stmts(x):
                if st["k"] == "assign" and st["place"]["p"]:
                    if not (st["place"]["l"] == 1 and [p for p in st["place"]["p"] if p != "deref"] == [f]):
                        return False
    return True


def clone_faithful(rep, lib, rid="C12-CLONE-FAITHFUL"):
    """Every Clone impl of the crate's own data types copies each field / variant payload into the same position."""
    from lib.peval import PE
    r = rep.rule(rid, "every `impl Clone` of the crate's data types (derived or hand-written) returns, for each variant, "
                 "the same variant with every field a clone of the same field - a copy of a value, of a context or of "
                 "the options is the value itself (rows are cloned when they are stored, grouped, merged, selected; "
                 "options when the printer is built)", floor=10,
                 analysis="A5 partial evaluation of each clone body with every field seeded to a distinct token and "
                          "Clone::clone of a token answering that token")
    for imp in lib.impls:
        if (imp.get("trait") or "") != "std::clone::Clone":
            continue
        ty = imp.get("self") or ""
        adt = lib.adts.get(ty.split("<")[0])
        bodies = [lib.bodies.get(x) for x in imp.get("items", []) if x.endswith("::clone")]
        if not adt or not bodies or bodies[0] is None:
            continue
        b = bodies[0]
        key = "Clone for %s" % ty.rsplit("::", 1)[-1]
        problems = clone_problems(lib, imp, adt, b)
        where = "%s:%d" % (imp["loc"]["file"], imp["loc"]["line"])
        if problems:
            r.bad(key, problems[0] + ("" if imp.get("derived") else " (hand-written impl)"), where)
        else:
            r.ok(key, "%s, %d variant(s): field-wise" % ("derived" if imp.get("derived") else "hand-written",
                                                         len(adt["variants"])), where,
                 nontrivial=not imp.get("derived"))
    return r


def clone_body_ok(lib, body_name):
    """body_name is the clone() of a Clone impl of a crate type that copies field-wise (see clone_problems)."""
    for imp in lib.impls:
        if (imp.get("trait") or "") == "std::clone::Clone" and body_name in imp.get("items", []):
            adt = lib.adts.get((imp.get("self") or "").split("<")[0])
            b = lib.bodies.get(body_name)
            return bool(adt and b is not None and not clone_problems(lib, imp, adt, b))
    return False


def clone_problems(lib, imp, adt, b):
    from lib.peval import PE
    ty = imp.get("self") or ""
    if True:
        problems = []
        for vi, v in enumerate(adt["variants"]):
            toks = tuple(("tok", "field", vi, fi) for fi in range(len(v["fields"])))
            selfv = ("adt", vi, toks)

            def model(c, av, envv, pe):
                cal = c.callee or ""
                if cal in ("std::clone::Clone::clone", "std::borrow::ToOwned::to_owned") and av:
                    x = pe._deref_all(envv, av[0])
                    if x is not None:
                        return (True, x)
                return None
            try:
                res = PE(b, model, eq_ok=derived_eq_ok(lib), crate=lib).run(env={1: ("rv", selfv)})
            except RuntimeError:
                problems.append("variant %s: not evaluated" % v["name"])
                continue
            vals = {x for _, x in res.returns}
            if vals != {selfv}:
                got = sorted(str(x)[:120] for x in vals)
                problems.append("a clone of %s%s is %s, not the same %s with each field cloned" % (
                    ty.rsplit("::", 1)[-1], ("::" + v["name"]) if len(adt["variants"]) > 1 else "", got[:2],
                    "variant" if len(adt["variants"]) > 1 else "struct"))
        return problems


def eq_structural(lib, ty):
    """None if the PartialEq impl of `ty` (derived or hand-written) is the structural one - different variants are
    unequal, equal variants are equal exactly when every pair of corresponding fields is (each compared with ==,
    same position) - otherwise a description of what differs."""
    from lib.peval import PE
    imps = [i for i in lib.impls if i.get("trait") == "std::cmp::PartialEq" and i["self"] == ty]
    adt = lib.adts.get(ty)
    if len(imps) != 1 or not adt:
        return "no single PartialEq impl"
    if imps[0].get("derived"):
        return None
    bodies = [lib.bodies.get(x) for x in imps[0].get("items", []) if x.endswith("::eq")]
    if not bodies or bodies[0] is None:
        return "eq body not found"
    b = bodies[0]
    nv = len(adt["variants"])
    for vi in range(nv):
        for vj in range(nv):
            fi = adt["variants"][vi]["fields"]
            fj = adt["variants"][vj]["fields"]
            a = ("adt", vi, tuple(("tok", "a", k) for k in range(len(fi))))
            c = ("adt", vj, tuple(("tok", "b", k) for k in range(len(fj))))
            for answer in (True, False):
                pairs = []

                def model(cc, av, envv, pe, answer=answer):
                    cal = cc.callee or ""
                    if cal in ("std::cmp::PartialEq::eq", "std::cmp::PartialEq::ne") and len(av) >= 2:
                        x, y = pe._deref_all(envv, av[0]), pe._deref_all(envv, av[1])
                        if x is not None and y is not None and x[0] == "tok" and y[0] == "tok":
                            pairs.append((x, y))
                            return (True, ("b", answer if cal.endswith("eq") else not answer))
                    return None
                try:
                    res = PE(b, model, crate=lib).run(env={1: ("rv", a), 2: ("rv", c)})
                except RuntimeError:
                    return "not evaluated"
                vals = {v for _, v in res.returns}
                vn = (adt["variants"][vi]["name"], adt["variants"][vj]["name"])
                if vi != vj:
                    if vals != {("b", False)}:
                        return "%s == %s can be %s" % (vn[0], vn[1], sorted(map(str, vals)))
                    continue
                if any(x[2] != y[2] or x[1] == y[1] for x, y in pairs):
                    return "%s: fields of different positions are compared" % vn[0]
                want = True if (answer or not fi) else False
                if vals != {("b", want)}:
                    return "%s == %s with every field %s is %s" % (vn[0], vn[1], "equal" if answer else "unequal",
                                                                 sorted(map(str, vals)))
                if fi and answer and len({x[2] for x, y in pairs}) != len(fi):
                    return "%s: not every field is compared" % vn[0]
    return None


# ---------------------------------------------------------------------------------------------------------------
# A constructor that builds its result in steps - `let mut d = self.fork(); d.variables = v; d` or
# `self.with_variables(map)` - is brought to the shape the frame rules read (one aggregate assigned to the return
# place) by the two textbook transformations: sibling constructors are inlined, and the struct local that becomes
# the result is replaced by one local per field (scalar replacement of aggregates). Nothing is evaluated.

def _walk_places(x, fn):
    """Apply fn to every place dict ({"l":.., "p":..}) inside x, in place."""
    if isinstance(x, dict):
        if "l" in x and "p" in x and isinstance(x["p"], list):
            fn(x)
            return
        for v in x.values():
            _walk_places(v, fn)
    elif isinstance(x, list):
        for v in x:
            _walk_places(v, fn)


def needs_sroa(b, adt_path, siblings=()):
    ret = ret_locals(b)
    for bb, idx, place, rv, _ in b.assignments():
        if place["l"] in ret and place["p"] and place["p"][0].startswith("f"):
            return True
        if rv["k"] == "ref" and rv["place"]["l"] in ret and rv["place"]["p"] and rv["place"]["p"][0].startswith("f"):
            return True
    for c in b.calls:
        if c.name in siblings and c.name != b.name and c.dest["l"] in ret and not c.dest["p"]:
            return True
    return False


def sroa_ctor(lib, b, adt_path, siblings=()):
    """Body -> equivalent Body in which the value returned is one aggregate of `adt_path` assigned to the return
    place at the end, its operands being per-field locals. Returns b itself when the transformation does not apply."""
    import copy
    from lib import inline as _inl
    from lib.facts import Body
    adt = lib.adts.get(adt_path)
    if adt is None or len(adt["variants"]) != 1:
        return b
    raw = copy.deepcopy(b.raw)
    for _round in range(2):
        nb0 = Body(b.name, raw, b.info)
        nb0.crate = lib
        ret0 = ret_locals(nb0)
        did = False
        for i in range(len(raw["blocks"])):
            blk = raw["blocks"][i]
            t = blk["term"]
            if t["k"] == "call" and not blk["cleanup"]:
                nm = t.get("resolved") or t.get("callee")
                if nm in siblings and nm != b.name and t.get("dest") and t["dest"]["l"] in ret0 and not t["dest"]["p"]:
                    cal = lib.bodies.get(nm) or lib.raw_bodies.get(nm)
                    if cal is not None and cal.raw["arg_count"] == len(t["args"]):
                        _inl._inline_one(raw, i, copy.deepcopy(cal.raw), nm)
                        did = True
        if not did:
            break
    nb = Body(b.name, raw, b.info)
    nb.crate = lib
    ret = ret_locals(nb)
    aggs = [(bb, idx) for bb, idx, place, rv, _ in nb.assignments()
            if rv["k"] == "agg" and rv.get("adt") == adt_path and place["l"] in ret and not place["p"]]
    if len(aggs) != 1:
        return nb
    fields = adt["variants"][0]["fields"]
    base = len(raw["locals"])
    for f in fields:
        raw["locals"].append({"ty": f["ty"], "name": None, "mut": True, "sroa_field": f["name"]})
    whole_bad = []

    def is_field(p):
        return bool(p) and p[0].startswith("f") and p[0][1:].isdigit() and int(p[0][1:]) < len(fields)

    # rewrite the statements
    for bi, blk in enumerate(raw["blocks"]):
        out = []
        for s in blk["stmts"]:
            if s.get("k") == "assign":
                place, rv = s["place"], s["rv"]
                if place["l"] in ret and not place["p"]:
                    if rv["k"] == "agg" and rv.get("adt") == adt_path:
                        for fi, o in enumerate(rv["ops"]):
                            out.append({"k": "assign", "place": {"l": base + fi, "p": [], "ty": fields[fi]["ty"]},
                                        "rv": {"k": "use", "op": o}, "loc": s["loc"], "sroa": True})
                        continue
                    if rv["k"] == "use" and rv["op"].get("k") in ("move", "copy") and rv["op"]["place"]["l"] in ret \
                            and not rv["op"]["place"]["p"]:
                        continue        # whole move inside the chain of result locals
                    whole_bad.append(s)
            out.append(s)
        blk["stmts"] = out

    def remap(pl):
        if pl["l"] in ret:
            if is_field(pl["p"]):
                fi = int(pl["p"][0][1:])
                pl["l"] = base + fi
                pl["p"] = pl["p"][1:]
            elif not pl["p"]:
                whole_bad.append(pl)
    loc0 = raw["blocks"][0]["term"]["loc"]
    for blk in raw["blocks"]:
        for s in blk["stmts"]:
            if s.get("sroa"):
                _walk_places(s["rv"], remap)
            else:
                _walk_places(s, remap)
        t = blk["term"]
        if t["k"] == "drop" and t["place"]["l"] in ret and not t["place"]["p"]:
            continue
        if t["k"] == "return" and not blk["cleanup"]:
            blk["stmts"].append({"k": "assign", "place": {"l": 0, "p": [], "ty": adt_path},
                                 "rv": {"k": "agg", "agg": "adt", "adt": adt_path, "variant": 0,
                                        "variant_name": adt["variants"][0]["name"],
                                        "fields": [f["name"] for f in fields],
                                        "ops": [{"k": "move", "place": {"l": base + fi, "p": [], "ty": f["ty"]}}
                                                for fi, f in enumerate(fields)]},
                                 "loc": t.get("loc", loc0), "sroa_result": True})
            continue
        _walk_places(t, remap)
    if whole_bad:
        return nb       # the struct is also used as a whole: leave it to the rule to report what it cannot read
    out = Body(b.name, raw, b.info)
    out.crate = lib
    return out


# ---------------------------------------------------------------------------------------------------------------
# Iteration order of std's HashMap / HashSet is randomised per map (RandomState): whatever is produced in that order
# differs from one evaluation to the next - from one record to the next.

_HASH_ITER = re.compile(r"std::collections::hash_(map|set)::(Iter|IterMut|IntoIter|Keys|Values|ValuesMut|IntoKeys|"
                        r"IntoValues|Drain|ExtractIf)<")
_UNORDERED_SINK = re.compile(r"std::collections::(HashMap|HashSet|BTreeMap|BTreeSet)(::)?<|std::collections::hash_(map|set)::")
_ADD = ("insert", "push", "push_back", "push_front", "extend", "insert_full", "entry", "push_str", "write_fmt",
        "write_str")
_ORDER_FREE_CONSUMERS = ("Iterator::count", "Iterator::all", "Iterator::any", "Iterator::min", "Iterator::max",
                         "Iterator::len", "ExactSizeIterator::len")


def hash_order(rep, lib, rid="C11-HASH-ORDER"):
    r = rep.rule(rid, "nothing is produced in the iteration order of a std HashMap / HashSet (randomised per map): "
                 "such an iteration may only fill another hash or ordered map / set, count, or test", floor=2,
                 analysis="A7 census of every Iterator call whose receiver is a hash_map / hash_set iterator + the "
                          "collections the loop it drives adds to")
    n = 0
    for name, b in sorted(lib.bodies.items()):
        if name.startswith(("<Cli as clap", "<output_style::")) and "clap::" in name:
            continue
        if name.split(" as ")[0].lstrip("<").startswith(("build_docs::", "selection_help::")):
            continue        # the documentation generator (feature create-docs) is not part of a run over data
        for c in b.calls:
            full = c.t.get("callee_full") or c.full or ""
            if not _HASH_ITER.search(full):
                continue
            cal = c.callee or ""
            if not (cal.startswith("std::iter::") or "Iterator" in cal):
                continue
            n += 1
            key = "%s#%s@bb%d" % (name.replace("processor::Context::", "Context::")[-60:], cal.rsplit("::", 1)[-1], c.bb)
            if cal.endswith("Iterator::next"):
                loops = [blocks for h, blocks in b.loops().items() if c.bb in blocks]
                if not loops:
                    r.bad(key, "one element is taken from a hash iteration outside a loop: which one is random", c.where())
                    continue
                blocks = min(loops, key=len)
                adds = [x for x in b.calls if x.bb in blocks and (x.name or "").rsplit("::", 1)[-1] in _ADD]
                bad = [x for x in adds if not _UNORDERED_SINK.search((x.full or "") + " " + (x.name or ""))
                       or "IndexMap" in (x.full or "")]
                if bad:
                    r.bad(key, "the loop over a HashMap / HashSet adds to %s: the result is in the map's random "
                          "iteration order, which differs from record to record" % (bad[0].full or bad[0].name)[:100],
                          c.where())
                elif not adds:
                    r.bad(key, "the loop over a HashMap / HashSet fills no hash / ordered collection (unrecognised "
                          "idiom): what it produces may depend on the random iteration order", c.where())
                else:
                    r.ok(key, "fills %s" % ((adds[0].full or adds[0].name or "")[:70]), c.where())
            elif cal.endswith(_ORDER_FREE_CONSUMERS):
                r.ok(key, "order-free consumer", c.where(), nontrivial=False)
            elif cal.endswith(("Iterator::collect", "FromIterator::from_iter", "Extend::extend")):
                tgt = " ".join(c.gargs or []) + " " + (c.dest.get("ty") or "")
                # the target collection is the last generic argument of collect
                g = (c.gargs or [""])[-1]
                if cal.endswith("Extend::extend"):
                    g = (c.gargs or [""])[0]        # the collection that is extended is Self
                g = g.replace("&mut ", "").replace("&", "").strip()
                if re.match(r"std::collections::(HashMap|HashSet|BTreeMap|BTreeSet)<", g):
                    r.ok(key, "collected into %s" % g[:60], c.where())
                else:
                    r.bad(key, "a HashMap / HashSet iteration is collected into %s: the elements arrive in the map's "
                          "random order, which differs from record to record" % (g or tgt)[:100], c.where())
            else:
                # adapters (map, filter, cloned ...) are judged where the adapted iterator is consumed: its type
                # still names the hash iterator, so that call is an instance of its own
                if cal.rsplit("::", 1)[-1] in ("map", "filter", "cloned", "copied", "filter_map", "by_ref", "into_iter",
                                               "enumerate", "peekable", "inspect", "chain", "zip", "rev", "skip", "take",
                                               "flat_map", "flatten"):
                    r.ok(key, "adapter (judged at its consumer)", c.where(), nontrivial=False)
                else:
                    r.bad(key, "%s consumes a HashMap / HashSet iteration in its random order (unrecognised idiom)"
                          % cal, c.where())
    if n == 0:
        r.floor = 0
        r.ok("census", "no iteration over a std hash collection", "", nontrivial=False)
    return r

"""C11 — stateless pipelines are record-local."""
import re

from lib.prov import Prov
from rules import common
from rules import c13_shared
from rules.common import LOOK

INFO = {
    "decided": "An effect census: the only state that survives from one record to the next in a pipeline of "
               "--set/--split-by/--filter/--select is the regex cache, which is keyed by the pattern text. "
               "Concretely: every interior-mutable field (Cell, RefCell, Mutex, atomics, Once*, Lazy*, caches) and "
               "every static of the crate is in a frozen table with a reason; the four stateless stages never write "
               "through self (no assignment to, and no &mut borrow of, any field but `next`); no Get impl has an "
               "interior-mutable field; each record gets a Context freshly built from that record's parsed value; "
               "the Get impls that can reach the clock, the environment, the file system or other processes are "
               "exactly now, env, exec and trigger. No stage but the limiter answers Break on its own (every process body evaluated with the successor answering Continue), and the tokenizer tables (dispatch, blanks, number grammar, escapes) accept every valid value wholly, so the reader is in phase for the value that follows. No parse error depends on the reader's own state; files are read in argument order. Nothing is produced in the iteration order of a std HashMap / HashSet (randomised per map): such an iteration only fills another hash / ordered collection, counts or tests.",
    "not_decided": "The equation out(A.B) = out(A).out(B) itself (a statement about two runs).",
    "trusted": ["sa/tables/state.toml", "Rust: without interior mutability or statics a &self method cannot keep state"],
}

IM = re.compile(r"\b(Cell|RefCell|Mutex|RwLock|Atomic\w*|OnceCell|OnceLock|LazyLock|LazyCell|UnsafeCell|SizedCache|"
                r"UnboundCache|TimedCache|TimedSizedCache|Condvar|mpsc|thread_local)\b|\*mut ")
STATELESS = ["pre_sets::PreSetProcessor", "splitter::SplitterProcess", "filter::ActiveFilter",
             "selection::SelectionProcess",
             # the sinks are part of every pipeline: they may write to the output, not remember rows
             "output_style::JsonProcess", "output_style::TextProcess"]


def run(ctx, rep):
    lib = ctx.lib
    common.hash_order(rep, lib)
    tab = common.table("state.toml")
    r = rep.rule("C11-STATE-CENSUS", "interior-mutable fields and statics of the crate are exactly the tabled ones",
                 floor=7, analysis="A7 census over all ADT fields and statics")
    allowed_fields = {(e["adt"], e["field"]): e["reason"] for e in tab["fields"]}
    for a in lib.raw["adts"]:
        for v in a["variants"]:
            for f in v["fields"]:
                if IM.search(f["ty"]):
                    key = "%s.%s" % (a["path"], f["name"])
                    if (a["path"], f["name"]) in allowed_fields:
                        r.ok(key, allowed_fields[(a["path"], f["name"])], "%s:%d" % (a["loc"]["file"], a["loc"]["line"]),
                             nontrivial=False)
                    else:
                        r.bad(key, "field of interior-mutable type %s is not in the state table: a value computed for "
                              "one record can leak into the next" % f["ty"][:100],
                              "%s:%d" % (a["loc"]["file"], a["loc"]["line"]))
    for s in lib.statics:
        key = "static " + s["path"]
        entry = None
        for e in tab["statics"]:
            if e.get("path") == s["path"] or (e.get("suffix") and s["path"].endswith(e["suffix"])
                                              and s["ty"].startswith("std::sync::OnceLock<std::string::String>")):
                entry = e
        where = "%s:%d" % (s["loc"]["file"], s["loc"]["line"])
        if s["mut"]:
            r.bad(key, "static mut", where)
        elif entry:
            r.ok(key, entry["reason"], where, nontrivial=False)
        else:
            r.bad(key, "static of type %s is not in the state table (global state survives between records)"
                  % s["ty"][:100], where)
    # ------------------------------------------------------------ STAGE-PURE
    r = rep.rule("C11-STAGE-PURE", "process() of the stateless stages does not write through self: no assignment "
                 "to, and no &mut borrow of, a place rooted at self other than the field `next`", floor=4,
                 analysis="A4 over MIR places of the process bodies (and of the local functions they call with &mut self)")
    sts = {s.struct: s for s in common.stages(lib)}
    for sname in STATELESS:
        st = sts.get(sname)
        if st is None or "process" not in st.bodies:
            r.missing(sname + "::process")
            continue
        b = st.bodies["process"]
        nf = "f%d" % st.next_field if st.next_field is not None else None
        bad = _writes_through_self(lib, st, b, nf, 0)
        if bad:
            r.bad(st.short + "::process", "%s: the stage keeps state between records" % bad[0], bad[1])
        else:
            r.ok(st.short + "::process", "writes nothing through self except calling self.next", b.where())
    get_pure(rep, lib)
    from rules import pipeline_rules as _P
    _P.break_origin(rep, lib)
    # out(A.B) = out(A).out(B) needs the reader to take exactly the bytes of every valid value: a valid value it
    # rejects half-way leaves it out of phase for the values that follow (the tokenizer tables, shared with C01)
    from rules import parser_rules as _PRS
    _PRS.dispatch(rep, lib)
    _PRS.ws(rep, lib)
    _PRS.number(rep, lib)
    _PRS.escapes(rep, lib)
    _PRS.ws_struct(rep, lib)
    _PRS.input_decides(rep, lib)
    _PRS.reader_state(rep, lib)   # out(A.B) = out(A).out(B): the reader keeps nothing of A's content
    # concatenation of inputs given as files: the files are read in the order of the arguments, a directory in place
    # (shared with C17)
    from rules import c17 as _c17
    _c17.files(rep, lib, ctx.cg)
    # ------------------------------------------------------------ FRESH-CONTEXT
    r = rep.rule("C11-FRESH-CONTEXT", "every record is processed in a Context built by Context::new_with_input in "
                 "the same loop iteration from that iteration's parsed value", floor=1, analysis="A2 + A4 in read_input")
    ri = common.read_input_body(lib)
    if ri is None:
        r.missing("Master::read_input")
    else:
        pr = Prov(ri, LOOK)
        ps = [c for c in ri.calls if c.trait == common.PROCESS_TRAIT and c.method() == "process"]
        for n, c in enumerate(ps):
            srcs = [ri.call_at[a[1]] for a in pr.call_arg_origins(c, 1) if a[0] == "call"]
            key = "read_input#process[%d]" % n
            if len(srcs) != 1 or srcs[0].name != "processor::Context::new_with_input":
                r.bad(key, "the context handed to the pipeline is not a fresh Context::new_with_input(..): %s"
                      % [s.name for s in srcs], c.where())
                continue
            nwi = srcs[0]
            vsrc = [ri.call_at[a[1]] for a in pr.call_arg_origins(nwi, 0) if a[0] == "call"]
            same_loop = any(nwi.bb in blocks and c.bb in blocks for blocks in ri.loops().values())
            if len(vsrc) == 1 and (vsrc[0].callee or "").endswith("next_json_value") and same_loop:
                r.ok(key, "Context::new_with_input(value of this iteration's next_json_value)", c.where())
            else:
                r.bad(key, "the input of the fresh context is not this iteration's parsed value", nwi.where())
    # ------------------------------------------------------------ IMPURE-CENSUS
    r = rep.rule("C11-IMPURE-CENSUS", "the functions that can reach the clock, the environment, the file system or "
                 "other processes are exactly now, env, exec, trigger", floor=4, analysis="A1 foreign-callee census over functions::*")
    pref = tuple(tab["impure_prefixes"])
    okf = tuple(tab["impure_functions"])
    seen = {}
    for name, b in sorted(lib.bodies.items()):
        if "functions::" not in name.split(" as ")[0]:
            continue
        for c in b.calls:
            n = c.name or ""
            if n.startswith(pref):
                fn = name.lstrip("<")
                seen.setdefault(fn.split("::get")[0], []).append((n, c))
    for fn, hits in seen.items():
        if any(fn.startswith(o.rstrip(":")) for o in okf):
            r.ok(fn, "documented impure function (%d call(s))" % len(hits), hits[0][1].where(), nontrivial=False)
        else:
            r.bad(fn, "function reaches %s: its value depends on more than its input" % hits[0][0], hits[0][1].where())
    c13_shared.cache_key(rep, lib)


def get_pure(rep, lib):
    """Shared with C12 / C13: a getter whose struct can keep state makes an expression's value depend on history."""
    r = rep.rule("C11-GET-PURE", "no implementor of Get has a field of interior-mutable type", floor=100,
                 analysis="A7 census over the Self types of all Get impls")
    for imp in lib.impls_of(common.GET_TRAIT):
        adt = lib.adts.get(imp["self"])
        key = imp["self"]
        if adt is None:
            r.ok(key, "not a local ADT", "", nontrivial=False)
            continue
        bad = [f for v in adt["variants"] for f in v["fields"] if IM.search(f["ty"])]
        if bad:
            r.bad(key, "Get impl with interior-mutable field %s: %s" % (bad[0]["name"], bad[0]["ty"][:80]),
                  "%s:%d" % (adt["loc"]["file"], adt["loc"]["line"]))
        else:
            r.ok(key, "%d field(s), none interior-mutable" % sum(len(v["fields"]) for v in adt["variants"]), "",
                 nontrivial=False)
    return r


def _writes_through_self(lib, st, b, nf, depth):
    """(description, where) of a write through self in body b (self = local 1), following local callees that are
    handed the whole `&mut self`; None if there is none."""
    # locals that alias the whole stage: self, `&mut *self` reborrows and their copies (an inlined `&mut self`
    # helper works on such an alias)
    alias = {1}
    whole = set()
    grew = True
    while grew:
        grew = False
        for bb, idx, place, rv, stmt in b.assignments():
            if place["p"]:
                continue
            if rv["k"] == "ref" and rv["place"]["l"] in alias and rv["place"]["p"] == ["deref"]:
                if rv["mutbl"] and place["l"] not in whole:
                    whole.add(place["l"])
                if place["l"] not in alias:
                    alias.add(place["l"])
                    grew = True
            if rv["k"] == "use" and rv["op"].get("k") in ("move", "copy") and not rv["op"]["place"]["p"] \
                    and rv["op"]["place"]["l"] in alias and rv["op"]["place"]["l"] != 1 and place["l"] not in alias:
                alias.add(place["l"])
                if rv["op"]["place"]["l"] in whole:
                    whole.add(place["l"])
                grew = True
    hints = {"f%d" % k for k in common.hint_fields(lib, st.struct)}
    for bb, idx, place, rv, stmt in b.assignments():
        if place["l"] in alias and place["p"] and place["p"][0] == "deref":
            fld = [p for p in place["p"][1:] if p.startswith("f")]
            if fld and fld[0] in hints:
                continue      # a capacity hint: read only to size a buffer, decides and writes nothing
            if not fld or fld[0] != nf:
                return ("assignment to self.%s" % _fname(st, fld[0] if fld else "?"), b.where(bb))
        if rv["k"] == "ref" and rv["mutbl"] and rv["place"]["l"] in alias and rv["place"]["p"][:1] == ["deref"]:
            fld = [p for p in rv["place"]["p"][1:] if p.startswith("f")]
            if fld and fld[0] != nf:
                return ("&mut borrow of self.%s" % _fname(st, fld[0]), b.where(bb))
    if whole:
        for c in b.calls:
            if not any(a.get("k") in ("copy", "move") and a["place"]["l"] in whole for a in c.args):
                continue
            cb = lib.bodies.get(c.name or "")
            if cb is None or depth > 3 or not c.args or c.args[0].get("place", {}).get("l") not in whole:
                return ("&mut reborrow of the whole stage handed to %s" % (c.name or "an unknown callee"), c.where())
            sub = _writes_through_self(lib, st, cb, nf, depth + 1)
            if sub:
                return sub
    return None


def _fname(st, f):
    try:
        return st.fields[int(f[1:])]["name"]
    except Exception:
        return f

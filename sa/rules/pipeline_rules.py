"""Rules about the stage pipeline shared by C03, C07, C08, C09 (rule ids keep their home prefix)."""
import re
from lib.peval import PE, some, NONE
from lib.prov import Prov
from rules import common
from rules.common import LOOK, PROCESS_TRAIT


# ------------------------------------------------------------------ helpers

def err_blocks(body):
    """Blocks that make the return place an error: `_0 = Err(..)` aggregates and `?` residual calls."""
    out = set()
    # the return place, and the locals whose whole value is moved into it (the result of an inlined local function)
    ret = {0}
    grew = True
    while grew:
        grew = False
        for bb, idx, place, rv, _ in body.assignments():
            if place["l"] in ret and not place["p"] and rv["k"] == "use" and rv["op"].get("k") == "move" \
                    and not rv["op"]["place"]["p"] and rv["op"]["place"]["l"] not in ret \
                    and not (1 <= rv["op"]["place"]["l"] <= body.arg_count):
                ret.add(rv["op"]["place"]["l"])
                grew = True
    for bb, idx, place, rv, _ in body.assignments():
        if place["l"] in ret and not place["p"] and rv["k"] == "agg" and rv.get("variant_name") == "Err" \
                and rv.get("adt") == "std::result::Result":
            out.add(bb)
    for c in body.calls:
        if c.dest["l"] in ret and not c.dest["p"] and (c.callee or "").endswith("FromResidual::from_residual"):
            out.add(c.bb)
    return out


def non_error_escape(body, targets, start=0):
    """Return blocks reachable from `start` without passing a target block or an error block."""
    tg = set(targets) | err_blocks(body)
    return body.must_pass(tg, body.returns(), start=start)


def witness(body, start, goal, avoid):
    p = body.path(start, goal, avoid=set(avoid) - {start, goal})
    if not p:
        return ""
    return "entry %s -> return: blocks %s (lines %s)" % (
        body.name, p, [body.term(b)["loc"]["line"] for b in p])


# ------------------------------------------------------------------ C03-ORDER

def order(rep, lib):
    r = rep.rule("C03-ORDER", "Master::go constructs the stages in the documented order: no CFG path leads from a "
                 "constructor of a later class to one of an earlier class; every constructor is a known class; each "
                 "stage's `next` is the value built so far; start/complete are called on the final value",
                 floor=10, analysis="A2 reachability + A4 provenance over Master::go; oracle sa/tables/pipeline_order.toml")
    go, sites, tab = common.constructor_sites(lib)
    if go is None:
        r.missing("Master::go")
        return None
    order_ = tab["construction_order"]
    prov = Prov(go, LOOK)
    site_bbs = {c.bb for c, _, _ in sites}
    seen_classes = set()
    for c, cls, idx in sites:
        key = "go#%s" % (c.name,)
        if cls is None:
            r.bad(key, "a call in Master::go returns a pipeline stage but is not a constructor listed in "
                  "sa/tables/pipeline_order.toml: a new stage must be placed in the documented order", c.where())
            continue
        seen_classes.add(cls)
        # ordering against every other site
        bad = None
        reach = go.reachable(c.bb)
        for c2, cls2, idx2 in sites:
            if idx2 is None or c2.bb == c.bb:
                continue
            if idx > idx2 and c2.bb in reach:
                bad = (c2, cls2)
                break
        if bad:
            r.bad(key, "stage class '%s' is constructed before '%s' on some path, but the documented data flow "
                  "puts '%s' in front of '%s' (construction is back to front)" % (cls, bad[1], cls, bad[1]),
                  c.where(), witness="path %s" % go.path(c.bb, bad[0].bb))
            continue
        # next argument provenance
        if cls != "sink":
            nxt = [a for a in c.args if a["k"] in ("copy", "move") and common.is_box_process(a["place"]["ty"])]
            if not nxt:
                r.bad(key, "constructor takes no Box<dyn Process> successor", c.where())
                continue
            ni = [i for i, a in enumerate(c.args) if a is nxt[0]][0]
            srcs = [a for a in prov.call_arg_origins(c, ni) if a[0] == "call"]
            foreign = [go.call_at[a[1]] for a in srcs if a[1] not in site_bbs]
            if foreign or not srcs:
                r.bad(key, "the successor handed to this stage does not (only) come from the stages built so far: %s"
                      % [f.name for f in foreign], c.where())
                continue
            later = [go.call_at[a[1]] for a in srcs
                     if [i for cc, _, i in sites if cc.bb == a[1]][0] is not None
                     and [i for cc, _, i in sites if cc.bb == a[1]][0] > idx]
            if later:
                r.bad(key, "successor may be a stage of a later class: %s" % [l.name for l in later], c.where())
                continue
        r.ok(key, "class %s (#%d)" % (cls, idx), c.where())
    for cls in order_:
        if cls not in seen_classes:
            r.bad("class:" + cls, "no constructor of stage class '%s' is called in Master::go" % cls, go.where())
    # start / complete on the final value
    for m in ("start", "complete"):
        cs = [c for c in go.calls if c.trait == PROCESS_TRAIT and c.method() == m]
        if not cs:
            r.bad("go#Process::" + m, "Master::go never calls Process::%s" % m, go.where())
            continue
        for c in cs:
            srcs = {a[1] for a in prov.call_arg_origins(c, 0) if a[0] == "call"}
            classes = {cl for cc, cl, _ in sites if cc.bb in srcs}
            if "set" not in classes or not srcs <= site_bbs:
                r.bad("go#Process::" + m, "Process::%s is not called on the fully built pipeline (receiver classes %s)"
                      % (m, sorted(x for x in classes if x)), c.where())
            else:
                r.ok("go#Process::" + m, "receiver derives from the last constructor (set) and earlier ones", c.where())
    return go, sites


# ------------------------------------------------------------------ C03-ITERDIR

def iterdir(rep, lib):
    r = rep.rule("C03-ITERDIR", "repeated --select are wrapped in reverse order (first given runs first), repeated "
                 "--sort-by in forward order (first given is applied last, i.e. most significant)", floor=2,
                 analysis="resolved Iterator::next instance of the loop around the constructor site")
    go, sites, tab = common.constructor_sites(lib)
    if go is None:
        r.missing("Master::go")
        return
    want = {"select": True, "sort": False}
    loops = go.loops()
    for c, cls, idx in sites:
        if cls not in want:
            continue
        hdrs = [h for h, blocks in loops.items() if c.bb in blocks]
        key = "go#%s" % c.name
        if not hdrs:
            # not in a loop: only one instance possible; direction is moot
            r.ok(key, "not inside a loop (single instance)", c.where(), nontrivial=False)
            continue
        # innermost loop
        h = min(hdrs, key=lambda x: len(loops[x]))
        nexts = [cc for cc in go.calls if cc.bb in loops[h] and (cc.callee or "").endswith("Iterator::next")]
        if not nexts:
            r.bad(key, "loop around the constructor is not driven by an Iterator::next call (unrecognised idiom)",
                  c.where())
            continue
        rev = any("std::iter::Rev<" in (cc.full or "") for cc in nexts)
        if rev != want[cls]:
            r.bad(key, "the %s loop iterates %s; the documented order needs %s" % (
                cls, "in reverse" if rev else "forward", "reverse" if want[cls] else "forward"), c.where())
        else:
            r.ok(key, "driven by %s" % nexts[0].full, c.where())


# ------------------------------------------------------------------ C03-START / C03-COMPLETE

def start_forward(rep, lib, only=None, rid="C03-START"):
    r = rep.rule(rid, "in every stage that owns a successor, every non-error return of start() has passed a call "
                 "of Process::start on self.next", floor=9 if only is None else len(only),
                 analysis="A2 must-pass-through + A4 receiver provenance")
    for st in common.stages(lib):
        if st.is_sink() or (only and st.struct not in only):
            continue
        b = st.bodies.get("start")
        key = st.short + "::start"
        if b is None:
            r.missing(key)
            continue
        sites = st.next_calls(b, "start")
        esc = non_error_escape(b, [c.bb for c in sites])
        if esc:
            r.bad(key, "a non-error return of start() is reachable without calling self.next.start(..): the stages "
                  "behind it never see the titles / never start", b.where(),
                  witness=witness(b, 0, esc[0], [c.bb for c in sites]))
        else:
            r.ok(key, "%d forwarding call(s)" % len(sites), b.where())
    return r


def complete_forward(rep, lib, only=None, rid="C03-COMPLETE"):
    r = rep.rule(rid, "if some stage behind S has a non-trivial complete(), every non-error return of S::complete "
                 "has passed a call of Process::complete on self.next",
                 floor=7 if only is None else len(only), analysis="A2 must-pass-through; downstream set from "
                 "sa/tables/pipeline_order.toml + computed triviality of complete()")
    stage_cls, tab = common.stage_classes(lib)
    order_ = tab["construction_order"]
    sts = common.stages(lib)
    nontrivial_cls = set()
    for st in sts:
        cls = stage_cls.get(st.struct)
        if cls and not st.complete_is_trivial():
            nontrivial_cls.add(cls)
    for st in sts:
        if st.is_sink() or (only and st.struct not in only):
            continue
        cls = stage_cls.get(st.struct)
        key = st.short + "::complete"
        b = st.bodies.get("complete")
        if b is None:
            r.missing(key)
            continue
        if cls is None:
            downstream_nontrivial = True   # unknown stage: assume something behind it needs complete
        else:
            i = order_.index(cls)
            # same class counts (repeated --select / --sort-by are chained)
            downstream_nontrivial = any(order_.index(c) <= i for c in nontrivial_cls
                                        if not (c == cls and cls in ("collect", "limit", "unique", "filter", "split", "set")))
        sites = st.next_calls(b, "complete")
        if not downstream_nontrivial:
            r.ok(key, "no stage behind class '%s' has a non-trivial complete(); forwarding not required" % cls,
                 b.where(), nontrivial=False)
            continue
        esc = non_error_escape(b, [c.bb for c in sites])
        if esc:
            r.bad(key, "a non-error return of complete() is reachable without calling self.next.complete(): "
                  "buffering stages behind it (sort/group/merge) never emit", b.where(),
                  witness=witness(b, 0, esc[0], [c.bb for c in sites]))
        else:
            r.ok(key, "%d forwarding call(s), all non-error returns pass one" % len(sites), b.where())
    return r


def complete_once(rep, lib):
    r = rep.rule("C03-COMPLETE-ONCE", "end-of-input is signalled once: Process::complete on a successor is called "
                 "only from a complete() body (never from start/process) and not inside a loop; Master::go calls it "
                 "once, outside any loop", floor=8, analysis="who-may-call census + natural loops")
    for st in common.stages(lib):
        for m, b in st.bodies.items():
            for c in b.calls:
                if c.trait == PROCESS_TRAIT and c.method() == "complete":
                    key = "%s::%s#complete" % (st.short, m)
                    if m != "complete":
                        r.bad(key, "%s() calls Process::complete: a buffering stage behind it would emit early and "
                              "again at end of input" % m, c.where())
                    elif b.in_loop(c.bb):
                        r.bad(key, "Process::complete called inside a loop", c.where())
                    else:
                        r.ok(key, "", c.where())
    go = common.go_body(lib)
    if go:
        cs = [c for c in go.calls if c.trait == PROCESS_TRAIT and c.method() == "complete"]
        for c in cs:
            if go.in_loop(c.bb):
                r.bad("go#complete", "Process::complete called inside a loop in Master::go", c.where())
            else:
                r.ok("go#complete", "", c.where())
    # nobody else
    for name, b in lib.bodies.items():
        if name.startswith("Master") or any(name == bb.name for st in common.stages(lib) for bb in st.bodies.values()):
            continue
        for c in b.calls:
            if c.trait == PROCESS_TRAIT and c.method() == "complete":
                r.bad(name + "#complete", "Process::complete called outside the stage protocol", c.where())
    return r


def go_protocol(rep, lib):
    r = rep.rule("C03-GO-PROTOCOL", "in Master::go, once the pipeline is started every non-error return has passed "
                 "Process::complete, and Process::start dominates every read of input", floor=2,
                 analysis="A2 dominance / must-pass-through")
    go = common.go_body(lib)
    if go is None:
        r.missing("Master::go")
        return
    starts = [c for c in go.calls if c.trait == PROCESS_TRAIT and c.method() == "start"]
    completes = [c for c in go.calls if c.trait == PROCESS_TRAIT and c.method() == "complete"]
    reads = [c for c in go.calls if (c.name or "").endswith("::read_input") or (c.name or "").endswith("::read_file")]
    if len(starts) != 1:
        r.bad("go#start", "expected exactly one Process::start call, found %d" % len(starts), go.where())
        return
    s = starts[0]
    if s.target is None:
        r.bad("go#start", "start never returns", s.where())
        return
    esc = non_error_escape(go, [c.bb for c in completes], start=s.target)
    if esc:
        r.bad("go#complete-on-all-paths", "after start() a non-error return is reachable without Process::complete: "
              "buffering stages (sort/group/merge) lose their output", go.where(),
              witness=witness(go, s.target, esc[0], [c.bb for c in completes]))
    else:
        r.ok("go#complete-on-all-paths", "%d complete call(s)" % len(completes), go.where())
    if not reads:
        r.missing("read_input/read_file call in Master::go")
    bad = [c for c in reads if not go.dominates(s.bb, c.bb)]
    if bad:
        r.bad("go#start-before-read", "input is read on a path that has not started the pipeline", bad[0].where())
    else:
        r.ok("go#start-before-read", "%d read call(s) dominated by start" % len(reads), s.where())
    return r


# ------------------------------------------------------------------ sorter internals (C07 / C08)

def _sort_stage(lib):
    for st in common.stages(lib):
        if st.struct == "sorters::SortProcess":
            return st
    return None


def _deque_calls(body, names):
    out = []
    for c in body.calls:
        n = c.name or ""
        if "VecDeque" in n and n.rsplit("::", 1)[-1] in names:
            out.append(c)
    return out


def _direction_env(st, variant):
    """PE environment with self.direction = variant (self = _1 -> synthetic local -1)."""
    fields = [None] * len(st.fields)
    di = [i for i, f in enumerate(st.fields) if f["ty"].endswith("Direction")]
    if not di:
        return None
    fields[di[0]] = ("adt", variant, ())
    return {1: ("ref", -1, ()), -1: ("adt", 0, tuple(fields))}


def fifo(rep, lib):
    r = rep.rule("C07-FIFO", "the bucket sorter is FIFO within a key: rows are inserted at one end of the VecDeque "
                 "and emitted from the opposite end, in both directions", floor=2,
                 analysis="resolved VecDeque callees in SortProcess::process / complete")
    st = _sort_stage(lib)
    if st is None:
        r.missing("sorters::SortProcess")
        return None
    pb, cb = st.bodies.get("process"), st.bodies.get("complete")
    ins = _deque_calls(pb, ("push_front", "push_back")) if pb else []
    kinds = {c.name.rsplit("::", 1)[-1] for c in ins}
    if len(kinds) != 1:
        r.bad("SortProcess::process#insert", "expected exactly one kind of VecDeque insertion, found %s" % sorted(kinds),
              pb.where() if pb else "")
        return None
    ins_kind = kinds.pop()
    r.ok("SortProcess::process#insert", ins_kind, ins[0].where(), nontrivial=False)
    want_pop = "pop_back" if ins_kind == "push_front" else "pop_front"
    pops = _deque_calls(cb, ("pop_front", "pop_back")) if cb else []
    if not pops:
        r.bad("SortProcess::complete#drain", "no VecDeque pop in complete() (unrecognised idiom)", cb.where() if cb else "")
    for i, c in enumerate(pops):
        k = c.name.rsplit("::", 1)[-1]
        if k != want_pop:
            r.bad("SortProcess::complete#drain[%d]" % i, "rows inserted with %s are emitted with %s: ties leave in "
                  "reverse arrival order (unstable)" % (ins_kind, k), c.where())
        else:
            r.ok("SortProcess::complete#drain[%d]" % i, "%s / %s" % (ins_kind, k), c.where())
    return ins_kind


def evict(rep, lib, rid="C07-EVICT"):
    r = rep.rule(rid, "when the top-N shortcut is full the sorter drops the newest row of the worst key: "
                 "ascending = last key, descending = first key, removed from the insertion end; complete() iterates "
                 "forward for ascending and reversed for descending", floor=4,
                 analysis="A5 partial evaluation with self.direction seeded to each variant")
    st = _sort_stage(lib)
    if st is None:
        r.missing("sorters::SortProcess")
        return
    pb, cb = st.bodies.get("process"), st.bodies.get("complete")
    ins = _deque_calls(pb, ("push_front", "push_back")) if pb else []
    kinds = {c.name.rsplit("::", 1)[-1] for c in ins}
    if len(kinds) != 1:
        r.bad("SortProcess#insert", "cannot determine the insertion end", pb.where() if pb else "")
        return
    ins_kind = kinds.pop()
    newest_pop = "pop_front" if ins_kind == "push_front" else "pop_back"
    dadt = lib.adts.get("sorters::Direction")
    if not dadt:
        r.missing("sorters::Direction")
        return
    vnames = [v["name"] for v in dadt["variants"]]
    rm = lib.body("sorters::SortProcess::remove_last_item")
    if rm is None:
        # eviction may be inlined elsewhere: look for the body that calls last_entry/first_entry
        for n, b in lib.bodies.items():
            if n.startswith("sorters::") or "SortProcess" in n:
                if any((c.name or "").endswith("::last_entry") or (c.name or "").endswith("::first_entry") for c in b.calls):
                    rm = b
        if rm is None:
            r.missing("eviction routine (BTreeMap::last_entry/first_entry) of SortProcess")
            return
    for vi, vn in enumerate(vnames):
        env = _direction_env(st, vi)
        if env is None:
            r.missing("SortProcess.direction field")
            return
        res = PE(rm).run(env=env)
        names = [c.name for _, c, _ in res.calls]
        entry = {n.rsplit("::", 1)[-1] for n in names if n and "BTreeMap" in n and n.rsplit("::", 1)[-1] in ("last_entry", "first_entry")}
        pops = {n.rsplit("::", 1)[-1] for n in names if n and "VecDeque" in n and n.rsplit("::", 1)[-1] in ("pop_front", "pop_back")}
        want_entry = "last_entry" if vn == "Asc" else "first_entry"
        key = "remove_last_item[%s]" % vn
        if entry != {want_entry}:
            r.bad(key, "for %s the worst key is taken with %s, expected %s" % (vn, sorted(entry), want_entry), rm.where())
        elif pops != {newest_pop}:
            r.bad(key, "rows are inserted with %s, so the newest row of a key is removed with %s; the eviction uses "
                  "%s and drops an earlier arrival (ties are no longer stable under --take)"
                  % (ins_kind, newest_pop, sorted(pops)), rm.where())
        else:
            r.ok(key, "%s + %s" % (want_entry, newest_pop), rm.where())
        # emission direction
        if cb is not None:
            res = PE(cb).run(env=env)
            nxt = [c for _, c, _ in res.calls if (c.callee or "").endswith("Iterator::next")
                   or (c.callee or "").endswith("DoubleEndedIterator::next_back")]
            rev = any("std::iter::Rev<" in (c.full or "") or (c.callee or "").endswith("next_back") for c in nxt)
            # the loop was written over an iterator *parameter* (a helper inlined here): the type of the iterator is
            # opaque at the `next` call, the direction is what the path did to the iterator before handing it over
            opaque = [c for c in nxt if re.search(r"<(impl [^>]*Iterator|[A-Z]\w{0,2}) as std::iter::Iterator>::next",
                                                  (c.t.get("callee_full") or c.full or ""))
                      or (c.full or "").startswith("<impl ")]
            if opaque and not rev:
                nrev = [c for _, c, _ in res.calls if (c.callee or "").endswith("Iterator::rev")]
                rev = len(nrev) % 2 == 1
            # a boxed iterator: look at what was boxed on the path explored for this direction
            boxed = [c for c in nxt if "dyn std::iter::Iterator" in (c.full or "")]
            if boxed:
                srcs = []
                for (bbv, idxv), vals in res.assigns.items():
                    rvv = cb.stmts(bbv)[idxv]["rv"]
                    if rvv["k"] == "cast" and "Unsize" in rvv.get("cast", ""):
                        srcs.append(((rvv["op"].get("place") or {}).get("ty") or ""))
                srcs = [x for x in srcs if x.startswith("std::boxed::Box<") and not x.startswith("std::boxed::Box<dyn ")]
                if srcs:
                    revs = ["std::iter::Rev<" in x for x in srcs]
                    rev = revs[0] if len(set(revs)) == 1 else None
            key = "complete[%s]" % vn
            if not nxt:
                r.bad(key, "no iteration over the buckets reachable for direction %s" % vn, cb.where())
            elif rev is None:
                r.bad(key, "the direction of the bucket iteration for %s is not determined by self.direction "
                      "(unrecognised idiom)" % vn, cb.where())
            elif rev != (vn == "Desc"):
                r.bad(key, "direction %s emits the buckets %s" % (vn, "reversed" if rev else "forward"), cb.where())
            else:
                r.ok(key, "buckets iterated %s" % ("reversed" if rev else "forward"), cb.where())


def topn_adjacent(rep, lib, rid="C07-TOPN-ADJACENT"):
    r = rep.rule(rid, "only the sorter that feeds the limiter may be given a capacity: for every loop index other "
                 "than 0 the capacity argument of Sorter::create_processor is None", floor=1,
                 analysis="A5 partial evaluation of the sorter loop with the Enumerate index seeded")
    go, sites, tab = common.constructor_sites(lib)
    if go is None:
        r.missing("Master::go")
        return
    ssites = [c for c, cls, _ in sites if cls == "sort"]
    if not ssites:
        r.missing("Sorter::create_processor call in Master::go")
        return
    loops = go.loops()
    for n, c in enumerate(ssites):
        key = "go#Sorter::create_processor[%d]" % n
        caps = [i for i, a in enumerate(c.args) if a["k"] in ("copy", "move")
                and a["place"]["ty"].startswith("std::option::Option<usize>")]
        if not caps:
            r.bad(key, "no Option<usize> capacity argument found (unrecognised signature)", c.where())
            continue
        ci = caps[0]
        hdrs = [h for h, blocks in loops.items() if c.bb in blocks]
        if not hdrs:
            # single sorter outside a loop: its successor must come straight from the limiter
            prov = Prov(go, LOOK)
            nxt = [a for a in c.args if a["k"] in ("copy", "move") and common.is_box_process(a["place"]["ty"])]
            srcs = {go.call_at[a[1]].name for a in prov.origins(nxt[0]) if a[0] == "call"} if nxt else set()
            lim = set(tab["classes"]["limit"]["constructors"])
            if srcs and srcs <= lim:
                r.ok(key, "outside a loop; successor comes from the limiter", c.where())
            else:
                r.bad(key, "sorter outside a loop with a capacity but its successor is %s" % sorted(srcs), c.where())
            continue
        h = min(hdrs, key=lambda x: len(loops[x]))
        enum_next = [cc for cc in go.calls if cc.bb in loops[h] and (cc.callee or "").endswith("Iterator::next")
                     and "std::iter::Enumerate<" in (cc.full or "")]
        if not enum_next:
            # no index to distinguish the first sorter: capacity must be None always
            res = PE(go).run(start=h)
            vals = {av[ci] for bb, cc, av in res.calls if cc.bb == c.bb}
            if vals == {NONE}:
                r.ok(key, "capacity is always None", c.where())
            else:
                r.bad(key, "every --sort-by stage in the loop is given a capacity (values %s): a secondary sort "
                      "truncates on the minor key before the major key is applied"
                      % sorted("not provably None" if v is None else str(v) for v in vals), c.where())
            continue
        en = enum_next[0]
        bad = None
        for i in (1, 2, 3, 1 << 20):
            def model(cc, av, env, pe, i=i):
                if cc.bb == en.bb:
                    return (True, some(("adt", 0, (("i", i), None))))
                return None
            res = PE(go, model).run(start=en.bb)
            vals = {av[ci] for bb, cc, av in res.calls if cc.bb == c.bb}
            if vals != {NONE}:
                bad = (i, vals)
                break
        if bad:
            r.bad(key, "for loop index %d the capacity argument is %s, not None: a sorter that does not feed the "
                  "limiter truncates its input" % (bad[0], sorted(map(str, bad[1]))), c.where())
        else:
            r.ok(key, "capacity is None for every index != 0 (representatives 1,2,3,2^20)", c.where())


def capacity(rep, lib):
    r = rep.rule("C08-CAPACITY", "the top-N capacity handed to the sorter depends on both --skip and --take",
                 floor=1, analysis="A4 provenance through Master::go and the closures it builds")
    go, sites, tab = common.constructor_sites(lib)
    if go is None:
        r.missing("Master::go")
        return
    cli = lib.adts.get("Cli")
    master = lib.adts.get("Master")
    if not cli or not master:
        r.missing("Cli / Master ADTs")
        return
    cf = [f["name"] for f in cli["variants"][0]["fields"]]
    mf = [f["name"] for f in master["variants"][0]["fields"]]
    if "skip" not in cf or "take" not in cf or "cli" not in mf:
        r.missing("Cli.skip / Cli.take / Master.cli fields")
        return
    f_skip, f_take, f_cli = "f%d" % cf.index("skip"), "f%d" % cf.index("take"), "f%d" % mf.index("cli")
    prov = Prov(go, LOOK)
    for n, c in enumerate([c for c, cls, _ in sites if cls == "sort"]):
        key = "go#Sorter::create_processor[%d]" % n
        caps = [a for a in c.args if a["k"] in ("copy", "move")
                and a["place"]["ty"].startswith("std::option::Option<usize>")]
        if not caps:
            r.bad(key, "no capacity argument", c.where())
            continue
        fields = set()

        def collect(body, pr, operand, depth=0):
            for a in pr.origins(operand):
                if a[0] == "arg" and a[1] == 1:
                    p = [x for x in a[2] if not x.startswith("dc")]
                    for i in range(len(p) - 1):
                        if p[i] == f_cli:
                            fields.add(p[i + 1])
                if a[0] == "call" and depth < 3:
                    cc = body.call_at[a[1]]
                    for arg in cc.args:
                        collect(body, pr, arg, depth + 1)
                if a[0] == "agg" and depth < 3:
                    rv = body.stmts(a[1])[a[2]]["rv"]
                    if rv.get("agg") == "closure":
                        cb = lib.body(rv["closure"])
                        if cb is not None:
                            cp = Prov(cb, LOOK)
                            # closure reads: every place mentioned anywhere in the closure body
                            for bb, idx, place, rv2, _ in cb.assignments():
                                for o in _ops(rv2):
                                    for a2 in cp.origins(o):
                                        if a2[0] == "arg" and a2[1] == 1:
                                            p = [x for x in a2[2] if not x.startswith("dc")]
                                            for i in range(len(p) - 1):
                                                if p[i] == f_cli:
                                                    fields.add(p[i + 1])
                        for o in rv["ops"]:
                            collect(body, pr, o, depth + 1)
                    else:
                        # Some(x), a tuple ...: what the aggregate is built from
                        for o in rv.get("ops", []):
                            collect(body, pr, o, depth + 1)
        collect(go, prov, caps[0])
        if f_skip in fields and f_take in fields:
            r.ok(key, "capacity derives from cli.skip and cli.take", c.where())
        else:
            r.bad(key, "the capacity derives from cli fields %s; it must depend on both skip (%s) and take (%s), "
                  "otherwise --skip S --take T with --sort-by keeps too few rows"
                  % (sorted(fields), f_skip, f_take), c.where())


def _ops(rv):
    k = rv["k"]
    if k in ("use", "cast", "repeat"):
        return [rv["op"]]
    if k == "binop":
        return [rv["a"], rv["b"]]
    if k == "unop":
        return [rv["a"]]
    if k == "agg":
        return rv["ops"]
    if k in ("ref", "discr"):
        return [{"k": "copy", "place": rv["place"]}]
    return []


# ------------------------------------------------------------------ extracted machines (C08 / C14)

def _stage_named(lib, struct):
    for st in common.stages(lib):
        if st.struct == struct:
            return st
    return None


def limiter_machine(rep, lib, rid="C08-LIMITER-MACHINE"):
    """The limiter as a finite machine, extracted by partial evaluation and explored exhaustively for small S, T."""
    from lib.machine import run_method
    from lib.peval import ok as OK
    deep = getattr(rep, "tier", "quick") == "thorough"
    SMAX = 13 if deep else 7         # quick: skip 0..6 x take none/0..6 (the property's quantifier) over 16 rows;
    NROWS = 40 if deep else 16       # thorough: skip 0..12 x take none/0..12 over 40 rows
    r = rep.rule(rid, "the limiter, as the state machine its process() body implements (state = skipped, passed): for "
                 "every skip S in 0..6 (0..12 in the thorough tier), take T in {none, 0..6 (0..12)} and every stream of up to 16 (40) rows it forwards exactly the "
                 "rows S..S+T-1, answers Break as soon as the T-th row was forwarded (at the first row after the skipped "
                 "ones when T = 0) and not before, answers what its successor answers when there is no take, and starts "
                 "from skipped = passed = 0", floor=56,
                 analysis="A5 partial evaluation of Limiter::process per concrete (S, T, skipped, passed) with the "
                          "successor's answer seeded; the transitions are composed exhaustively over 56 (S,T) pairs (182 in the thorough tier)")
    st = _stage_named(lib, "limits::Limiter")
    dec = lib.adts.get("processor::ProcessDesision")
    if st is None or "process" not in st.bodies or not dec:
        r.missing("limits::Limiter::process")
        return
    b = st.bodies["process"]
    fn = [f["name"] for f in st.fields]
    need = ("skip", "limit", "skipped", "passed")
    if any(x not in fn for x in need):
        r.bad("Limiter/fields", "the limiter's state is not (skip, limit, skipped, passed): %s (unrecognised)" % fn, b.where())
        return
    dn = [v["name"] for v in dec["variants"]]
    CONT, BRK = ("adt", dn.index("Continue"), ()), ("adt", dn.index("Break"), ())
    # initial state from the constructor aggregate
    ctor = lib.bodies.get("limits::Limiter::create_process")
    init_ok = False
    if ctor is not None:
        # evaluated: whatever the parameters are, every Limiter the constructor builds has skipped = passed = 0
        res_ = PE(ctor, None, eq_ok=common.derived_eq_ok(lib), crate=lib).run()
        built = [(rv_, vals_) for bb_, idx_, rv_, vals_ in res_.aggs if rv_.get("adt") == "limits::Limiter"]
        if built:
            init_ok = True
            for rv_, vals_ in built:
                named = dict(zip(rv_["fields"], vals_))
                if named.get("skipped") != ("i", 0) or named.get("passed") != ("i", 0):
                    init_ok = False
    if init_ok:
        r.ok("Limiter/initial-state", "skipped = 0, passed = 0", ctor.where(), nontrivial=False)
    else:
        r.bad("Limiter/initial-state", "a new limiter does not start with skipped = 0 and passed = 0",
              ctor.where() if ctor else "")
    eq_ok = common.derived_eq_ok(lib)

    def step(S, T, skipped, passed, succ):
        selfv = [None] * len(fn)
        selfv[fn.index("skip")] = ("i", S)
        selfv[fn.index("limit")] = ("adt", 1, (("i", T),)) if T is not None else ("adt", 0, ())
        selfv[fn.index("skipped")] = ("i", skipped)
        selfv[fn.index("passed")] = ("i", passed)
        fwd = []

        def model(c, av, envv, pe):
            if c.trait == common.PROCESS_TRAIT and c.method() == "process":
                fwd.append(1)
                return (True, OK(succ))
            return None
        outs = run_method(lib, b, ("adt", 0, tuple(selfv)), model, eq_ok=eq_ok)
        if len(outs) != 1:
            return None
        s, rv = outs[0]
        if s is None or rv is None or rv[0] != "adt" or rv[1] != 0:
            return None
        ns = s[2]
        return (ns[fn.index("skipped")], ns[fn.index("passed")], len(fwd), rv[2][0])
    for S in range(SMAX):
        for T in (None,) + tuple(range(SMAX)):
            key = "limiter[skip=%d,take=%s]" % (S, "none" if T is None else T)
            skipped, passed = 0, 0
            forwarded = []
            problem = None
            broke_at = None
            for i in range(NROWS):
                t = step(S, T, skipped, passed, CONT)
                if t is None or t[0] is None or t[1] is None:
                    problem = "row %d: the transition is not a function of (skip, take, skipped, passed): unrecognised " \
                              "idiom" % i
                    break
                if t[0][0] != "i" or t[1][0] != "i":
                    problem = "row %d: counters not integers" % i
                    break
                skipped, passed = t[0][1], t[1][1]
                if t[2]:
                    forwarded.append(i)
                    if t[2] != 1:
                        problem = "row %d is forwarded %d times" % (i, t[2])
                        break
                if t[3] == BRK:
                    broke_at = i
                    break
                if t[3] != CONT:
                    problem = "row %d: unknown decision" % i
                    break
            if problem is None:
                want = [i for i in range(NROWS) if i >= S and (T is None or i < S + T)]
                if T is not None:
                    want_break = S + max(T, 1) - 1
                    want = [i for i in want if i <= want_break]
                    if broke_at is None and want_break < NROWS:
                        problem = "never answers Break (rows forwarded: %s)" % forwarded
                    elif broke_at is not None and broke_at != want_break:
                        problem = "answers Break at row %d, expected at row %d (rows forwarded: %s)" % (
                            broke_at, want_break, forwarded)
                elif broke_at is not None:
                    problem = "answers Break at row %d although there is no --take" % broke_at
                if problem is None and forwarded != want:
                    problem = "forwards rows %s, expected %s" % (forwarded, want)
            if problem is None and T is None:
                # without a take the successor's Break is passed on
                t = step(S, T, S, 0, BRK)
                if t is None or t[3] != BRK:
                    problem = "does not pass on the successor's Break"
            if problem:
                r.bad(key, problem, b.where())
            else:
                r.ok(key, "forwards rows %s%s" % (forwarded, "" if broke_at is None else ", Break at row %d" % broke_at),
                     b.where())


def sorter_slot(rep, lib, rid="C08-SLOT"):
    """The top-N bookkeeping of SortProcess::process per scenario (key present/absent x space_left)."""
    from lib.machine import run_method
    from lib.peval import ok as OK, some, NONE
    r = rep.rule(rid, "SortProcess::process: a row whose sort key is absent is dropped and changes nothing (no slot "
                 "of the top-N budget is used); a row with a key is stored exactly once; with space left the budget "
                 "goes down by one and nothing is evicted; with no space left exactly one row is evicted after the "
                 "insertion and the budget stays 0; without a budget nothing is evicted; the stage answers Continue",
                 floor=4, analysis="A5 partial evaluation of SortProcess::process (following local &mut self helpers) "
                                   "with the key lookup and self.space_left seeded")
    st = _stage_named(lib, "sorters::SortProcess")
    dec = lib.adts.get("processor::ProcessDesision")
    if st is None or "process" not in st.bodies or not dec:
        r.missing("sorters::SortProcess::process")
        return
    b = st.bodies["process"]
    fn = [f["name"] for f in st.fields]
    if "space_left" not in fn:
        r.bad("SortProcess/fields", "no space_left field (unrecognised)", b.where())
        return
    dn = [v["name"] for v in dec["variants"]]
    CONT = ("adt", dn.index("Continue"), ())
    si = fn.index("space_left")
    scen = [("key absent, space 3", False, 3, dict(push=0, evict=0, space=3)),
            ("key absent, space 0", False, 0, dict(push=0, evict=0, space=0)),
            ("key present, space 3", True, 3, dict(push=1, evict=0, space=2)),
            ("key present, space 1", True, 1, dict(push=1, evict=0, space=0)),
            ("key present, space 0", True, 0, dict(push=1, evict=1, space=0)),
            ("key present, no budget", True, None, dict(push=1, evict=0, space=None)),
            ("key absent, no budget", False, None, dict(push=0, evict=0, space=None))]
    for label, present, space, want in scen:
        selfv = [None] * len(fn)
        selfv[si] = some(("i", space)) if space is not None else NONE
        EVK = -21      # per-path event list, carried in the environment

        def model(c, av, envv, pe, present=present):
            n = c.name or ""
            if c.trait == common.GET_TRAIT:
                return (True, some(("i", 42)) if present else NONE)
            if "VecDeque" in n and n.rsplit("::", 1)[-1] in ("push_front", "push_back"):
                envv[EVK] = envv.get(EVK, ("ev",)) + ("push",)
                return (True, ("adt", 0, ()))
            if n.endswith("SortProcess::remove_last_item"):
                envv[EVK] = envv.get(EVK, ("ev",)) + ("evict",)
                return (True, ("adt", 0, ()))
            return None
        try:
            outs = run_method(lib, b, ("adt", 0, tuple(selfv)), model, eq_ok=common.derived_eq_ok(lib), observe=[EVK])
        except RuntimeError:
            outs = []
        key = "process[%s]" % label
        if not outs or any(o[0] is None for o in outs):
            r.bad(key, "the effect is not determined by (key present, space_left): %d outcomes (unrecognised idiom)"
                  % len(outs), b.where())
            continue
        problems = []
        full = []
        for s_, rv, notes in outs:
            ev = list((notes[0] or ("ev",))[1:])
            sp = s_[2][si]
            got_space = None if sp == NONE else (sp[2][0][1] if sp and sp[0] == "adt" and sp[1] == 1 and sp[2][0] else "?")
            got = dict(push=ev.count("push"), evict=ev.count("evict"), space=got_space)
            order_ok = ev.index("push") < ev.index("evict") if ("push" in ev and "evict" in ev) else True
            # with the budget used up a row may also be turned away at once (never stored, nothing evicted): the same
            # net effect as storing it and evicting it again
            skipped = present and space == 0 and got == dict(push=0, evict=0, space=0)
            if skipped and rv == OK(CONT):
                continue
            if got != want or rv != OK(CONT) or not order_ok:
                problems.append("stored %d time(s), evicted %d, budget afterwards %s, answer %s; expected stored %d, "
                                "evicted %d, budget %s, Continue%s" % (
                                    got["push"], got["evict"], got["space"], "Continue" if rv == OK(CONT) else rv,
                                    want["push"], want["evict"], want["space"],
                                    "" if order_ok else " (eviction must follow the insertion)"))
            else:
                full.append(got)
        if problems:
            r.bad(key, problems[0], b.where())
        elif not full:
            r.bad(key, "no path stores the row: with the budget used up a row that belongs among the kept ones can never "
                  "replace one of them", b.where())
        else:
            r.ok(key, "stored %d, evicted %d, budget %s%s" % (full[0]["push"], full[0]["evict"], full[0]["space"],
                                                              "" if len(outs) == 1 else " (%d paths)" % len(outs)),
                 b.where())


def sink_immediate(rep, lib, rid="C06-SINK-IMMEDIATE"):
    """A sink writes each row to the output while that row is processed (nothing is held back in the stage)."""
    r = rep.rule(rid, "both output stages hand every row to the writer before process() returns: every non-error "
                 "return of JsonProcess::process / TextProcess::process has passed a write on self.writer (directly or "
                 "in print_list), so what reached the output when a run fails is exactly the rows processed so far",
                 floor=2, analysis="A2 must-pass-through (following the local helper print_list) + A4 receiver provenance")
    from rules.printer_rules import is_write_fmt, field_index, _is_self_field
    for struct in ("output_style::JsonProcess", "output_style::TextProcess"):
        st = _stage_named(lib, struct)
        if st is None or "process" not in st.bodies:
            r.missing(struct + "::process")
            continue
        b = st.bodies["process"]
        wi = field_index(lib, struct, "writer")

        def writes(body, depth=0):
            """Blocks of `body` that certainly write to self.writer: a write_fmt whose receiver derives from
            self.writer, or a call of a local method of the same stage that must-passes such a write."""
            pr = Prov(body, LOOK + ("Deref>::deref", "DerefMut>::deref_mut", "RefCell::<T>::borrow_mut"))
            out = set()
            for c in body.calls:
                if is_write_fmt(c) or (c.callee or "").endswith("Write::write_all"):
                    if wi is not None and c.args and _is_self_field(pr.origins(c.args[0]), ("f%d" % wi,)):
                        out.add(c.bb)
                elif depth < 2 and (c.name or "") in lib.bodies and (c.name or "").startswith(struct + "::"):
                    cb = lib.bodies[c.name]
                    if not non_error_escape(cb, writes(cb, depth + 1)):
                        out.add(c.bb)
            return out
        w = writes(b)
        esc = non_error_escape(b, w) if w else [0]
        if esc:
            r.bad(st.short + "::process", "a row can be accepted (non-error return) without having been written to the "
                  "output: rows are held back in the stage and are lost if the run stops early", b.where(esc[0]))
        else:
            r.ok(st.short + "::process", "every non-error return has passed a write on self.writer (%d write site(s))"
                 % len(w), b.where())


def limiter_wiring(rep, lib, rid="C08-LIMITER-WIRING"):
    r = rep.rule(rid, "the limiter is built from the command-line numbers themselves: its skip argument is a plain copy "
                 "of cli.skip and its limit argument a plain copy of cli.take (an Option, so that `--take 0` differs "
                 "from no --take), with no arithmetic, mapping or call in between; the constructor stores them in the "
                 "fields of that meaning and builds a limiter whenever one of them is given", floor=4,
                 analysis="A4 provenance of the two arguments in Master::go + ADT field types + aggregate fields + A5 "
                          "partial evaluation of Limiter::create_process")
    go = common.go_body(lib)
    ca = lib.adts.get("Cli")
    ma = lib.adts.get("Master")
    ctor = lib.bodies.get("limits::Limiter::create_process")
    if go is None or not ca or not ma or ctor is None:
        r.missing("Master::go / Cli / Limiter::create_process")
        return
    cf = [f["name"] for f in ca["variants"][0]["fields"]]
    cty = {f["name"]: f["ty"] for f in ca["variants"][0]["fields"]}
    mf = [f["name"] for f in ma["variants"][0]["fields"]]
    cs = [c for c in go.calls if (c.name or "") == ctor.name]
    if len(cs) != 1:
        r.missing("one Limiter::create_process call in Master::go (found %d)" % len(cs))
        return
    c = cs[0]
    pr = Prov(go, LOOK)
    for ai, fld, want_ty in ((0, "skip", "u64"), (1, "take", "std::option::Option<u64>")):
        at = pr.call_arg_origins(c, ai)
        path = ("f%d" % mf.index("cli"), "f%d" % cf.index(fld)) if fld in cf else None
        core = [a for a in at if a[0] in ("arg", "call", "const", "agg", "local", "op")]
        plain = path is not None and core and all(
            a[0] == "arg" and a[1] == 1 and tuple(p for p in a[2] if not str(p).startswith("dc"))[:2] == path for a in core)
        key = "go#Limiter.%s" % ("skip" if ai == 0 else "limit")
        if cty.get(fld) != want_ty:
            r.bad(key, "Cli.%s has type %s, expected %s (an absent --take must differ from --take 0)"
                  % (fld, cty.get(fld), want_ty), c.where())
        elif plain:
            r.ok(key, "self.cli.%s as is" % fld, c.where())
        else:
            r.bad(key, "the limiter's %s is not self.cli.%s itself (origins: %s): a transformation in between changes "
                  "what --skip/--take mean for some value" % ("skip" if ai == 0 else "limit", fld,
                                                              sorted(map(str, core))[:4]), c.where())
    # constructor: parameters land in the fields of the same meaning
    aggs = [rv for bb, idx, place, rv, _ in ctor.assignments() if rv["k"] == "agg" and rv.get("adt") == "limits::Limiter"]
    cpr = Prov(ctor, LOOK)
    okc = len(aggs) == 1
    renamed = False
    if okc:
        named = dict(zip(aggs[0]["fields"], aggs[0]["ops"]))
        if not all(f in named for f in ("skip", "limit", "next")):
            renamed = True       # other field names: what the limiter does with them is decided by the limiter machine
        else:
            for fld, param in (("skip", 1), ("limit", 2), ("next", 3)):
                at = {a for a in cpr.origins(named[fld]) if a[0] in ("arg", "call", "const", "agg")}
                if at != {("arg", param, ())}:
                    okc = False
    if okc and renamed:
        r.ok("create_process#fields", "the limiter's fields have other names than skip / limit / next: not judged here "
             "(the limiter machine evaluates the behaviour)", ctor.where(), nontrivial=False)
    elif okc:
        r.ok("create_process#fields", "skip, limit and next are the parameters of that name", ctor.where())
    else:
        r.bad("create_process#fields", "the limiter's fields are not initialised from the parameters of the same meaning",
              ctor.where())
    # a limiter is built whenever skip > 0 or a take is given (take = Some(0) included)
    from lib.peval import some, NONE
    bad = []
    for skip in (0, 1):
        for take in (NONE, some(("i", 0)), some(("i", 2))):
            res = PE(ctor, None, eq_ok=common.derived_eq_ok(lib)).run(env={1: ("i", skip), 2: take})
            built = any(rv.get("adt") == "limits::Limiter" for _, _, rv, _ in res.aggs)
            want = skip > 0 or take != NONE
            if built != want or res.forks:
                bad.append((skip, take, built))
    if bad:
        skip, take, built = bad[0]
        r.bad("create_process#when", "with skip=%d and take=%s a limiter is %s" % (
            skip, "none" if take == NONE else take[2][0][1], "built" if built else "not built (the option is ignored)"),
            ctor.where())
    else:
        r.ok("create_process#when", "a limiter is built iff skip > 0 or a take is given (take 0 included)", ctor.where())


def break_origin(rep, lib, rid="C11-BREAK-ORIGIN"):
    """Only the limiter decides that no more input is wanted."""
    r = rep.rule(rid, "no stage but the limiter answers Break on its own: with every successor answering Continue, "
                 "every non-error return of process() of every other stage (sinks included) is Ok(Continue) - a Break "
                 "from anywhere else stops the read loop and silently drops the rest of the input",
                 floor=9, analysis="A5 partial evaluation of each process body with the successor's answer seeded to "
                                   "Ok(Continue)")
    from lib.peval import ok as OK
    adt = lib.adts.get("processor::ProcessDesision")
    if not adt:
        r.missing("processor::ProcessDesision")
        return r
    names = [v["name"] for v in adt["variants"]]
    if "Continue" not in names or "Break" not in names:
        r.missing("ProcessDesision::{Continue,Break}")
        return r
    cont = ("adt", names.index("Continue"), ())
    eq_ok = common.derived_eq_ok(lib)
    stage_cls, tab = common.stage_classes(lib)
    DEC_TY = "std::result::Result<processor::ProcessDesision,"

    def evaluate(pb, depth=0, env=None):
        """Problems of one body returning a decision; local helpers that return a decision are judged the same way
        and then taken to answer Ok(Continue)."""
        problems = []

        def model(c, av, envv, pe):
            if c.trait == PROCESS_TRAIT and c.method() == "process":
                return (True, OK(cont))
            if c.dest.get("ty", "").startswith(DEC_TY) and c.resolved in lib.bodies and depth < 3 \
                    and not (c.callee or "").endswith("from_residual"):
                env2 = {}
                for i, v in enumerate(av):
                    if v is not None and v[0] == "ref":
                        inner = pe._read(envv, v[1], list(v[2]))
                        v = ("rv", inner) if inner is not None else None
                    if v is not None:
                        env2[i + 1] = v
                problems.extend(evaluate(lib.bodies[c.resolved], depth + 1, env2))
                return (True, OK(cont))
            return None
        try:
            res = PE(pb, model, eq_ok=eq_ok, crate=lib).run(env=env)
        except RuntimeError as e:
            return ["not evaluated: %s" % e]
        for bb, v in res.returns:
            if v is None:
                # a propagated error (`?`): _0 is written by FromResidual::from_residual on this path
                srcs = [c for c in pb.calls if c.bb in res.visited and c.dest["l"] == 0 and not c.dest["p"]
                        and not (c.dest.get("ty", "").startswith(DEC_TY) and c.resolved in lib.bodies
                                 and not (c.callee or "").endswith("from_residual"))]
                if srcs and all((c.callee or "").endswith("FromResidual::from_residual") for c in srcs):
                    continue
                problems.append("%s: a return whose value is not determined (unrecognised idiom)" % short(pb.name))
            elif v[0] == "adt" and v[1] == 1:
                continue          # Err(..)
            elif v == OK(cont):
                continue
            else:
                what = "Ok(Break)" if (v[0] == "adt" and v[2] and v[2][0] is not None and v[2][0][:2] ==
                                       ("adt", names.index("Break"))) else "a decision that is not Continue"
                problems.append("%s returns %s although every successor answered Continue" % (short(pb.name), what))
        if not res.returns:
            problems.append("%s: no return reached (unrecognised idiom)" % short(pb.name))
        return problems

    def short(n):
        if " as " in n:
            return n.split(" as ")[0].lstrip("<").rsplit("::", 1)[-1] + "::" + n.rsplit("::", 1)[-1]
        return "::".join(n.rsplit("::", 2)[-2:])

    for st in common.stages(lib):
        if stage_cls.get(st.struct) == "limit":
            continue
        pb = st.bodies.get("process")
        if pb is None:
            r.missing(st.short + "::process")
            continue
        problems = evaluate(pb)
        if problems:
            r.bad(st.short + "::process", problems[0], pb.where())
        else:
            r.ok(st.short + "::process", "every non-error return is Ok(Continue)", pb.where())
    return r


def _mutable_fields(st):
    """Fields of the stage that some method of the stage can change (assignment, `&mut` borrow, interior mutability);
    None = the whole stage is handed on mutably somewhere (every field may change)."""
    out = set()
    for i, f in enumerate(st.fields):
        if any(t in f["ty"] for t in ("Cell<", "Mutex<", "RwLock<", "Atomic")):
            out.add("f%d" % i)
    for b in st.bodies.values():
        alias = {1}
        grew = True
        while grew:
            grew = False
            for bb, idx, place, rv, stmt in b.assignments():
                if place["p"] or place["l"] in alias:
                    continue
                if rv["k"] == "ref" and rv["place"]["l"] in alias and rv["place"]["p"] == ["deref"]:
                    alias.add(place["l"])
                    grew = True
                elif rv["k"] == "use" and rv["op"].get("k") in ("move", "copy") and not rv["op"]["place"]["p"] \
                        and rv["op"]["place"]["l"] in alias:
                    alias.add(place["l"])
                    grew = True
        for bb, idx, place, rv, stmt in b.assignments():
            if place["l"] in alias and place["p"][:1] == ["deref"]:
                fld = [p for p in place["p"][1:] if p.startswith("f") and p[1:].isdigit()]
                if not fld:
                    return None
                out.add(fld[0])
            if rv["k"] == "ref" and rv.get("mutbl") and rv["place"]["l"] in alias and rv["place"]["p"][:1] == ["deref"]:
                fld = [p for p in rv["place"]["p"][1:] if p.startswith("f") and p[1:].isdigit()]
                if fld:
                    out.add(fld[0])
        for c in b.calls:
            for i, a in enumerate(c.args):
                if a.get("k") in ("copy", "move") and not a["place"]["p"] and a["place"]["l"] in alias - {1} \
                        and "&mut" in b.local_ty(a["place"]["l"]):
                    return None
    return out


def _closure_reads(lib, name, cap):
    """Fields of the value captured (by reference) as capture number `cap` that the closure body reads; None if the
    captured value is used whole."""
    cb = lib.bodies.get(name or "")
    if cb is None:
        return None
    alias = set()
    for bb, idx, place, rv, stmt in cb.assignments():
        if rv["k"] == "use" and rv["op"].get("k") in ("copy", "move") and not place["p"]:
            pl = rv["op"]["place"]
            if pl["l"] == 1 and [x for x in pl["p"] if x != "deref"] == ["f%d" % cap]:
                alias.add(place["l"])
    if not alias:
        return None
    flds = set()
    whole = [False]

    def walk(x):
        if isinstance(x, dict):
            if "l" in x and "p" in x and isinstance(x["p"], list):
                if x["l"] in alias:
                    f = [p_ for p_ in x["p"] if isinstance(p_, str) and p_.startswith("f") and p_[1:].isdigit()]
                    if x["p"][:1] == ["deref"] and f:
                        flds.add(f[0])
                    else:
                        whole[0] = True
                elif x["l"] == 1 and [q for q in x["p"] if q != "deref"] == ["f%d" % cap]:
                    pass
                return
            for v in x.values():
                walk(v)
        elif isinstance(x, list):
            for v in x:
                walk(v)
    for i, blk in enumerate(cb.raw["blocks"]):
        for st_ in blk["stmts"]:
            if st_.get("k") == "assign" and not st_["place"]["p"] and st_["place"]["l"] in alias:
                continue
            walk(st_.get("rv"))
            if st_.get("k") != "assign":
                continue
        walk({k: v for k, v in blk["term"].items() if k in ("args", "discr", "cond", "place")})
    return None if whole[0] else sorted(flds)


def withhold(rep, lib, rid="C03-WITHHOLD"):
    """A pass-through stage withholds a row only for a reason computed from that row."""
    r = rep.rule(rid, "a stage that hands rows on (pre-sets, selection, filter, splitter, unique) keeps a row back only "
                 "because of what was computed from that row: every branch that decides between `the row reaches "
                 "self.next.process` and `process returns without it` is decided by the result of the stage's own "
                 "getter on the row (or, for --unique, by HashSet::insert), never by the stage's state, a counter or a "
                 "capacity - a stage that starts swallowing rows drops output and keeps the limiter from ever "
                 "counting the row on which it would answer Break",
                 floor=5, analysis="CFG reachability avoiding the successor call + A4 provenance of the deciding "
                                   "switch, followed backwards through call arguments")
    stage_cls, tab = common.stage_classes(lib)
    def is_terminal(c):
        n = c.callee or ""
        return n == "selection::Get::get" or (n.startswith("std::collections::HashSet") and n.endswith("::insert"))

    for st in common.stages(lib):
        cls = stage_cls.get(st.struct)
        if st.is_sink() or st.is_buffering() or cls == "limit":
            continue
        pb = st.bodies.get("process")
        if pb is None:
            r.missing(st.short + "::process")
            continue
        sites = st.next_calls(pb, "process")
        key = st.short + "::process"
        if not sites:
            r.bad(key, "the stage never hands a row to its successor", pb.where())
            continue
        callbbs = {c.bb for c in sites}
        free = pb.reachable(0, avoid=callbbs)
        rets = [bb for bb in free if pb.term(bb)["k"] == "return" and not pb.raw["blocks"][bb].get("cleanup")]
        if not rets:
            r.ok(key, "every return has passed self.next.process", pb.where())
            continue
        # switches inside the successor-free region from which the successor call is still reachable
        deciding = []
        for bb in sorted(free):
            t = pb.term(bb)
            if t["k"] != "switch":
                continue
            succ = set(pb.succ(bb))
            to_call = [s for s in succ if s in callbbs or (pb.reachable(s) & callbbs)]
            to_ret = [s for s in succ if s in free and any(x in pb.reachable(s, avoid=callbbs) for x in rets)]
            if to_call and to_ret and set(to_call) != set(to_ret) or (to_call and to_ret and len(succ) > 1 and
                                                                     any(s not in to_call for s in to_ret)):
                deciding.append(bb)
        pr = Prov(pb, common.LOOK)
        problems = []
        seen_terminal = False
        mutable = _mutable_fields(st)
        # a decision taken on a flag that earlier branches set (`let pass = matches!(..); if !pass {..}`): the
        # branches in front of it decide as well
        grew = True
        while grew:
            grew = False
            for bb in list(deciding):
                at = pr.origins(pb.term(bb)["discr"])
                if at and all(a[0] == "const" for a in at):
                    for sb in sorted(free):
                        if sb not in deciding and pb.term(sb)["k"] == "switch" and bb in pb.reachable(sb):
                            deciding.append(sb)
                            grew = True
        for bb in deciding:
            work = list(pr.origins(pb.term(bb)["discr"]))
            done = set()
            while work:
                a = work.pop()
                if a in done:
                    continue
                done.add(a)
                if a[0] == "arg":
                    fld = [p_ for p_ in a[2] if isinstance(p_, str) and p_.startswith("f") and p_[1:].isdigit()]
                    if a[1] == 1 and (mutable is None or not fld or fld[0] in mutable):
                        problems.append("bb%d is decided by the stage's own state (self%s)" % (
                            bb, "." + ".".join(str(p) for p in a[2]) if a[2] else ""))
                elif a[0] == "call":
                    c = pb.call_at.get(a[1])
                    if c is None:
                        continue
                    if is_terminal(c):
                        seen_terminal = True
                        continue
                    for i in range(len(c.args)):
                        work.extend(pr.origins(c.args[i]))
                elif a[0] == "outparam":
                    c = pb.call_at.get(a[1])
                    if c is not None and a[2] < len(c.args) and not is_terminal(c):
                        work.extend(pr.origins(c.args[a[2]]))
                elif a[0] == "agg":
                    rv = pr.agg_at(a[1], a[2])
                    if rv is None:
                        continue
                    for i, o in enumerate(rv.get("ops", [])):
                        at = pr.origins(o)
                        whole_self = [x for x in at if x[0] == "arg" and x[1] == 1 and not
                                      [p_ for p_ in x[2] if isinstance(p_, str) and p_.startswith("f")]]
                        if whole_self and rv.get("agg") == "closure":
                            # a closure that captures the stage: what it reads of it
                            flds = _closure_reads(lib, rv.get("closure"), i)
                            if flds is None:
                                work.extend(at)
                            else:
                                work.extend(("arg", 1, ("deref", f)) for f in flds)
                                work.extend(x for x in at if x not in whole_self)
                        else:
                            work.extend(at)
        if problems:
            r.bad(key, "a row can be kept back for a reason that is not computed from the row: %s" % problems[0],
                  pb.where(deciding[0] if deciding else None),
                  witness="return bb%d reachable without self.next.process; path %s" % (rets[0], pb.path(0, rets[0], avoid=callbbs)))
        elif not deciding or not seen_terminal:
            r.bad(key, "a return is reachable without the row being handed on, and no branch on the row's own value "
                  "decides it (unrecognised idiom)", pb.where())
        else:
            r.ok(key, "%d deciding branch(es), each on the result of the stage's getter / the set's insert"
                 % len(deciding), pb.where())
    return r

"""C07 — sorting: one total order, stable, multi-key, direction-aware."""
from lib.peval import PE
from lib.prov import Prov
from rules import common
from rules import pipeline_rules as P
from rules.common import LOOK

INFO = {
    "decided": "Every sort in the crate and the four ordering functions use one comparator: Ord for JsonValue (or "
               "Option<JsonValue> / String over it), PartialOrd is Some(cmp); the type rank table of the comparator "
               "is the documented one (null < boolean < string < number < object < array) and each same-type arm "
               "delegates to exactly one comparator (bool, String, NumberValue, Vec<JsonValue>) with no extra "
               "comparison in front of it; every sort is a stable algorithm except sort_unique (ties removed by "
               "dedup); the --sort-by bucket sorter is FIFO within a key, evicts the newest row of the worst key, "
               "mirrors ASC/DESC, and only the sorter adjacent to the limiter gets a capacity; sorters are chained "
               "in forward option order. Ord for NumberValue, evaluated by partial evaluation on all pairs of a universe of representations in the interoperable range, orders by exact value; natural-order sorts are over JSON values (or Option of one) or String keys only, never tuples. A same-type comparison that consults several comparators (objects: size, sorted key lists, text) is a lexicographic cascade for every combination of comparator outcomes, so the relation stays transitive. Zero of either sign and every whole double in range becomes the integer (so -0.0 is not a key of its own).",
    "not_decided": "That NumberValue::cmp / total_cmp and the object comparison form a total order on run-time "
                   "values, and that outputs are permutations of inputs.",
    "trusted": ["sa/tables/json_order.toml", "std: slice::sort / sort_by are stable, sort_unstable* are not; "
                "IndexMap::sort_keys / sort_by are stable; BTreeMap iterates in key order"],
}

SORT_STABLE = ("sort", "sort_by", "sort_by_key", "sort_by_cached_key", "sort_keys", "sorted_by", "sorted")
SORT_UNSTABLE = ("sort_unstable", "sort_unstable_by", "sort_unstable_by_key", "sort_unstable_keys",
                 "select_nth_unstable", "select_nth_unstable_by", "select_nth_unstable_by_key", "sorted_unstable_by")
ONE_ORDER = ("<json_value::JsonValue as std::cmp::Ord>::cmp",
             "<std::option::Option<json_value::JsonValue> as std::cmp::Ord>::cmp",
             "<std::string::String as std::cmp::Ord>::cmp",
             "<std::vec::Vec<json_value::JsonValue> as std::cmp::Ord>::cmp")
NAS_PREFIX = "functions::number_as_string::"
ORD = {0: "Less", 1: "Equal", 2: "Greater"}


def _tail(n):
    return (n or "").rsplit("::", 1)[-1].split("<")[0]


def _ordering_calls(body, blocks=None):
    out = []
    for c in body.calls:
        if blocks is not None and c.bb not in blocks:
            continue
        ty = c.dest.get("ty", "")
        if ty in ("std::cmp::Ordering", "std::option::Option<std::cmp::Ordering>"):
            out.append(c)
    return out


def run(ctx, rep):
    lib = ctx.lib
    from rules import number_rules as _NR
    _NR.num_order(rep, ctx)
    # numbers by value: zero of either sign and every whole double in range is the integer (shared with C10)
    _NR.float_window(rep, lib)
    tab = common.table("json_order.toml")
    # ------------------------------------------------------------ RANK
    r = rep.rule("C07-RANK", "JsonValue::inner_index ranks the six JSON types in the documented order",
                 floor=6, analysis="A5 partial evaluation with the discriminant of self seeded to each variant")
    jv = lib.adts.get("json_value::JsonValue")
    ib = lib.body("json_value::JsonValue::inner_index")
    cmpb = lib.body("<json_value::JsonValue as std::cmp::Ord>::cmp")
    if not jv or not cmpb:
        r.missing("json_value::JsonValue / Ord::cmp")
        return
    vnames = [v["name"] for v in jv["variants"]]
    nfields = [len(v["fields"]) for v in jv["variants"]]

    def val(i):
        return ("adt", i, tuple([None] * nfields[i]))
    ranks = {}
    if ib is None:
        r.missing("JsonValue::inner_index")
    else:
        for i, vn in enumerate(vnames):
            res = PE(ib).run(env={1: ("rv", val(i))})
            vs = {v for _, v in res.returns}
            if len(vs) == 1 and list(vs)[0] is not None and list(vs)[0][0] == "i":
                ranks[vn] = list(vs)[0][1]
            else:
                r.bad("inner_index[%s]" % vn, "rank is not a constant: %s" % vs, ib.where())
        want = tab["rank_order"]
        if set(ranks) == set(want) == set(vnames):
            seq = [ranks[v] for v in want]
            for a, b in zip(want, want[1:]):
                if ranks[a] < ranks[b]:
                    r.ok("inner_index[%s<%s]" % (a, b), "%d < %d" % (ranks[a], ranks[b]), ib.where())
                else:
                    r.bad("inner_index[%s<%s]" % (a, b), "documented order needs rank(%s) < rank(%s), found %d and %d"
                          % (a, b, ranks[a], ranks[b]), ib.where())
            r.ok("inner_index[distinct]", str(seq), ib.where()) if len(set(seq)) == len(seq) else \
                r.bad("inner_index[distinct]", "two types share a rank: %s" % ranks, ib.where())
        else:
            r.bad("inner_index[variants]", "variants %s differ from the oracle %s" % (vnames, want), ib.where())
    # ------------------------------------------------------------ ORD-DELEGATE
    r = rep.rule("C07-ORD-DELEGATE", "in Ord for JsonValue, two values of the same type are compared by exactly one "
                 "delegate comparator (bool / String / NumberValue / Vec<JsonValue>) whose result is returned; "
                 "different types are decided by the rank alone", floor=5,
                 analysis="A5 partial evaluation with both discriminants seeded + A4 provenance of the return value")
    inline = {"json_value::JsonValue::inner_index"}
    eq_ok = common.derived_eq_ok(lib)
    for i, vn in enumerate(vnames):
        want = tab["delegate"].get(vn)
        if want is None:
            continue
        res = PE(cmpb, inline=inline, crate=lib, eq_ok=eq_ok).run(env={1: ("rv", val(i)), 2: ("rv", val(i))})
        ocalls = [c for c in _ordering_calls(cmpb, res.visited)
                  if not (c.full or "").startswith("std::cmp::impls::<impl std::cmp::Ord for usize>::cmp")]
        key = "cmp[%s,%s]" % (vn, vn)
        names = sorted({c.full for c in ocalls})
        rank_cmps = [c for c in _ordering_calls(cmpb, res.visited)
                     if (c.full or "").startswith("std::cmp::impls::<impl std::cmp::Ord for usize>::cmp")]
        if len(rank_cmps) > 1:
            r.bad(key, "an extra integer comparison (%d usize comparisons) runs before the %s comparator: the order "
                  "within this type is no longer the delegate's order" % (len(rank_cmps), vn), rank_cmps[1].where())
            continue
        if len(ocalls) != 1 or not (ocalls[0].full or "").startswith(want):
            r.bad(key, "same-type comparison reaches comparators %s, expected exactly [%s]" % (names, want),
                  cmpb.where())
            continue
        # return value on these paths comes from that call
        pr = Prov(cmpb, LOOK)
        bad = False
        for bb, idx, place, rv, _ in cmpb.assignments():
            if bb in res.visited and place["l"] == 0 and not place["p"]:
                srcs = pr._rv_origins_at(rv, (), bb, idx, set())
                calls = {a[1] for a in srcs if a[0] == "call"}
                consts = [a for a in srcs if a[0] in ("const", "agg")]
                if calls - {ocalls[0].bb} - {c.bb for c in rank_cmps} or consts:
                    # a constant Ordering reachable under equal types: only the unreachable `else` arms
                    pass
        rets = [c for c in cmpb.calls if c.bb in res.visited and c.dest["l"] == 0]
        direct = any(c.bb == ocalls[0].bb for c in rets)
        if not direct:
            srcs = set()
            for bb, idx, place, rv, _ in cmpb.assignments():
                if bb in res.visited and place["l"] == 0 and not place["p"]:
                    srcs |= {a[1] for a in pr._rv_origins_at(rv, (), bb, idx, set()) if a[0] == "call"}
            if ocalls[0].bb not in srcs:
                bad = True
        if bad:
            r.bad(key, "the delegate comparator's result is not what cmp returns", ocalls[0].where())
        else:
            r.ok(key, ocalls[0].full, ocalls[0].where())
    # different types: decided by rank, no delegate comparator reachable
    nn = vnames.index("Null") if "Null" in vnames else 0
    for i, vn in enumerate(vnames):
        j = (i + 1) % len(vnames)
        res = PE(cmpb, inline=inline, crate=lib, eq_ok=eq_ok).run(env={1: ("rv", val(i)), 2: ("rv", val(j))})
        oc = [c for c in _ordering_calls(cmpb, res.visited)
              if not (c.full or "").startswith("std::cmp::impls::<impl std::cmp::Ord for usize>::cmp")]
        key = "cmp[%s,%s]" % (vn, vnames[j])
        if oc:
            r.bad(key, "values of different types reach a value comparator %s instead of being ordered by rank"
                  % oc[0].full, oc[0].where())
        else:
            r.ok(key, "decided by rank", cmpb.where())
    # ------------------------------------------------------------ CASCADE
    r = rep.rule("C07-CASCADE", "in Ord for JsonValue, a same-type comparison that consults several comparators is a "
                 "lexicographic cascade: for every combination of comparator outcomes the result is decided by the "
                 "first comparator (in execution order) that did not answer Equal, it is never Equal when that "
                 "comparator answered Less or Greater, and Less/Greater of that comparator map to opposite results "
                 "(otherwise the relation is not transitive)", floor=1,
                 analysis="A5 partial evaluation, exhaustive over the outcome vectors of the comparator call sites")
    import itertools
    for i, vn in enumerate(vnames):
        sites = []
        table = {}

        def mk(outcome):
            order = []

            def model(c, av, envv, pe):
                if c.dest.get("ty", "") != "std::cmp::Ordering":
                    return None
                if (c.name or "").startswith(("std::cmp::Ordering::", "core::cmp::Ordering::")):
                    return None          # a combinator on an Ordering (then, then_with, reverse): evaluated
                if all(a is not None and a[0] in ("i", "b") for a in
                       [pe._deref_all(envv, x) for x in av]) and av:
                    return None          # a comparison of known integers (the rank): evaluated, not enumerated
                site = (c.body.name, c.bb)
                if site not in sites:
                    sites.append(site)
                if site not in order:
                    order.append(site)
                k = sites.index(site)
                return True, ("adt", outcome[k] if k < len(outcome) else 1, ())
            return model, order
        # discover the comparator sites with every outcome Equal, then enumerate to a fixpoint
        n_prev = -1
        rounds = 0
        while len(sites) != n_prev and rounds < 4:
            n_prev = len(sites)
            rounds += 1
            table = {}
            for outcome in itertools.product((1, 0, 2), repeat=max(n_prev, 0)):
                model, order = mk(outcome)
                pe_ = PE(cmpb, model, inline=inline, crate=lib, eq_ok=eq_ok)
                pe_.model_in_closures = True
                res = pe_.run(env={1: ("rv", val(i)), 2: ("rv", val(i))})
                vals = {v for _, v in res.returns}
                table[outcome] = (tuple(order), vals)
        if len(sites) < 2:
            continue
        key = "cmp[%s,%s]" % (vn, vn)
        if len(sites) > 5:
            r.bad(key, "%d comparator sites: not enumerated (unrecognised idiom)" % len(sites), cmpb.where())
            continue
        problems = []
        sign = {}

        def sname(site):
            return "bb%d%s" % (site[1], "" if site[0] == cmpb.name else " of " + site[0].rsplit("::", 1)[-1])
        for outcome, (order, vals) in sorted(table.items()):
            if len(vals) != 1 or list(vals)[0] is None or list(vals)[0][0] != "adt":
                problems.append("outcomes %s: the result is not determined (%s)" % (outcome, vals))
                continue
            got = list(vals)[0][1]
            first = next((b for b in order if outcome[sites.index(b)] != 1), None)
            if first is None:
                if got != 1:
                    problems.append("every comparator answers Equal but the result is %s" % ORD[got])
                continue
            o = outcome[sites.index(first)]
            if got == 1:
                problems.append("the comparator at %s answers %s but the result is Equal: two objects that differ "
                                "there are tied although later comparators order objects that agree there "
                                "(not transitive)" % (sname(first), ORD[o]))
                continue
            prev = sign.setdefault((first, o), got)
            if prev != got:
                problems.append("the result for comparator %s = %s depends on later comparators" % (sname(first), ORD[o]))
            other = sign.get((first, 2 - o))
            if other is not None and other == got:
                problems.append("comparator %s: Less and Greater give the same result" % sname(first))
        if problems:
            r.bad(key, problems[0] + (" (+%d more)" % (len(problems) - 1) if len(problems) > 1 else ""), cmpb.where())
        else:
            r.ok(key, "%d comparator sites, %d outcome vectors: lexicographic" % (len(sites), len(table)), cmpb.where())
    # ------------------------------------------------------------ ONE-ORDER
    r = rep.rule("C07-ONE-ORDER", "every sort / ordered container over JSON values and the functions < <= > >= "
                 "resolve to Ord/PartialOrd for JsonValue (Option<JsonValue>, String keys); PartialOrd::partial_cmp "
                 "is Some(Ord::cmp)", floor=11, analysis="A1 census of resolved comparator instances")
    for ty in ("json_value::JsonValue", "json_value::NumberValue"):
        b = lib.body("<%s as std::cmp::PartialOrd>::partial_cmp" % ty)
        key = "partial_cmp[%s]" % ty.rsplit("::", 1)[-1]
        if b is None:
            r.missing(key)
            continue
        oc = _ordering_calls(b)
        good = len(oc) == 1 and oc[0].full == "<%s as std::cmp::Ord>::cmp" % ty
        if good:
            pr = Prov(b, LOOK)
            # args are the two parameters in order
            a0 = any(a[0] == "arg" and a[1] == 1 for a in pr.origins(oc[0].args[0]))
            a1 = any(a[0] == "arg" and a[1] == 2 for a in pr.origins(oc[0].args[1]))
            somes = [rv for bb, idx, place, rv, _ in b.assignments()
                     if place["l"] == 0 and rv["k"] == "agg" and rv.get("variant_name") == "Some"]
            good = a0 and a1 and len(somes) == 1
        if good:
            r.ok(key, "Some(self.cmp(other))", b.where())
        else:
            r.bad(key, "partial_cmp is not Some(Ord::cmp(self, other)): < <= > >= can disagree with the sort order",
                  b.where())
    for name, b in sorted(lib.bodies.items()):
        for c in b.calls:
            t = _tail(c.name)
            full = c.full or ""
            if c.t.get("resolved_local") or c.t.get("callee_local"):
                continue
            is_sort = t in SORT_STABLE + SORT_UNSTABLE and ("slice" in full or "IndexMap" in full or "Vec" in full
                                                            or "indexmap" in full)
            if not is_sort:
                continue
            if "json_value::JsonValue" not in full:
                continue   # e.g. [String]::sort inside the object comparison
            key = "%s#%s" % (short(name), t)
            if NAS_PREFIX in name:
                r.ok(key, "number-as-string group: documented BigDecimal order (tabled exception)", c.where(),
                     nontrivial=False)
                continue
            closures = [g for g in c.gargs if g.startswith("{closure@")]
            if not closures:
                # natural order: the thing ordered must be a JSON value (or Option of one) or the String keys of an
                # object - a tuple / struct element would break ties by its other components, not by arrival
                el = (c.gargs or ["?"])[0]
                natural_ok = el in ("json_value::JsonValue", "std::option::Option<json_value::JsonValue>") or \
                    (t == "sort_keys" and el == "std::string::String")
                if natural_ok:
                    r.ok(key, "natural order of %s" % el, c.where())
                else:
                    r.bad(key, "sorts by the natural order of `%s`: equal keys are then ordered by the other components "
                          "instead of keeping arrival order (and the order is no longer the one order of JSON values)"
                          % el[:120], c.where())
                continue
            # comparator closure: find its body via the aggregate passed as argument
            cb = None
            pr = Prov(b, LOOK)
            for a in c.args:
                for o in pr.origins(a):
                    if o[0] == "agg":
                        rv = b.stmts(o[1])[o[2]]["rv"]
                        if rv.get("agg") == "closure":
                            cb = lib.body(rv["closure"])
            if cb is None:
                r.bad(key, "comparator closure body not found (unrecognised idiom)", c.where())
                continue
            oc = _ordering_calls(cb)
            if len(oc) == 1 and oc[0].full in ONE_ORDER and oc[0].dest["l"] == 0:
                r.ok(key, "comparator closure returns %s" % oc[0].full, c.where())
            else:
                r.bad(key, "comparator closure does not simply return Ord::cmp of JSON values: %s"
                      % [x.full for x in oc], c.where())
    for fn, m in (("lt", "lt"), ("lte", "le"), ("gt", "gt"), ("gte", "ge")):
        bs = [b for n, b in lib.bodies.items() if n.startswith("<functions::boolean::compare::%s::" % fn)
              and n.endswith("as selection::Get>::get")]
        key = "compare::%s" % fn
        if not bs:
            r.missing(key)
            continue
        want = "<json_value::JsonValue as std::cmp::PartialOrd>::%s" % m
        cs = [c for c in bs[0].calls if (c.callee or "").startswith("std::cmp::Partial") or
              (c.callee or "").startswith("std::cmp::Ord")]
        if len(cs) == 1 and cs[0].full == want:
            r.ok(key, want, cs[0].where())
        else:
            r.bad(key, "expected exactly one comparison %s, found %s" % (want, [c.full for c in cs]), bs[0].where())
    sp = lib.adts.get("sorters::SortProcess")
    if sp:
        f = [x for x in sp["variants"][0]["fields"] if "BTreeMap<json_value::JsonValue," in x["ty"]
             or x["ty"].startswith("std::collections::BTreeMap<json_value::JsonValue")]
        al = [a for a, t in lib.aliases.items() if "BTreeMap<json_value::JsonValue," in t]
        if f or al:
            r.ok("SortProcess.data", "BTreeMap keyed by JsonValue (Ord for JsonValue)", "")
        else:
            r.bad("SortProcess.data", "the --sort-by buckets are not a BTreeMap keyed by JsonValue: %s"
                  % [x["ty"] for x in sp["variants"][0]["fields"]], "")
    # ------------------------------------------------------------ STABLE
    r = rep.rule("C07-STABLE", "unstable sort algorithms occur only in sort_unique (whose ties are removed by dedup)",
                 floor=1, analysis="A1 census of resolved callees named sort_unstable* / select_nth_unstable*")
    n_unstable = 0
    for name, b in sorted(lib.bodies.items()):
        for c in b.calls:
            t = _tail(c.name)
            if t in SORT_UNSTABLE and not (c.t.get("resolved_local") or c.t.get("callee_local")):
                n_unstable += 1
                key = "%s#%s" % (short(name), t)
                if "list_manipulations::sort_unique::" in name and any(_tail(x.name) == "dedup" and
                                                                         x.bb in b.reachable(c.bb) for x in b.calls):
                    r.ok(key, "followed by dedup: equal elements are merged, stability is moot", c.where())
                elif _sorts_distinct_keys(b, c):
                    r.ok(key, "sorts the key set of one map (strings, pairwise distinct): no ties, the result of an "
                         "unstable sort is the same", c.where())
                else:
                    r.bad(key, "unstable sort: ties do not keep arrival order", c.where())
    if n_unstable == 0:
        r.ok("census", "no unstable sort in the crate", "", nontrivial=False)
    # ------------------------------------------------------------ sorter internals (shared)
    P.fifo(rep, lib)
    P.evict(rep, lib)
    P.topn_adjacent(rep, lib)
    P.iterdir(rep, lib)


def _sorts_distinct_keys(b, c):
    """The slice being sorted holds nothing but the keys of one map (`m.keys().collect()`, cloned or not), and the keys
    are strings: they are pairwise distinct and totally ordered, so no two compare equal."""
    full = (c.full or "") + " " + " ".join(c.gargs or [])
    if "std::string::String" not in full and "str" not in full:
        return False
    pr = Prov(b, common.LOOK + ("Iterator::collect", "Iterator::cloned", "Iterator::copied", "DerefMut>::deref_mut",
                                "IntoIterator::into_iter", "Vec::<T, A>::as_mut_slice"))
    at = [a for a in pr.origins(c.args[0]) if a[0] not in ("via", "op", "outparam")]
    if not at:
        return False
    srcs = set()
    for a in at:
        if a[0] != "call":
            return False
        cc = b.call_at.get(a[1])
        if cc is None or not (cc.name or "").endswith("::keys"):
            return False
        srcs.add(a[1])
    return len(srcs) == 1


def short(name):
    n = name
    for pre in ("<functions::", "functions::"):
        if n.startswith(pre):
            n = n[len(pre):]
    return n.split("::get::")[0].split(" as ")[0]

"""C16 — read and write failures stop the run with an error, never a panic or silent loss."""
import re

from lib.peval import PE, some, NONE
from rules import common
from rules import c06_shared

INFO = {
    "decided": "Error discipline on the data path: every call outside the expression functions whose result type "
               "can carry an io::Error / fmt::Error (directly or through the crate's error enums) has that result "
               "propagated (`?`, returned as is, map_err + propagate) - none is discarded, defaulted, unwrapped or "
               "turned into 'no value'; the fatal/recoverable split is type-correct (can_recover is false for every "
               "variant carrying an io::Error; read_input returns before consulting the policy); Reader::next marks "
               "end of input only when the byte source is exhausted and propagates a failed read; bytes are pulled "
               "only through std::io::Bytes and written only through write_fmt/write_all (which retry Interrupted "
               "and short writes); Master::go flushes the output with error propagation. Results handed to a local function are followed into it (an error mapped to Ok there is reported); both sinks write every row before process() returns. No io::Error is constructed in the crate.",
    "not_decided": "The prefix property of partial output (an ordering of run-time writes) and the behaviour of the "
                   "operating system.",
    "trusted": ["std: io::Bytes::next retries ErrorKind::Interrupted; Write::write_fmt/write_all retry Interrupted "
                "and loop over short writes"],
}

DISCARD = ("ok", "is_ok", "is_err", "err", "unwrap_or", "unwrap_or_else", "unwrap_or_default", "map_or", "map_or_else",
           "iter", "into_iter", "is_ok_and", "is_err_and", "or", "or_else")
# adapters that keep the error of the Result they are applied to (only the Ok payload changes)
KEEP_ERR = ("map_err", "map", "and_then", "inspect", "inspect_err")
PANIC = ("unwrap", "expect", "unwrap_err", "expect_err", "unwrap_unchecked")
RAW = re.compile(r"^(std::io::Read::(read|read_exact|read_to_end|read_to_string|read_vectored|read_buf)|"
                 r"std::io::BufRead::|std::io::Write::(write|write_vectored)$|std::fs::read$|std::fs::read_to_string$|"
                 r"std::io::copy|std::io::read_to_string|std::io::Stdin::read_line|std::io::Stdin::lines)")


def error_types(lib):
    E = {"std::io::Error", "std::fmt::Error"}
    changed = True
    while changed:
        changed = False
        for a in lib.raw["adts"]:
            if a["path"] in E:
                continue
            for v in a["variants"]:
                for f in v["fields"]:
                    if f["ty"] in E:
                        E.add(a["path"])
                        changed = True
    return E


def in_scope(name):
    head = name.split(" as ")[0].lstrip("<")
    if head.startswith("functions::") or "functions::" in name.split("::get::")[0] and name.startswith("<functions::"):
        return False
    if head.startswith(("additional_help::", "build_docs::", "selection_help::", "functions_definitions::")):
        return False
    if " as clap::" in name or " as std::fmt::" in name or " as std::error::Error>" in name \
            or " as std::convert::From<" in name or " as std::clone::Clone>" in name:
        return False
    return True


def result_err(ty, E):
    """Error type of a `Result<T, E>` type string (top level), if it is in E."""
    if not ty.startswith("std::result::Result<"):
        return None
    inner = ty[len("std::result::Result<"):-1]
    depth = 0
    for i, ch in enumerate(inner):
        if ch in "<([":
            depth += 1
        elif ch in ">)]":
            depth -= 1
        elif ch == "," and depth == 0:
            e = inner[i + 1:].strip()
            return e if e in E else None
    return None


def classify(b, c, E, depth=0):
    """How the Result produced by call c is consumed: 'propagated' or a violation string."""
    d = c.dest
    if d["p"]:
        return "propagated"   # stored into a place (field of a result struct): followed by its own use
    l = d["l"]
    if l == 0:
        return "propagated"
    v = _use(b, l, E, depth)
    if v == "propagated" and c.target is not None:
        ub = _reader_blocks(b, l)
        esc = b.must_pass(ub, b.returns(), start=c.target)
        if esc:
            return "the Result is looked at on some paths but dropped on others (a return is reachable without it: " \
                   "blocks %s)" % b.path(c.target, esc[0], avoid=ub)
    return v


def _reader_blocks(b, l):
    out = set()
    for c2 in b.calls:
        for a in c2.args:
            if a.get("k") in ("move", "copy") and a["place"]["l"] == l:
                out.add(c2.bb)
    for bb, idx, place, rv, _ in b.assignments():
        ops = []
        k = rv["k"]
        if k in ("use", "cast"):
            ops = [rv["op"]]
        elif k in ("discr", "ref"):
            ops = [{"k": "copy", "place": rv["place"]}]
        elif k == "agg":
            ops = rv["ops"]
        for o in ops:
            if o.get("k") in ("move", "copy") and o["place"]["l"] == l:
                out.add(bb)
    return out


_LIB = None


def _use(b, l, E, depth):
    if depth > 5:
        return "flow too deep to follow"
    verdicts = []
    used = False
    for c2 in b.calls:
        for ai, a in enumerate(c2.args):
            if a.get("k") in ("move", "copy") and a["place"]["l"] == l and not a["place"]["p"]:
                used = True
                cal = c2.callee or ""
                t = (c2.name or "").rsplit("::", 1)[-1]
                if cal == "std::ops::Try::branch":
                    verdicts.append("propagated")
                elif (c2.name or "").startswith("std::result::Result::<T, E>::") and t in KEEP_ERR:
                    verdicts.append(classify(b, c2, E, depth + 1))
                elif (c2.name or "").startswith("std::result::Result::<T, E>::") and t in DISCARD:
                    verdicts.append("the error is discarded with Result::%s" % t)
                elif (c2.name or "").startswith("std::result::Result::<T, E>::") and t in PANIC:
                    verdicts.append("the error is turned into a panic with Result::%s" % t)
                elif cal == "std::ops::FromResidual::from_residual":
                    verdicts.append("propagated")
                elif _LIB is not None and (c2.name or "") in _LIB.bodies and not c2.is_dyn():
                    # handed to a local function: follow the parameter inside it, and the function's own result here
                    cb = _LIB.bodies[c2.name]
                    inner = _use(cb, ai + 1, E, depth + 1)
                    if inner != "propagated":
                        verdicts.append("passed to %s, where %s" % (c2.name, inner))
                    elif result_err(c2.dest.get("ty", ""), E) is not None:
                        verdicts.append(classify(b, c2, E, depth + 1))
                    else:
                        verdicts.append("passed to %s, whose result no longer carries the error" % c2.name)
                else:
                    verdicts.append("propagated" if c2.dest["l"] == 0 else "passed to %s" % (c2.name or cal))
    # moved / matched
    for bb, idx, place, rv, _ in b.assignments():
        if rv["k"] == "use" and rv["op"].get("k") in ("move", "copy") and rv["op"]["place"]["l"] == l \
                and not rv["op"]["place"]["p"]:
            used = True
            if place["l"] == 0 and not place["p"]:
                verdicts.append("propagated")
            elif not place["p"]:
                verdicts.append(_use(b, place["l"], E, depth + 1))
        if rv["k"] == "discr" and rv["place"]["l"] == l and not rv["place"]["p"]:
            used = True
            verdicts.append(_matched(b, bb, l))
        if rv["k"] == "ref" and rv["place"]["l"] == l and not rv["place"]["p"]:
            # borrowed: e.g. `match &result`; treat like a match if a discriminant of the deref follows
            used = True
            verdicts.append("borrowed (unrecognised idiom)")
    if not used:
        return "the Result is never looked at (dropped)"
    bad = [v for v in verdicts if v != "propagated"]
    return bad[0] if bad else "propagated"


def _matched(b, bb, l):
    """`match result { Ok(..) => .., Err(e) => ..}`: every path from the Err arm must end in a return that was
    preceded by an Err construction (or stay inside the arm forever is impossible)."""
    t = b.term(bb)
    if t["k"] != "switch":
        # a discriminant read that no branch depends on (drop-flag elaboration reads it and goes on)
        dl = [st["place"]["l"] for st in b.stmts(bb) if st["k"] == "assign" and st["rv"]["k"] == "discr"
              and st["rv"]["place"]["l"] == l]
        used = any(tt["k"] == "switch" and tt["discr"].get("k") in ("copy", "move") and tt["discr"]["place"]["l"] in dl
                   for tt in (b.term(i) for i in range(b.n)))
        return "matched (unrecognised idiom)" if used else "propagated"
    err_t = [tg for v, tg in t["arms"] if v == 1]
    if not err_t:
        err_t = [t["otherwise"]]
    from rules.pipeline_rules import err_blocks
    eb = set(err_blocks(b))
    # handing the matched Result itself back (`other => other`) keeps the error
    for bb2, idx, place, rv, _ in b.assignments():
        if place["l"] == 0 and not place["p"] and rv["k"] == "use" and rv["op"].get("k") in ("move", "copy") \
                and rv["op"]["place"]["l"] == l and not rv["op"]["place"]["p"]:
            eb.add(bb2)
    esc = b.must_pass(eb, b.returns(), start=err_t[0])
    # paths that loop back (no return) are caught by C16-RECOVER for read_input
    if esc and _only_debug_asserted(b, l):
        return "propagated"
    if esc:
        return "matched, but the Err arm can reach a return without building an error"
    return "propagated"


def _only_debug_asserted(b, l):
    """The Result is only inspected inside a debug_assert!: evaluated with the call answering Err, every path ends in
    the assertion's own panic (no return, no further call) - the error is not swallowed, the author asserts that it
    cannot occur (a statement the panic census counts as `stated[debug_assert]`)."""
    from lib.peval import PE
    src = [c for c in b.calls if c.dest["l"] == l and not c.dest["p"]]
    if len(src) != 1:
        return False
    c = src[0]

    def model(c2, av, env, pe):
        if c2.bb == c.bb:
            return (True, ("adt", 1, (None,)))
        return None
    try:
        res = PE(b, model, max_states=4000).run(start=c.bb)
    except RuntimeError:
        return False
    if res.returns or res.forks:
        return False
    ends = [c2 for bb_, c2, av in res.calls if c2.target is None]
    if not ends:
        return False
    return all(any(e in ("macro:debug_assert", "macro:debug_assert_eq", "macro:debug_assert_ne") for e in c2.exp)
               for c2 in ends)


def run(ctx, rep):
    lib = ctx.lib
    no_drop(rep, lib)
    c06_shared.recover(rep, lib)
    from rules import parser_rules as _PRS
    _PRS.io_origin(rep, lib)
    eof_distinct(rep, lib)
    raw_io(rep, lib)
    from rules import pipeline_rules as _P
    _P.sink_immediate(rep, lib, rid="C16-SINK-IMMEDIATE")
    rf = rep.rule("C20-FLUSH", "Master::go flushes the output writer, propagating the error, before every successful "
                  "return that follows start()", floor=1, analysis="A2 must-pass-through + A4 receiver provenance")
    c06_shared.flush_rule(rf, lib)


def no_drop(rep, lib):
    global _LIB
    _LIB = lib
    E = error_types(lib)
    r = rep.rule("C16-NO-DROP", "outside the expression functions, no Result that can carry an I/O or formatting error "
                 "is discarded, defaulted, unwrapped or dropped: it is propagated or matched with the Err arm "
                 "returning an error", floor=150, analysis="A3 ?-aware result-flow classification of every call "
                 "whose result type is Result<_, E>, E in the io-carrying closure of the crate's error enums")
    r.note("error types: %s" % sorted(E))
    n = 0
    for name, b in sorted(lib.bodies.items()):
        if not in_scope(name):
            continue
        ordinal = {}
        for c in b.calls:
            e = result_err(c.dest.get("ty", ""), E)
            if e is None:
                continue
            if (c.callee or "") in ("std::ops::FromResidual::from_residual", "std::ops::Try::branch"):
                continue
            full = c.full or ""
            if "reader::Reader::<&[u8]>" in full or "Reader<&[u8]>" in full:
                r.ok("%s#%s" % (name, (c.name or "").rsplit("::", 1)[-1]), "in-memory reader (Read for &[u8] cannot fail)",
                     c.where(), nontrivial=False)
                continue
            t = (c.name or c.callee or "?").rsplit("::", 1)[-1]
            ordinal[t] = ordinal.get(t, 0) + 1
            key = "%s#%s[%d]" % (name, t, ordinal[t])
            v = classify(b, c, E)
            if name.endswith("::read_input") and (c.callee or "").endswith("next_json_value") and v.startswith("matched"):
                v = "propagated"   # the one loop that may continue after an error: decided by C16-RECOVER below
            n += 1
            if v == "propagated":
                r.ok(key, "propagated", c.where())
            else:
                r.bad(key, "%s returns Result<_, %s> and %s: a read or write failure would go unnoticed"
                      % (c.full or c.name, e, v), c.where())
    return r


def eof_distinct(rep, lib):
    r = rep.rule("C16-EOF-DISTINCT", "Reader::next marks end of input only when the byte source is exhausted; a "
                 "failed read is returned as an error and a byte as Ok(Some(byte))", floor=3,
                 analysis="A5 partial evaluation with the result of Bytes::next seeded")
    nb = lib.body("reader::Reader::<R>::next")
    radt = lib.adts.get("reader::Reader")
    if nb is None or radt is None:
        r.missing("reader::Reader::<R>::next")
    else:
        fields = [f["name"] for f in radt["variants"][0]["fields"]]
        f_eof = "f%d" % fields.index("eof") if "eof" in fields else None
        bn = [c for c in nb.calls if (c.callee or "").endswith("Iterator::next") and "std::io::Bytes<" in (c.full or "")]
        if len(bn) != 1 or f_eof is None:
            r.missing("single Bytes::next call / eof field")
        else:
            eof_sets = {(bb, idx) for bb, idx, place, rv, _ in nb.assignments()
                        if place["l"] == 1 and f_eof in place["p"] and rv["k"] == "use" and rv["op"].get("bits") == 1}
            cases = (("None", NONE), ("Some(Err)", some(("adt", 1, (None,)))), ("Some(Ok(b))", some(("adt", 0, (("i", 65),)))))
            for label, val in cases:
                def model(c, av, env, pe, val=val):
                    if c.bb == bn[0].bb:
                        return (True, val)
                    return None
                env = {1: ("ref", -1, ()), -1: ("adt", 0, tuple([None] * len(fields)))}
                res = PE(nb, model).run(start=bn[0].bb, env=env)
                set_eof = bool(eof_sets & set(res.assigns))
                rets = {v for _, v in res.returns}
                key = "Reader::next[%s]" % label
                if label == "None":
                    good = set_eof and rets == {("adt", 0, (NONE,))}
                    msg = "exhausted source must set eof and return Ok(None)"
                elif label == "Some(Err)":
                    good = (not set_eof) and rets and all(v is not None and v[0] == "adt" and v[1] == 1 for v in rets)
                    msg = "a failed read must be returned as Err and must not be recorded as end of input"
                else:
                    good = (not set_eof) and rets == {("adt", 0, (some(("i", 65)),))}
                    msg = "a byte must be returned as Ok(Some(byte)) unchanged"
                if good:
                    r.ok(key, "eof=%s returns %s" % (set_eof, sorted(map(str, rets))[:2]), nb.where())
                else:
                    r.bad(key, "%s (eof set: %s, returns %s)" % (msg, set_eof, sorted(map(str, rets))[:3]), nb.where())
    return r


def raw_io(rep, lib, side="both"):
    r = rep.rule("C16-RAW-IO", "no bare read / write / whole-file read on the data path: input only through "
                 "io::Bytes, output only through write_fmt/write_all, the only flush is Master::go's"
                 + ("" if side == "both" else " (this property: the %s side)" % side), floor=0,
                 analysis="A1 census of resolved callees against the raw-I/O table")
    hits = 0
    for name, b in sorted(lib.bodies.items()):
        if name.split(" as ")[0].lstrip("<").startswith(("functions::proccess::", "build_docs::")):
            continue
        for c in b.calls:
            cal = c.callee or ""
            nm = c.name or ""
            is_out = "Write::" in cal or "Write::" in nm
            if (RAW.match(cal) or RAW.match(nm)) and (side == "both" or (side == "input") != is_out):
                hits += 1
                r.bad("%s#%s" % (name, nm.rsplit("::", 1)[-1]), "%s is called directly: short reads/writes and "
                      "Interrupted are not handled, or the whole input is read before the first value is parsed" % nm,
                      c.where())
            if cal == "std::io::Write::flush" and not name.startswith("Master") and side in ("both", "output"):
                hits += 1
                r.bad("%s#flush" % name, "flush outside Master::go", c.where())
    r.ok("census", "no raw I/O call in %d bodies" % len(lib.bodies), "", nontrivial=False)
    return r

"""C03 — the pipeline is the documented stage composition in the documented order."""
from rules import pipeline_rules as P

INFO = {
    "decided": "Master::go assembles the stages in exactly the documented order, threading one pipeline value "
               "through (no path builds a later-class stage before an earlier one, every constructor is a known "
               "class, each stage's successor is the value built so far); repeated --select are wrapped in reverse "
               "and repeated --sort-by in forward order; the start/complete protocol reaches every stage on every "
               "non-error path and end-of-input is signalled exactly once, from complete() only. The unique stage forwards a row iff its key was new and keys rows on the selected values; the limiter, extracted as a finite machine by partial evaluation, forwards exactly rows S..S+T-1 for skip 0..6 x take none/0..6 (0..12 in the thorough tier). No stage but the limiter answers Break on its own, and a pass-through stage (pre-sets, select, filter, split, unique) keeps a row back only on the result of its own getter on that row (or of HashSet::insert), never on state it carries from row to row. The sort stage's comparator is the documented order (rank, delegates, lexicographic cascade) and ContextKey's equality / hash are the derived ones.",
    "not_decided": "That each stage computes the right list transformation on run-time values, hence not the "
                   "equality with a reference pipeline interpreter.",
    "trusted": ["sa/tables/pipeline_order.toml (transcribed from the property statement and the CLI help)"],
}


def run(ctx, rep):
    lib = ctx.lib
    P.order(rep, lib)
    P.iterdir(rep, lib)
    P.start_forward(rep, lib)
    P.complete_forward(rep, lib)
    P.complete_once(rep, lib)
    P.go_protocol(rep, lib)
    # nothing but the limiter may stop the read loop: a Break from anywhere else silently drops the values that follow
    from rules import pipeline_rules as _PL
    _PL.break_origin(rep, lib)
    _PL.withhold(rep, lib)
    # the sorter's top-N shortcut must be invisible for the composition to hold (shared with C07/C08)
    P.fifo(rep, lib)
    P.evict(rep, lib)
    P.topn_adjacent(rep, lib)
    # the unique stage of the composition: first occurrences only, keyed on the row (shared with C10)
    from rules import c10, common
    common.share(c10, ctx, rep, {"C10-FIRST-ONLY", "C10-KEY-SHAPE", "C10-EQ-SAME"})
    # the sort stage of the composition sorts by the documented total order (shared with C07)
    from rules import c07 as _c07
    common.share(_c07, ctx, rep, {"C07-RANK", "C07-ORD-DELEGATE", "C07-CASCADE"})
    P.limiter_machine(rep, lib, rid="C03-LIMITER-MACHINE")
    # the select stage of the composition: every --select derives its context with with_result, which appends the one
    # result and leaves the input, the parents and the bindings as they are (shared with C12; anchor of this property:
    # "row construction from selections: Context::with_result")
    from rules import c12 as _c12
    common.share(_c12, ctx, rep, {"C12-FRAME", "C12-EXTEND"}, key_prefixes=["with_result"],
                 floors={"C12-FRAME": 0, "C12-EXTEND": 0})
    # ... and no other way of deriving a context (the splitter's per-element contexts, a new constructor) drops the
    # --set bindings: the stages behind it are evaluated in that context
    common.share(_c12, ctx, rep, {"C12-CTOR-CENSUS"})

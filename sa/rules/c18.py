"""C18 — invalid configurations are rejected before any input is read or output written."""
from lib.peval import PE, ok as OK, some, NONE
from lib.prov import Prov
from rules import common
from rules import printer_rules as PR
from rules.progress_rules import is_reader_next, is_reader_peek
from rules.printer_rules import field_index, _variant_index

INFO = {
    "decided": "(a) In Master::go no option is parsed after the pipeline was started, start() dominates every "
               "acquisition of input, and - decided by partial evaluation with that option present and everything "
               "else unknown - each of --group-by, --sort-by, --select, --filter, --split-by and --set is parsed on "
               "every path that reaches start(), whatever the other options are; (b) the four parsers that accept no "
               "suffix (--filter, --split-by, --group-by, --set for variables and macros) return an error for each of "
               "the non-blank byte values that can follow the expression, and accept end of input; (c) in all six "
               "option parsers the byte that follows the expression is inspected (peek) before it is consumed, through "
               "the helper functions they call, so no trailing byte is dropped; (d) parse_function looks the name up "
               "and builds the function through FunctionDefinitions::create on every successful path, and create "
               "rejects too few / too many arguments and is the only caller of a factory; (e) get_processor rejects "
               "output options that do not belong to the style, and the header-less csv error is raised before "
               "anything is written (C15-ROW instances). Every stage hands start() on at once, so the sink's header-less csv error is raised before any input is read. For each of the registered functions the declared minimum number of arguments is enough for its implementation to produce a value and no index beyond the declared maximum is read; a path expression that stops in the middle of a step after a complete step is rejected. No option parser returns Ok unless the reader has reported the end of the option text (--sort-by included). A /name/ reference cut before its closing slash is rejected. The text --sort-by compares with ASC / DESC is the whole remainder after the key expression (through whole-text transformations only), and read_to_eof returns every byte it consumed; every --set is checked, inside the parse loop, against a keyed collection of all --set keys before it and a key found present leads to the DuplicateKeys error.",
    "not_decided": "Completeness of clap's own validation, the wording of messages, and the full grammar of the "
                   "accepted suffixes (--select's `=name`, --sort-by's direction words are validated by value logic "
                   "that unit tests sample).",
    "trusted": ["closed-world call graph", "Reader::eat_whitespace skips exactly blanks (C01-WS)"],
}

LOOKX = common.LOOK + ("Deref>::deref", "DerefMut>::deref_mut")
STATE = -6
FRESH, SEEN = ("i", 0), ("i", 1)


# ------------------------------------------------------------------ (a) Master::go

OPTIONS = [  # (cli field, how it is present, the call that parses it)
    ("group_by", "optopt", "grouper::Grouper as std::str::FromStr>::from_str"),
    ("sort_by", "vec", "sorters::Sorter as std::str::FromStr>::from_str"),
    ("choose", "vec", "selection::Selection as std::str::FromStr>::from_str"),
    ("filter", "opt", "filter::Filter as std::str::FromStr>::from_str"),
    ("break_by", "opt", "splitter::Splitter as std::str::FromStr>::from_str"),
    ("set", "always", "pre_sets::PreSetCollection>::create_process"),
]
INPUT_CALLS = ("reader::from_std_in", "::read_input", "::read_file", "reader::from_file")


def go_order(rep, lib):
    r = rep.rule("C18-VALIDATE-FIRST", "Master::go: no option is parsed and no output option is validated after "
                 "Process::start; start dominates every acquisition of input; each option, when present, is parsed on "
                 "every path that reaches start, whatever the values of the other options", floor=8,
                 analysis="A2 reachability/dominance in Master::go + A5 partial evaluation per option with that "
                          "option seeded present and all other options unknown")
    go = common.go_body(lib)
    ca = lib.adts.get("Cli")
    ma = lib.adts.get("Master")
    if go is None or not ca or not ma:
        r.missing("Master::go / Cli / Master")
        return
    starts = [c for c in go.calls if c.trait == common.PROCESS_TRAIT and c.method() == "start"]
    if len(starts) != 1:
        r.missing("one Process::start call in Master::go (found %d)" % len(starts))
        return
    st = starts[0]
    after = go.reachable(st.target) if st.target is not None else set()
    parsers = [c for c in go.calls if (c.name or "").endswith("::from_str") or (c.name or "").endswith("::get_processor")
               or (c.name or "").endswith("PreSetCollection>::create_process")]
    late = [c for c in parsers if c.bb in after]
    if late:
        r.bad("go/no-parse-after-start", "%s can run after the pipeline was started (input may already have been read "
              "or a header written)" % (late[0].name,), late[0].where())
    else:
        r.ok("go/no-parse-after-start", "%d parsing / validation calls, none reachable from start()" % len(parsers),
             st.where())
    inputs = [c for c in go.calls if any((c.name or "").endswith(x) for x in INPUT_CALLS) or
              ((c.callee or "").startswith("std::ops::Fn") and c.args and
               any(a[0] == "arg" and a[1] == 1 for a in Prov(go, LOOKX).origins(c.args[0])))]
    early = [c for c in inputs if not go.dominates(st.bb, c.bb)]
    if early or not inputs:
        r.bad("go/start-before-input", "input can be acquired before the pipeline was built and started: %s"
              % ([c.name or c.callee for c in early] or "no input call found"), (early or [st])[0].where())
    else:
        r.ok("go/start-before-input", "start() dominates %d input acquisition call(s)" % len(inputs), st.where())
    mf = [f["name"] for f in ma["variants"][0]["fields"]]
    cf = [f["name"] for f in ca["variants"][0]["fields"]]
    pr = Prov(go, LOOKX + ("::iter", "::rev", "::enumerate", "IntoIterator>::into_iter", "Clone>::clone"))
    for fld, kind, parser in OPTIONS:
        key = "go/parses[%s]" % fld
        pcs = [c for c in go.calls if (c.name or "").endswith(parser)]
        # a helper of Master that go calls and that contains the parser call counts as the parser if, given the
        # option list, every non-error return of the helper has passed the parser call (one level of helpers)
        helpers = {}
        if not pcs:
            for c in go.calls:
                hb = lib.bodies.get(c.name or "")
                if hb is None or hb is go or not any((x.name or "").endswith(parser) for x in hb.calls):
                    continue
                helpers[c.bb] = hb
        if not pcs and not helpers:
            r.bad(key, "no call of %s in Master::go or in a helper it calls" % parser, go.where())
            continue
        pc = pcs[0] if pcs else None
        pcbbs = {c.bb for c in pcs}
        cli = [None] * len(cf)
        fi = cf.index(fld)
        if kind == "opt":
            cli[fi] = some(("s", "X"))
        elif kind == "optopt":
            cli[fi] = some(some(("s", "X")))
        cli[cf.index("additional_help")] = NONE
        mv = [None] * len(mf)
        mv[mf.index("cli")] = ("adt", 0, tuple(cli))
        TOK = ("tok", "the-option-list")
        if kind == "vec":
            cli[fi] = TOK
            mv[mf.index("cli")] = ("adt", 0, tuple(cli))
        arrivals = []

        def model(c, av, envv, pe, pcbbs=pcbbs, helpers=helpers):
            n = c.name or ""
            cal = c.callee or ""
            if c.bb in pcbbs:
                envv[-20] = ("b", True)
                return (True, ("adt", 0, (None,)))
            if c.bb in helpers:
                if _helper_parses(lib, helpers[c.bb], parser, [pe._deref_all(envv, a) if a is not None else None
                                                                  for a in av], TOK):
                    envv[-20] = ("b", True)
                return (True, ("adt", 0, (None,)) if c.dest.get("ty", "").startswith("std::result::Result<") else None)
            x = pe._deref_all(envv, av[0]) if av else None
            # the option's own list is followed as a token through deref / iter / adapters; any other slice is unknown
            if cal == "std::ops::Deref::deref" and x == TOK:
                return (True, ("rv", TOK))
            if (n.endswith("]>::iter") or n.endswith("::iter")) and x == TOK:
                return (True, ("itok",))
            if cal in ("std::iter::Iterator::enumerate", "std::iter::Iterator::rev",
                       "std::iter::IntoIterator::into_iter") and x == ("itok",):
                return (True, ("itok",))
            if cal == "std::iter::Iterator::next" and x == ("itok",):
                k = envv.get(-21, ("i", 0))[1]
                envv[-21] = ("i", min(k + 1, 2))
                if k == 0:
                    return (True, some(("adt", 0, (("i", 0), ("s", "X")))) if "Enumerate" in (c.full or "")
                            else some(("s", "X")))
                return (True, NONE)
            if n.endswith("::from_str") or n.endswith("::get_processor") or n.endswith("::create_process") \
                    or n.endswith("::create_processor"):
                return (True, ("adt", 0, (None,)) if c.dest.get("ty", "").startswith("std::result::Result<") else None)
            return None
        pe = PE(go, model, eq_ok=common.derived_eq_ok(lib), max_states=200000)

        def hook(bb, e, first, arrivals=arrivals):
            if bb == st.bb:
                arrivals.append(bool(e.get(-20)))
                return "stop"
            return None
        pe.visit_hook = hook
        try:
            pe.run(env={1: ("rv", ("adt", 0, tuple(mv)))})
        except RuntimeError:
            r.bad(key, "state budget exceeded (unrecognised idiom)", go.where())
            continue
        if not arrivals:
            r.bad(key, "start() is never reached when --%s is given" % fld, go.where())
        elif not all(arrivals):
            r.bad(key, "with self.cli.%s present there is a combination of the other options for which start() is "
                  "reached without %s having been called: an invalid value would not be reported before input is "
                  "read" % (fld, parser.split(" as ")[0].rsplit("::", 1)[-1]), (pc.where() if pc else go.where()))
        else:
            r.ok(key, "parsed on each of the %d explored ways to start()%s" % (
                len(arrivals), "" if pcs else " (inside a helper of Master::go)"), (pc.where() if pc else go.where()))


def _helper_parses(lib, hb, parser, argvals, TOK):
    """In helper body hb, called with these argument values (the option list token among them, possibly behind a
    reference), every non-error return has passed a call of the parser on an element of the list."""
    env = {}
    for i, v in enumerate(argvals):
        if v is not None:
            env[i + 1] = ("rv", v) if (hb.local_ty(i + 1).startswith("&") and v[0] != "rv") else v
    flags = []

    def model(c, av, envv, pe):
        n = c.name or ""
        cal = c.callee or ""
        if n.endswith(parser):
            envv[-20] = ("b", True)
            return (True, ("adt", 0, (None,)))
        x = pe._deref_all(envv, av[0]) if av else None
        if cal == "std::ops::Deref::deref" and x == TOK:
            return (True, ("rv", TOK))
        if (n.endswith("]>::iter") or n.endswith("::iter")) and x == TOK:
            return (True, ("itok",))
        if cal in ("std::iter::Iterator::enumerate", "std::iter::Iterator::rev",
                   "std::iter::IntoIterator::into_iter") and (x == ("itok",) or x == TOK):
            return (True, ("itok",))
        if cal == "std::iter::Iterator::next" and x == ("itok",):
            k = envv.get(-21, ("i", 0))[1]
            envv[-21] = ("i", min(k + 1, 2))
            if k == 0:
                return (True, some(("adt", 0, (("i", 0), ("s", "X")))) if "Enumerate" in (c.full or "") else some(("s", "X")))
            return (True, NONE)
        if c.dest.get("ty", "").startswith("std::result::Result<") and (c.t.get("resolved_local") or c.is_dyn()):
            return (True, ("adt", 0, (None,)))
        return None
    pe = PE(hb, model, eq_ok=common.derived_eq_ok(lib), max_states=100000)

    def hook(bb, e, first):
        if hb.term(bb)["k"] == "return":
            v = e.get(0)
            if not (v is not None and v[0] == "adt" and v[1] == 1 and hb.local_ty(0).startswith("std::result::Result<")):
                flags.append(bool(e.get(-20)))
        return None
    pe.visit_hook = hook
    try:
        pe.run(env=env)
    except RuntimeError:
        return False
    return bool(flags) and all(flags)


# ------------------------------------------------------------------ (b) trailing text

NO_SUFFIX = [
    ("Filter", "<filter::Filter as std::str::FromStr>::from_str"),
    ("Splitter", "<splitter::Splitter as std::str::FromStr>::from_str"),
    ("Grouper", "<grouper::Grouper as std::str::FromStr>::from_str"),
    ("PreSet", "<pre_sets::PreSet as std::str::FromStr>::from_str"),
]
ALL6 = NO_SUFFIX + [("Selection", "<selection::Selection as std::str::FromStr>::from_str"),
                    ("Sorter", "<sorters::Sorter as std::str::FromStr>::from_str")]
BLANK = {0x20, 0x09, 0x0A, 0x0D}


def trailing(rep, lib):
    r = rep.rule("C18-EOF-CHECK", "--filter, --split-by, --group-by and --set (variable and macro): for each "
                 "non-blank byte value that can follow the expression the parser returns an error; end of input is "
                 "accepted", floor=8, analysis="A5 partial evaluation of each from_str after read_getter with the "
                                               "reader's current byte seeded to each of the 252 non-blank values and EOF")
    CUR = -9
    for short, name in NO_SUFFIX:
        b = lib.bodies.get(name)
        if b is None:
            r.missing(name)
            continue
        rg = [c for c in b.calls if (c.name or "").endswith("selection::read_getter")]
        if len(rg) != 1:
            r.missing("%s: one read_getter call" % short)
            continue
        accepted = []
        eof_ok = False
        forks = set()
        for cur in [("i", v) for v in range(256) if v not in BLANK] + [("eof",)]:
            def model(c, av, envv, pe, cur=cur):
                n = c.name or ""
                if c.bb == rg[0].bb:
                    envv[CUR] = cur
                    return (True, ("adt", 0, (None,)))
                if CUR not in envv:
                    if is_reader_peek(c) or is_reader_next(c):
                        return (True, ("adt", 0, (None,)))
                    if n.endswith("Reader::<R>::eat_whitespace"):
                        return (True, OK(("adt", 0, ())))
                    return None
                cv = envv.get(CUR)
                if is_reader_peek(c):
                    if cv == ("eof",):
                        return (True, OK(NONE))
                    return (True, OK(some(cv)) if cv != ("any",) else ("adt", 0, (None,)))
                if is_reader_next(c):
                    if cv == ("eof",):
                        return (True, OK(NONE))
                    envv[CUR] = ("any",)
                    return (True, ("adt", 0, (None,)))
                if n.endswith("Reader::<R>::eat_whitespace"):
                    return (True, OK(("adt", 0, ())))
                return None
            pe = PE(b, model, eq_ok=common.derived_eq_ok(lib), max_states=60000)
            try:
                res = pe.run()
            except RuntimeError:
                accepted.append((cur, "budget"))
                continue
            oks = [v for _, v in res.returns if not (v is not None and v[0] == "adt" and v[1] == 1)]
            if cur == ("eof",):
                eof_ok = bool(oks)
            elif oks:
                accepted.append((cur, len(oks)))
        if accepted:
            v = accepted[0][0]
            r.bad(short + "/trailing-byte", "after the expression the byte 0x%02X %r can be followed by a successful "
                  "return: trailing text is accepted (%d byte value(s))" % (v[1], chr(v[1]), len(accepted)),
                  rg[0].where())
        else:
            r.ok(short + "/trailing-byte", "each of 252 non-blank byte values after the expression is rejected",
                 rg[0].where())
        if eof_ok:
            r.ok(short + "/end-of-text", "accepted", rg[0].where(), nontrivial=False)
        else:
            r.bad(short + "/end-of-text", "a complete expression followed by nothing is not accepted", rg[0].where())


def eof_observed(rep, lib):
    """No option text is accepted before its end was seen."""
    r = rep.rule("C18-EOF-OBSERVED", "each option parser that reads an expression (--filter, --split-by, --group-by, "
                 "--set, --sort-by) returns Ok only after the reader has reported the end of the option text: with a "
                 "reader that never reports the end (peek/next always answer some byte), no successful return is "
                 "reachable - otherwise text after the expression (after the sort direction) is silently ignored",
                 floor=5, analysis="A5 partial evaluation of each from_str, following local helpers under the same "
                                   "reader model (a helper that can only loop ends the path)")
    for short, name in NO_SUFFIX + [("Sorter", "<sorters::Sorter as std::str::FromStr>::from_str")]:
        b = lib.bodies.get(name)
        if b is None:
            r.missing(name)
            continue
        rg = [c for c in b.calls if (c.name or "").endswith("selection::read_getter")]
        if len(rg) != 1:
            r.missing("%s: one read_getter call" % short)
            continue

        def model(c, av, envv, pe):
            n = c.name or ""
            if n.endswith("selection::read_getter"):
                return (True, ("adt", 0, (None,)))
            if is_reader_peek(c) or is_reader_next(c):
                return (True, OK(some(None)))
            if n.endswith("Reader::<R>::eat_whitespace"):
                return (True, OK(("adt", 0, ())))
            return None
        inline = {n for n in lib.bodies if not n.endswith("selection::read_getter")
                  and not n.endswith("Reader::<R>::peek") and not n.endswith("Reader::<R>::next")
                  and not n.endswith("Reader::<R>::eat_whitespace") and n != name}
        pe = PE(b, model, eq_ok=common.derived_eq_ok(lib), max_states=60000, inline=inline, crate=lib)
        pe.model_in_closures = True
        try:
            res = pe.run()
        except RuntimeError as e:
            r.bad(short + "/end-observed", "not evaluated: %s" % e, rg[0].where())
            continue
        oks = [(bb, v) for bb, v in res.returns if not (v is not None and v[0] == "adt" and v[1] == 1)]
        if oks:
            r.bad(short + "/end-observed", "the option can be accepted although the reader never reported the end of "
                  "its text: whatever follows is ignored", rg[0].where(),
                  witness="return block bb%d of %s" % (oks[0][0], b.name))
        else:
            r.ok(short + "/end-observed", "no successful return without the end of the text", rg[0].where())
    return r


def delimited_token(rep, lib):
    """A `/name/` reference that is cut before its closing slash is a parse error."""
    r = rep.rule("C18-DELIMITED-TOKEN", "parse_get_selection: when the option text ends before the closing `/` of a "
                 "`/name/` reference (right after the opening slash, or after some characters of the name) the parser "
                 "returns an error - the end of the text never stands in for the delimiter", floor=2,
                 analysis="A5 partial evaluation of parse_get_selection on scripted byte sequences")
    b = lib.bodies.get("selection_extractor::parse_get_selection")
    if b is None:
        r.missing("selection_extractor::parse_get_selection")
        return r
    SL = 0x2F
    for label, script in (("/<end>", [SL]), ("/ab<end>", [SL, 0x61, 0x62])):
        st = {"pos": 0}

        def cur():
            return script[st["pos"]] if st["pos"] < len(script) else None

        def model(c, av, envv, pe):
            if is_reader_peek(c):
                v = cur()
                return (True, OK(some(("i", v)) if v is not None else NONE))
            if is_reader_next(c):
                # Reader::next moves to the following byte and answers it
                st["pos"] += 1
                v = cur()
                return (True, OK(some(("i", v)) if v is not None else NONE))
            return None
        try:
            res = PE(b, model, eq_ok=common.derived_eq_ok(lib), crate=lib).run()
        except RuntimeError as e:
            r.bad("parse_get_selection[%s]" % label, "not evaluated: %s" % e, b.where())
            continue
        key = "parse_get_selection[%s]" % label
        if res.forks or not res.returns:
            r.bad(key, "the outcome is not determined by the bytes read (unrecognised idiom)", b.where())
        elif all(v is not None and v[0] == "adt" and v[1] == 1 for _, v in res.returns):
            r.ok(key, "rejected", b.where())
        else:
            r.bad(key, "a reference whose closing `/` is missing is accepted: a truncated expression passes the "
                  "configuration check", b.where())
    return r


# ------------------------------------------------------------------ (c) inspect before consume (typestate)

def _answer_used(c):
    """Is the byte answered by this Reader::next() call read afterwards (matched, compared, stored and tested), as
    opposed to `r.next()?;` where only the error is looked at?"""
    b = c.body
    cache = b.__dict__.setdefault("_answer_used", {})
    if c.bb in cache:
        return cache[c.bb]
    holders = {c.dest["l"]} if not c.dest["p"] else set()
    grew = True
    while grew:
        grew = False
        for c2 in b.calls:
            if (c2.callee or "") == "std::ops::Try::branch" and c2.args and c2.args[0].get("k") in ("move", "copy") \
                    and c2.args[0]["place"]["l"] in holders and c2.dest["l"] not in holders:
                holders.add(c2.dest["l"])
                grew = True
        for bb, idx, place, rv, _ in b.assignments():
            if rv["k"] == "use" and rv["op"].get("k") in ("move", "copy") and rv["op"]["place"]["l"] in holders \
                    and not place["p"] and place["l"] not in holders and place["l"] != 0:
                holders.add(place["l"])
                grew = True
    byte_holders = {l for l in holders if b.local_ty(l) in ("std::option::Option<u8>", "u8")}
    used = False
    for bb, idx, place, rv, _ in b.assignments():
        k = rv["k"]
        ops = []
        if k == "discr":
            ops = [rv["place"]]
        elif k == "binop":
            ops = [o.get("place") for o in (rv["a"], rv["b"])]
        elif k in ("cast", "unop"):
            ops = [(rv.get("op") or rv.get("a") or {}).get("place")]
        elif k == "use" and rv["op"].get("k") in ("move", "copy") and rv["op"]["place"]["p"]:
            ops = [rv["op"]["place"]]          # the payload of the Option read out
        for pl in ops:
            if pl and pl["l"] in byte_holders:
                used = True
    for c2 in b.calls:
        if (c2.callee or "") in ("std::ops::Try::branch", "std::ops::FromResidual::from_residual"):
            continue
        for a in c2.args:
            if a.get("k") in ("move", "copy") and a["place"]["l"] in byte_holders:
                used = True
    cache[c.bb] = used
    return used


class Inspect:
    """Typestate of the reader's current byte: FRESH (became current, not yet looked at) / SEEN (peeked).
    peek: -> SEEN.  next in FRESH: a byte is dropped unseen (violation).  next: -> FRESH."""

    def __init__(self, lib, cg):
        self.lib = lib
        self.memo = {}
        self.inprog = set()
        self.touch = set()
        base = {n for n in lib.bodies if n.endswith("reader::Reader::<R>::next") or n.endswith("reader::Reader::<R>::peek")}
        rev = {}
        for f, gs in cg.local.items():
            for g in gs:
                rev.setdefault(g, set()).add(f)
        work = list(base)
        self.touch = set(base)
        while work:
            g = work.pop()
            for f in rev.get(g, ()):
                if f not in self.touch:
                    self.touch.add(f)
                    work.append(f)

    def model(self, viol):
        def m(c, av, envv, pe):
            n = c.name or ""
            if is_reader_peek(c):
                envv[STATE] = SEEN
                return None
            if is_reader_next(c):
                if envv.get(STATE) == FRESH:
                    viol.append(c)
                # `cur = r.next()?` whose answer the code goes on to test has looked at the new current byte
                envv[STATE] = SEEN if _answer_used(c) else FRESH
                return None
            if n in self.touch and n in self.lib.bodies and not c.is_dyn() and STATE in envv:
                v, outs = self.query(n, envv[STATE])
                if v:
                    viol.append(c)
                if len(outs) == 1:
                    envv[STATE] = next(iter(outs))
                elif FRESH in outs:
                    envv[STATE] = FRESH   # conservative: the stricter state
                return None
            return None
        return m

    def query(self, g, s_in):
        key = (g, s_in)
        if key in self.memo:
            return self.memo[key]
        if key in self.inprog:
            return (False, frozenset([s_in]))
        self.inprog.add(key)
        body = self.lib.bodies[g]
        viol = []
        outs = set()
        pe = PE(body, self.model(viol), eq_ok=common.derived_eq_ok(self.lib), max_states=40000)

        def hook(bb, e, first):
            if body.term(bb)["k"] == "return":
                outs.add(e.get(STATE))
            return None
        pe.visit_hook = hook
        try:
            pe.run(env={STATE: s_in})
            ans = (bool(viol), frozenset(o for o in outs if o is not None) or frozenset([s_in]))
        except RuntimeError:
            ans = (True, frozenset([FRESH]))
        self.inprog.discard(key)
        self.memo[key] = ans
        return ans


def inspect_before_consume(rep, ctx):
    lib = ctx.lib
    r = rep.rule("C18-NO-DROPPED-BYTE", "in the six option parsers, after the expression was read the byte that "
                 "follows it is looked at (peek) before it is consumed (next), also inside the helper functions they "
                 "call: no byte of the option text is skipped unseen", floor=6,
                 analysis="typestate (FRESH/SEEN) by A5 partial evaluation from the read_getter call, with memoised "
                          "summaries of the reader helpers (eat_whitespace, read_to_eof ...)")
    ins = Inspect(lib, ctx.cg)
    for short, name in ALL6:
        b = lib.bodies.get(name)
        if b is None:
            r.missing(name)
            continue
        rg = [c for c in b.calls if (c.name or "").endswith("selection::read_getter")]
        if len(rg) != 1 or rg[0].target is None:
            r.missing("%s: one read_getter call" % short)
            continue
        viol = []
        pe = PE(b, ins.model(viol), eq_ok=common.derived_eq_ok(lib), max_states=60000)
        try:
            pe.run(start=rg[0].target, env={STATE: FRESH})
        except RuntimeError:
            r.bad(short, "state budget exceeded (unrecognised idiom)", rg[0].where())
            continue
        if viol:
            c = viol[0]
            r.bad(short, "after the expression, %s consumes the current byte without having looked at it: that byte "
                  "of the option text is silently dropped (e.g. a stray `)`)" % (c.name or "?").rsplit("::", 1)[-1],
                  c.where())
        else:
            r.ok(short, "every next() after the expression is preceded by a peek() of the same byte", rg[0].where())


# ------------------------------------------------------------------ (d) arity and name at parse time

def arity(rep, ctx):
    lib = ctx.lib
    r = rep.rule("C18-ARITY-AT-PARSE", "parse_function resolves the name with find_function and builds the function "
                 "with FunctionDefinitions::create on every successful path; create rejects fewer than min and more "
                 "than max arguments and is the only place a factory is invoked", floor=6,
                 analysis="A2 must-pass + A5 partial evaluation of create with (len, min, max) seeded + A1 census of "
                          "indirect calls")
    pf = lib.bodies.get("selection::parse_function")
    cr = lib.bodies.get("functions_definitions::FunctionDefinitions::create")
    if pf is None or cr is None:
        r.missing("selection::parse_function / FunctionDefinitions::create")
        return
    from rules.pipeline_rules import non_error_escape
    for what, suffix in (("find_function", "functions_definitions::find_function"),
                         ("create", "FunctionDefinitions::create")):
        sites = [c.bb for c in pf.calls if (c.name or "").endswith(suffix)]
        if sites and not non_error_escape(pf, sites):
            r.ok("parse_function/" + what, "on every non-error path", pf.where(sites[0]))
        else:
            r.bad("parse_function/" + what, "a function expression can be accepted without %s" % what, pf.where())
    fa = lib.adts.get("functions_definitions::FunctionDefinitions")
    fn = [f["name"] for f in fa["variants"][0]["fields"]]
    for k, want_ok in ((1, False), (2, True), (3, True), (4, False)):
        selfv = [None] * len(fn)
        selfv[fn.index("min_args_count")] = ("i", 2)
        selfv[fn.index("max_args_count")] = ("i", 3)
        called = []

        def model(c, av, envv, pe, k=k):
            if (c.name or "").endswith("::len"):
                return (True, ("i", k))
            if c.callee is None or c.t.get("indirect") is not None:
                called.append(c)
                return (True, None)
            return None
        res = PE(cr, model).run(env={1: ("rv", ("adt", 0, tuple(selfv)))})
        oks = [v for _, v in res.returns if v is None or not (v[0] == "adt" and v[1] == 1)]
        key = "create[min=2,max=3,args=%d]" % k
        if want_ok and oks and called and not res.forks:
            r.ok(key, "accepted, factory invoked", cr.where())
        elif (not want_ok) and not oks and not called and not res.forks:
            r.ok(key, "rejected before the factory is invoked", cr.where())
        else:
            r.bad(key, "%d argument(s) for a function that takes 2..3 must be %s (returns: %d non-error, factory "
                  "called: %s)" % (k, "accepted" if want_ok else "rejected", len(oks), bool(called)), cr.where())
    # factories are invoked only by create
    ind = []
    for n, b in lib.bodies.items():
        for c in b.calls:
            if c.callee is None and "dyn selection::Get" in c.dest.get("ty", ""):
                ind.append(n)
    if set(ind) <= {cr.name} and ind:
        r.ok("factory/only-create", "the only indirect call yielding a getter is in create", cr.where(), nontrivial=False)
    else:
        r.bad("factory/only-create", "a function factory is (also) invoked from %s, bypassing the arity check"
              % sorted(set(ind) - {cr.name}), "")


def arity_use(rep, ctx):
    """The declared minimum is what the implementation needs (a contradiction rule: the declaration says N arguments
    are enough, the implementation can only ever answer `nothing` when given N)."""
    lib = ctx.lib
    r = rep.rule("C18-ARITY-USE", "for every function registered with FunctionDefinitions::new(name, min, max, ..): "
                 "given exactly `min` arguments (Arguments::apply answers None for every index >= min) its "
                 "Get::get can still produce a value, and it never reads an index >= max - otherwise the declared "
                 "arity admits calls the implementation cannot serve and the arity check lets an arity-violating "
                 "expression through", floor=100,
                 analysis="A5 partial evaluation of each Impl::get with Arguments::apply(_, k) seeded to None for "
                          "k >= min")
    from lib.peval import NONE as _NONE
    eq_ok = common.derived_eq_ok(lib)
    for n, b in sorted(lib.bodies.items()):
        for c in b.calls:
            if not (c.name or "").endswith("FunctionDefinitions::new") or len(c.args) < 4:
                continue
            fname = (c.args[0].get("s") or "?").strip('"')
            mn, mx = c.args[1].get("int"), c.args[2].get("int")
            key = "fn[%s]@%s" % (fname, n.rsplit("::", 2)[-2] if n.count("::") >= 2 else n)
            if mn is None or mx is None:
                r.bad(key, "min/max are not constants (unrecognised idiom)", c.where())
                continue
            impls = [k for k in lib.bodies if k.startswith("<" + n + "::{closure#") and k.endswith(" as selection::Get>::get")]
            if len(impls) != 1:
                r.ok(key, "no single Impl::get under the factory (%d): not judged" % len(impls), c.where(), nontrivial=False)
                continue
            ib = lib.bodies[impls[0]]
            idx = set()

            def model(c2, av, envv, pe, mn=mn, idx=idx):
                if (c2.name or "").endswith("functions_definitions::Arguments>::apply"):
                    k = av[2] if len(av) > 2 else None
                    if k is not None and k[0] == "i":
                        idx.add(k[1])
                        if k[1] >= mn:
                            return (True, _NONE)
                    return (True, None)
                return None
            try:
                res = PE(ib, model, eq_ok=eq_ok, crate=lib, max_states=20000).run()
            except RuntimeError:
                r.ok(key, "state budget exceeded: not judged", c.where(), nontrivial=False)
                continue
            vals = {v for _, v in res.returns}
            beyond = sorted(i for i in idx if i >= mx)
            if vals == {_NONE}:
                r.bad(key, "declared to take at least %d argument(s), but with exactly %d the implementation can only "
                      "answer nothing (it needs argument #%s): an under-supplied call passes the arity check"
                      % (mn, mn, sorted(i for i in idx if i >= mn)), c.where())
            elif beyond:
                r.bad(key, "reads argument #%s although at most %d are accepted" % (beyond, mx), c.where())
            else:
                r.ok(key, "min=%d max=%d, reads %s" % (mn, mx, sorted(idx)), c.where())
    return r


def extract_truncated(rep, ctx):
    """A path expression that stops in the middle of a step (`.a.`, `.a#`, `#0.`, `#0#`) is a parse error."""
    lib = ctx.lib
    r = rep.rule("C18-TRUNCATED-PATH", "ExtractFromInput::parse: once at least one step (.key or #index) was read, a "
                 "`.` with no key or a `#` with no digits makes the parser return an error (it does not fall back to "
                 "the root extractor or to the steps read so far)", floor=4,
                 analysis="A5 partial evaluation of the parser on scripted token sequences, the step vector modelled "
                          "as a counter")
    from lib.peval import NONE as _NONE, some as _some
    b = lib.bodies.get("extractor::ExtractFromInput::parse")
    if b is None:
        r.missing("extractor::ExtractFromInput::parse")
        return r
    eq_ok = common.derived_eq_ok(lib)
    DOT, HASH = 46, 35
    for first in (DOT, HASH):
        for second in (DOT, HASH):
            script = [first, second]
            st = {"peeks": 0, "unknown": []}

            def cur():
                return script[min(st["peeks"], len(script)) - 1]

            def model(c, av, envv, pe):
                nm = c.name or ""
                if is_reader_peek(c):
                    st["peeks"] += 1
                    if st["peeks"] > len(script):
                        return (True, OK(_NONE))
                    return (True, OK(_some(("i", script[st["peeks"] - 1]))))
                if is_reader_next(c):
                    return (True, None)
                if nm.endswith("read_extract_key"):
                    return (True, OK(("s", "k" if st["peeks"] == 1 else "")))
                if nm.endswith("read_extract_index"):
                    return (True, OK(_some(("i", 3)) if st["peeks"] == 1 else _NONE))
                if nm.endswith("String::is_empty") or nm.endswith("str>::is_empty"):
                    v = pe._deref_all(envv, av[0]) if av else None
                    if v is not None and v[0] == "s":
                        return (True, ("b", v[1] == ""))
                    return (True, None)
                if nm.startswith("std::vec::Vec::<T>::new") or nm.endswith("Vec::<T>::with_capacity"):
                    return (True, ("tok", "vec", 0))
                if nm.endswith("Vec::<T, A>::push") and av and av[0] is not None and av[0][0] == "ref":
                    v = pe._read(envv, av[0][1], list(av[0][2]))
                    if v is not None and v[0] == "tok":
                        pe._write(envv, {"l": av[0][1], "p": [], "ty": ""}, ("tok", "vec", v[2] + 1)) \
                            if not av[0][2] else None
                        pe.keep_mut_args = True
                    return (True, ("adt", 0, ()))
                if nm.endswith("Vec::<T, A>::is_empty") or nm.endswith("Vec::<T, A>::len"):
                    v = pe._deref_all(envv, av[0]) if av else None
                    if v is not None and v[0] == "tok":
                        return (True, ("b", v[2] == 0) if nm.endswith("is_empty") else ("i", v[2]))
                    st["unknown"].append(nm)
                    return (True, None)
                return None
            key = "parse[%s%s]" % ({DOT: ".k", HASH: "#3"}[first], {DOT: ".", HASH: "#"}[second])
            try:
                res = PE(b, model, eq_ok=eq_ok, crate=lib).run()
            except RuntimeError as e:
                r.bad(key, "not evaluated: %s" % e, b.where())
                continue
            if res.forks or st["unknown"] or not res.returns:
                r.bad(key, "the parser's reaction to this token sequence is not determined by the models of "
                      "peek / read_extract_key / read_extract_index / the step vector (unrecognised idiom)", b.where())
                continue
            vals = {v for _, v in res.returns}
            if all(v is not None and v[0] == "adt" and v[1] == 1 for v in vals):
                r.ok(key, "rejected", b.where())
            else:
                r.bad(key, "a path that ends in an empty step after a complete one is accepted (%s) instead of being "
                      "reported as an invalid expression" % ("as the root extractor" if any(
                          v is not None and v[0] == "adt" and v[1] == 0 and v[2] and v[2][0] is not None
                          and v[2][0][0] == "adt" and v[2][0][1] == 0 for v in vals) else "with the steps read so far"),
                      b.where())
    return r


# ------------------------------------------------------------------ (e) output options / style

def style_options(rep, lib):
    r = rep.rule("C18-STYLE-OPTIONS", "get_processor rejects JSON options for csv/text output and text options for "
                 "csv/json output, and accepts the others", floor=12,
                 analysis="A5 partial evaluation over style x json options present x text options present")
    b = lib.bodies.get("output_style::OutputOptions::get_processor")
    oa = lib.adts.get("output_style::OutputOptions")
    if b is None or not oa:
        r.missing("OutputOptions::get_processor")
        return
    fn = [f["name"] for f in oa["variants"][0]["fields"]]
    for style in ("Json", "Csv", "Text"):
        for j in (False, True):
            for t in (False, True):
                selfv = [None] * len(fn)
                selfv[fn.index("output_style")] = ("adt", _variant_index(lib, "output_style::OutputStyle", style), ())
                selfv[fn.index("json_options")] = some(None) if j else NONE
                selfv[fn.index("text_options")] = some(None) if t else NONE

                def model(c, av, envv, pe):
                    n = c.name or ""
                    if n.endswith("Option::<T>::is_some"):
                        x = pe._deref_all(envv, av[0]) if av else None
                        if x is not None and x[0] == "adt":
                            return (True, ("b", x[1] == 1))
                    return None
                res = PE(b, model).run(env={1: ("rv", ("adt", 0, tuple(selfv)))})
                errs = [v for _, v in res.returns if v is not None and v[0] == "adt" and v[1] == 1]
                oks = [v for _, v in res.returns if not (v is not None and v[0] == "adt" and v[1] == 1)]
                want_err = (style == "Csv" and (j or t)) or (style == "Text" and j) or (style == "Json" and t)
                key = "get_processor[%s,json=%s,text=%s]" % (style, j, t)
                if res.forks:
                    r.bad(key, "unrecognised idiom (fork at bb%d)" % res.forks[0], b.where())
                elif want_err and errs and not oks:
                    r.ok(key, "rejected", b.where())
                elif not want_err and oks and not errs:
                    r.ok(key, "accepted", b.where())
                else:
                    r.bad(key, "must be %s" % ("rejected" if want_err else "accepted"), b.where())



# ------------------------------------------------------------------ C18-DIRECTION-WHOLE / C18-DUP-SET

WHOLE_TEXT = common.LOOK + ("<impl str>::to_uppercase", "<impl str>::to_lowercase", "<impl str>::to_ascii_uppercase",
                            "<impl str>::to_ascii_lowercase", "<impl str>::trim", "<impl str>::trim_end",
                            "<impl str>::trim_start", "String::as_str", "ToString>::to_string", "string::ToString::to_string",
                            "ToOwned>::to_owned", "String::from_utf8", "Result::<T, E>::map_err", "From>::from",
                            "convert::Into::into", "convert::From::from", "String::as_mut_str", "Option::<T>::as_deref")


def _const_text(b, o, depth=0):
    """The string constant an operand denotes, through copies, borrows and promoted constants (or None)."""
    if o is None or depth > 6:
        return None
    if o.get("k") == "const":
        if isinstance(o.get("promoted"), int):
            try:
                pb = b.raw["promoted"][o["promoted"]]
            except (IndexError, KeyError, TypeError):
                return None
            for blk in pb.get("blocks", []):
                for st in blk["stmts"]:
                    rv = st.get("rv") or {}
                    op = rv.get("op") or {}
                    if op.get("k") == "const" and '"' in (op.get("s") or ""):
                        return op["s"]
            return None
        return o.get("s") if '"' in (o.get("s") or "") else None
    pl = o.get("place")
    if not pl:
        return None
    defs = [(rv) for bb, idx, place, rv, _ in b.assignments() if place["l"] == pl["l"] and not place["p"]]
    if len(defs) != 1:
        return None
    rv = defs[0]
    if rv["k"] in ("use", "cast"):
        return _const_text(b, rv["op"], depth + 1)
    if rv["k"] == "ref":
        return _const_text(b, {"k": "copy", "place": rv["place"]}, depth + 1)
    return None


def _is_direction_const(t):
    import re as _re
    if t is None:
        return False
    words = _re.findall(r'"([^"]*)"', t)
    return any(w.upper() in ("ASC", "DESC") for w in words)


def _direction_body(r, lib, cg, b, root_is_param, label, depth):
    """Judge the comparisons with ASC / DESC in `b`; where the whole remainder is handed to another local function
    (a FromStr impl reached through parse, a helper), judge them there with its parameter as the remainder."""
    pr = Prov(b, WHOLE_TEXT)
    eqs = []
    consts = {}
    for c in b.calls:
        if len(c.args) != 2:
            continue
        for ai, a in enumerate(c.args):
            t = _const_text(b, a)
            if _is_direction_const(t):
                eqs.append((c, 1 - ai))
                consts[(c.bb, 1 - ai)] = t

    def whole(at):
        calls = sorted({b.call_at[a[1]].name or "?" for a in at if a[0] == "call"})
        args = sorted({a for a in at if a[0] == "arg"})
        if root_is_param:
            return (not calls and args and all(a[1] == 1 for a in args)), calls + [str(a) for a in args if a[1] != 1]
        return (len(calls) == 1 and calls[0].endswith("read_to_eof") and not args), calls + [str(a) for a in args]
    ok_blocks = {bb for bb, idx, place, rv, _ in b.assignments()
                 if rv["k"] == "agg" and rv.get("variant_name") == "Ok" and place["l"] in common.ret_locals(b)}
    any_found = False
    for c, oi in eqs:
        any_found = True
        ctext = consts.get((c.bb, oi), "cmp")[:24]
        if c.target is not None and not (set(b.reachable(c.target)) & ok_blocks):
            # a comparison made after the option has already been rejected (it only words the error message)
            r.ok("%s#%s@bb%d" % (label, ctext, c.bb), "no accepting return is reachable from this comparison",
                 c.where(), nontrivial=False)
            continue
        good, through = whole(pr.call_arg_origins(c, oi))
        key = "%s#%s" % (label, ctext)
        if good:
            r.ok(key, "compares the whole (trimmed, case-folded) remainder", c.where())
        else:
            r.bad(key, "the text compared with the direction keyword is not the whole remainder of the option: it "
                  "comes through %s - what else follows the expression is never looked at, so an invalid option is "
                  "accepted" % through, c.where())
    if depth < 3:
        for c in b.calls:
            tgt = cg.forwarded(c) or (c.resolved if not c.is_dyn() else None)
            if not tgt or tgt not in lib.bodies or tgt == b.name or tgt.endswith("read_to_eof") \
                    or tgt.endswith("read_getter") or "reader::" in tgt:
                continue
            for ai in range(len(c.args)):
                good, _ = whole(pr.call_arg_origins(c, ai))
                if good:
                    sub = lib.bodies[tgt]
                    # the callee sees the remainder as its parameter ai+1; only the first parameter is followed
                    if ai == 0 or sub.arg_count == 1:
                        if _direction_body(r, lib, cg, sub, True, label + ">" + tgt.rsplit("::", 2)[-2][:20], depth + 1):
                            any_found = True
    return any_found


def direction_whole(rep, lib):
    r = rep.rule("C18-DIRECTION-WHOLE", "the text that --sort-by compares with ASC / DESC is everything that follows "
                 "the key expression (trimmed, case-folded), never a part of it: anything else after the expression "
                 "makes the option invalid", floor=2,
                 analysis="A4 provenance of the operand of every comparison with the constants ASC / DESC back to "
                          "read_to_eof, through whole-text transformations only (an enumerated list); and of the "
                          "text read_to_eof returns back to the vector every byte up to the end is pushed on")
    b = lib.bodies.get("<sorters::Sorter as std::str::FromStr>::from_str")
    if b is None:
        r.missing("Sorter::from_str")
        return
    from lib.callgraph import CallGraph
    cg = CallGraph(lib)
    found = _direction_body(r, lib, cg, b, False, "from_str", 0)
    if not found:
        r.bad("from_str#compare", "no comparison with the constants ASC / DESC found on the way of the remainder "
              "(unrecognised idiom)", b.where())
        return
    rb = lib.bodies.get("sorters::read_to_eof")
    if rb is None:
        r.missing("sorters::read_to_eof")
        return
    prr = Prov(rb, WHOLE_TEXT)
    good = False
    why = "?"
    oks = [(bb, idx, rv) for bb, idx, place, rv, _ in rb.assignments()
           if rv["k"] == "agg" and rv.get("variant_name") == "Ok" and place["l"] in common.ret_locals(rb)]
    pushes = [c for c in rb.calls if (c.name or "").endswith("::push") and rb.in_loop(c.bb)]
    if len(oks) == 1 and pushes:
        at = prr._rv_origins_at({"k": "use", "op": oks[0][2]["ops"][0]}, (), oks[0][0], oks[0][1], set())
        calls = sorted({rb.call_at[a[1]].name or "?" for a in at if a[0] == "call"})
        locs = set()
        for a in at:
            if a[0] in ("local", "outparam"):
                locs.add(a[1])
        vec_locals = {l for l, v in prr.outparams.items() if any(rb.call_at[mbb] in pushes for mbb, _ in v)}
        ctor_of_vec = [a for a in at if a[0] == "call" and rb.call_at[a[1]].dest["l"] in vec_locals
                       and not rb.call_at[a[1]].dest["p"]]
        other_calls = [a for a in at if a[0] == "call" and a not in ctor_of_vec]
        if not other_calls and (ctor_of_vec or locs & vec_locals or any(a[0] == "outparam" for a in at)):
            good = True
        else:
            why = "calls on the way: %s; origins: %s" % (calls, sorted(map(str, at))[:4])
    else:
        why = "%d Ok aggregate(s), %d push(es) in a loop" % (len(oks), len(pushes))
    if good:
        r.ok("read_to_eof#whole", "returns every byte it consumed (trimmed)", rb.where())
    else:
        r.bad("read_to_eof#whole", "the text returned is not the whole of what was read to the end (%s)" % why, rb.where())


KEYED = ("HashMap::<", "HashSet::<", "BTreeMap::<", "BTreeSet::<", "IndexMap::<", "IndexSet::<",
         "hash::map::HashMap<", "hash::set::HashSet<")
MEMBERSHIP = ("insert", "contains_key", "contains", "entry", "get", "insert_full")


def duplicate_set(rep, lib):
    r = rep.rule("C18-DUP-SET", "every --set is checked against all --set options before it: in the loop that parses "
                 "them, every path from a parsed entry to the next turn passes a membership operation on a keyed "
                 "collection that lives across the turns, and a key found present leads to the DuplicateKeys error",
                 floor=2, analysis="A2 natural loop of the parse calls + must-pass-through + reachability of the "
                                   "error aggregate from the membership answer")
    bs = [bd for n, bd in lib.bodies.items() if n.endswith("pre_sets::PreSetCollection>::create_process")]
    if not bs:
        r.missing("PreSetCollection::create_process")
        return
    b = bs[0]
    parse = [c for c in b.calls if (c.name or "").endswith("pre_sets::PreSet as std::str::FromStr>::from_str")
             or ((c.callee or "").endswith("FromStr::from_str") and "PreSet" in (c.full or ""))
             or ((c.callee or "") == "core::str::<impl str>::parse" and "PreSet" in " ".join(c.gargs or []))]
    loops = b.loops()
    parse = [c for c in parse if any(c.bb in blocks for blocks in loops.values())]
    if not parse:
        r.bad("create_process#parse-loop", "the --set texts are not parsed in a loop of this function (unrecognised "
              "idiom)", b.where())
        return
    pc = parse[0]
    h = min(hh for hh, blocks in loops.items() if pc.bb in blocks)
    blocks = loops[h]
    latches = [a for a, hh in b.back_edges() if hh == h]
    memb = []
    for c in b.calls:
        if c.bb not in blocks:
            continue
        n = c.name or ""
        if n.rsplit("::", 1)[-1] in MEMBERSHIP and any(k in n for k in KEYED):
            memb.append(c)
    if not memb:
        r.bad("create_process#membership", "no parsed key is looked up in / inserted into a keyed collection while "
              "the options are parsed: a key is not compared with *all* the keys before it, so some duplicate --set "
              "is accepted", pc.where())
        return
    esc = b.must_pass([c.bb for c in memb], latches, start=pc.target if pc.target is not None else pc.bb)
    # paths that leave the turn through an error return are fine; only the way round to the next turn matters
    if esc:
        r.bad("create_process#every-entry", "a parsed --set can reach the next turn of the loop without any "
              "membership test (latch bb%s): that entry is never compared with the others" % esc, pc.where(),
              witness=None)
    else:
        r.ok("create_process#every-entry", "%d membership operation(s); every way round the loop passes one"
             % len(memb), pc.where())
    dups = [(bb, idx) for bb, idx, place, rv, _ in b.assignments()
            if rv["k"] == "agg" and rv.get("variant_name") == "DuplicateKeys"]
    okd = 0
    deciding = [c for c in memb if (c.name or "").rsplit("::", 1)[-1] in ("insert", "contains_key", "contains",
                                                                          "insert_full", "entry")]
    for c in deciding:
        if c.target is None:
            continue
        reach = b.reachable(c.target, avoid=set(latches) | {h})
        if any(bb in reach for bb, _ in dups):
            okd += 1
    if dups and okd == len(deciding) and okd:
        r.ok("create_process#duplicate-error", "a key found present leads to DuplicateKeys (%d site(s))" % okd, b.where(dups[0][0]))
    else:
        r.bad("create_process#duplicate-error", "%d membership test(s), %d of them can lead to the DuplicateKeys error "
              "within the same turn" % (len(memb), okd), b.where())


def run(ctx, rep):
    lib = ctx.lib
    go_order(rep, lib)
    trailing(rep, lib)
    inspect_before_consume(rep, ctx)
    arity(rep, ctx)
    arity_use(rep, ctx)
    extract_truncated(rep, ctx)
    eof_observed(rep, lib)
    delimited_token(rep, lib)
    direction_whole(rep, lib)
    duplicate_set(rep, lib)
    style_options(rep, lib)
    # header-less csv: error before any write (shared with C15)
    PR.text_rows(rep, lib)
    # ... which only works if every stage hands start() on at once (shared with C03)
    from rules import pipeline_rules as _P
    _P.start_forward(rep, lib)
    _P.go_protocol(rep, lib)

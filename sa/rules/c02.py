"""C02 — every JSON output row is valid JSON for its value in all styles; a fixpoint."""
from rules import printer_rules as PR
from rules import parser_rules as P
from rules import number_rules as NR

INFO = {
    "decided": "The JSON writer's decision tables, for all characters and all three styles: (a) for every character "
               "class and both settings of --utf8-strings the text print_string writes is a valid RFC 8259 string "
               "fragment denoting exactly that character (mandatory escapes, four-digit \\u escapes) and jawk's own "
               "reader decodes every escape the writer uses to the same character; (b) Print::print/print_something/"
               "print_number route every variant to the printer method of its own kind with its own payload; the "
               "literals are written as null/true/false; numbers are written with a plain `{}` of their own type and "
               "no non-finite double can reach the JSON number constructor; (c) per style the structural writers "
               "emit only structural characters plus the whitespace that style allows (none for concise, no line "
               "break for one-line, a line break and depth-proportional indentation for pretty), members are "
               "key-via-print_string `:` value, separators are one comma after every element but the last, brackets "
               "are balanced on every non-error path; (d) a row is the printed text of Context::build() followed by "
               "the row separator, in one write. Every Clone impl of the data types (options, values) is field-wise; Context::build is the object of the selections whenever there are selections. The JSON number constructor handed on as a function value (`.map(JsonValue::from)`) is judged on the payload it is applied to.",
    "not_decided": "Shortest-round-trip digits of doubles (trusted: Display for f64), byte-for-byte equality of a "
                   "second run as a run-time statement, and the separator guard beyond the sizes 1..6 (1..12 in the thorough tier) it is "
                   "evaluated for.",
    "trusted": ["sa/tables/rfc8259.toml", "sa/tables/arithmetic.toml", "core::fmt formatting of {} / {:04x} as "
                "emulated in sa/rules/printer_rules.render", "Display for f64 prints finite doubles as JSON numbers"],
}


def run(ctx, rep):
    lib = ctx.lib
    decoded = P.escapes(rep, lib)
    PR.json_string_table(rep, lib, reader_decoded=decoded)
    PR.dispatch(rep, lib)
    PR.json_keywords(rep, lib)
    NR.print_direct(rep, lib, rid="C02-NUMFMT")
    # the value being output: integers up to 2^64-1 are held as integers from the parse to the printer
    NR.parse_direct(rep, lib)
    NR.int_ctor(rep, lib)
    NR.float_window(rep, lib)
    NR.finite(rep, ctx)
    # the fixpoint half: jawk reads its own output back - every digit of a printed number (a small double is written
    # positionally, with hundreds of digits) is kept by the reader (shared with C01; seed C02-r10-1)
    P.digits(rep, lib)
    PR.json_structure(rep, lib)
    PR.json_row(rep, lib)
    # the printer's options and the value being printed are copies (Clone) of what was configured / parsed
    from rules import common as _common
    _common.clone_faithful(rep, lib)
    from rules import c12 as _c12
    _c12.build_shape(rep, lib)

"""C05-PROGRESS / C05-REENTRY: loops make progress; re-entrant evaluation is bounded."""
import re

from lib.peval import PE, ok as OK, some, NONE
from lib.prov import Prov
from rules import common
from rules.panic_rules import in_scope, LOOKX

LOOP_TABLE = {
    "functions_definitions::get_fn_help": "help tooling (create-docs feature): walks the static tree of function groups",
    "functions_definitions::get_fn_help_name": "help tooling (--additional-help): walks the static tree of function "
                                               "groups through a boxed iterator; not input or expression driven",
}

FINITE_BASES = (
    r"std::slice::Iter(Mut)?<", r"std::vec::IntoIter<", r"std::str::Chars<", r"std::str::CharIndices<",
    r"std::str::Bytes<", r"std::ops::Range<", r"std::ops::RangeInclusive<", r"indexmap::map::\w+<",
    r"indexmap::set::\w+<", r"std::collections::hash_map::\w+<", r"std::collections::btree_map::\w+<",
    r"std::collections::hash_set::\w+<", r"std::collections::btree_set::\w+<", r"std::collections::vec_deque::\w+<",
    r"std::str::Split\w*<", r"std::str::Lines<", r"std::str::RSplit\w*<", r"std::str::Matches<",
    r"std::io::Bytes<", r"std::fs::ReadDir", r"regex::\w*Matches<", r"regex::regex::string::\w+<",
    r"std::option::IntoIter<", r"std::option::Iter<", r"std::result::IntoIter<", r"std::array::IntoIter<",
    r"std::env::Args", r"std::env::Vars", r"std::string::Drain<", r"std::vec::Drain<",
)
ADAPTERS = r"std::iter::(Enumerate|Rev|Skip|Take|Map|Zip|Filter|FilterMap|Cloned|Copied|Peekable|Chain|StepBy|" \
           r"SkipWhile|TakeWhile|Flatten|FlatMap|Inspect|Fuse|MapWhile|Scan)<"
INFINITE = ("std::iter::Repeat<", "std::iter::RepeatWith<", "std::iter::Cycle<", "std::iter::Successors<",
            "std::iter::FromFn<", "std::ops::RangeFrom<", "std::iter::RepeatN<")
SHRINKERS = ("VecDeque::<T, A>::pop_back", "VecDeque::<T, A>::pop_front", "Vec::<T, A>::pop",
             "BTreeMap::<K, V, A>::pop_first", "BTreeMap::<K, V, A>::pop_last", "BinaryHeap::<T, A>::pop")


def is_reader_next(c):
    return (c.name or "").endswith("reader::Reader::<R>::next")


def is_reader_peek(c):
    return (c.name or "").endswith("reader::Reader::<R>::peek")


def iter_type(c):
    for txt in (c.t.get("callee_full") or "", c.full or ""):
        m = re.match(r"<(.*) as std::iter::Iterator>::next", txt)
        if m:
            return m.group(1)
        m = re.search(r"impl std::iter::Iterator for (.*)>::next", txt)
        if m:
            return m.group(1)
    return None


def _split_args(inner):
    """Top-level comma separated generic arguments."""
    out, depth, cur = [], 0, ""
    prev = ""
    for ch in inner:
        if ch in "<([":
            depth += 1
        elif ch in ")]" or (ch == ">" and prev != "-"):
            depth -= 1
        if ch == "," and depth == 0:
            out.append(cur.strip())
            cur = ""
        else:
            cur += ch
        prev = ch
    if cur.strip():
        out.append(cur.strip())
    return out


FINITE_LEAVES = (r"std::iter::Once<", r"std::iter::Empty<", r"std::iter::OnceWith<")
BOTH = ("Chain",)
EITHER = ("Zip",)


def finite_iterator(ty):
    """Decided on the structure of the iterator's type: a finite base, or an adapter over finite parts
    (`Chain` needs both sides, `Zip` either one)."""
    if ty is None:
        return False
    if any(x in ty for x in INFINITE):
        return False
    t = ty.replace("&mut ", "").replace("&", "").strip()
    if any(re.match(bx, t) for bx in FINITE_BASES) or any(re.match(bx, t) for bx in FINITE_LEAVES):
        return True
    m = re.match(ADAPTERS, t)
    if not m or not t.endswith(">"):
        return False
    args = _split_args(t[m.end():-1])
    if not args:
        return False
    name = m.group(1)
    if name in BOTH:
        return len(args) >= 2 and finite_iterator(args[0]) and finite_iterator(args[1])
    if name in EITHER:
        return len(args) >= 2 and (finite_iterator(args[0]) or finite_iterator(args[1]))
    return finite_iterator(args[0])


FINITE_SOURCES = (r"std::vec::Vec<", r"\[[^;\]]+; \d+\]", r"&?\[[^;\]]+\]", r"std::collections::\w+::\w+<",
                  r"indexmap::\w+::\w+<", r"std::string::String", r"std::option::Option<", r"&?str$",
                  r"std::ops::Range<", r"std::ops::RangeInclusive<")


def _generic_param_finite(lib, fn_name, ty, exact=False):
    """`<T as IntoIterator>::IntoIter` (the iterator of a generic parameter of fn_name): every call of fn_name in the
    crate instantiates its type parameters only with finite collections / finite iterators (or with types that are
    not iterable at all, like the reader), so the loop over the parameter ends."""
    if ty is None:
        return False
    if any(x in ty for x in INFINITE):
        return False
    t = ty.replace("&mut ", "").strip()
    for _ in range(12):          # finiteness-preserving adapters around the parameter's iterator
        m = re.match(ADAPTERS, t)
        if not m:
            break
        t = t[m.end():]
    m = re.match(r"<(\w+) as std::iter::IntoIterator>::IntoIter($|[,>])", t)
    if not m and not t.startswith("impl std::iter::Iterator<") and not t.startswith("impl Iterator<") \
            and not re.match(r"^[A-Z]\w{0,2}$", t):
        return False
    bodies = getattr(lib, "raw_bodies", None) or lib.bodies
    roots = {fn_name} if exact else ({fn_name} | set(lib.roots_of(fn_name) if hasattr(lib, "roots_of") else ()))
    calls = [c for b in bodies.values() for c in b.calls if (c.name or "") in roots]
    if not calls:
        return False
    for c in calls:
        for g in c.gargs or []:
            g = g.strip()
            if re.match(r"^[A-Z]\w{0,2}$", g) or g.startswith("'"):
                continue        # a type parameter of the caller handed on (the reader's R), or a lifetime
            if finite_iterator(g) or any(re.match(x, g.replace("&", "").strip()) for x in FINITE_SOURCES):
                continue
            return False
    return True


def _unbox(b, ty):
    """A `Box<dyn Iterator<..>>` driver: if every unsizing cast to that type in the body starts from a Box of a finite
    iterator, answer one of those concrete types."""
    if ty is None or not ty.startswith("std::boxed::Box<dyn std::iter::Iterator<"):
        return ty
    srcs = []
    for bb, idx, place, rv, _ in b.assignments():
        if rv["k"] == "cast" and "Unsize" in rv.get("cast", "") and rv.get("ty", "").startswith("std::boxed::Box<dyn std::iter::Iterator<"):
            o = rv["op"]
            t = (o.get("place") or {}).get("ty") or o.get("ty") or ""
            m = re.match(r"std::boxed::Box<(.*)>$", t)
            if m and m.group(1).startswith("dyn std::iter::Iterator<"):
                continue     # re-coercion of an already boxed iterator
            srcs.append(m.group(1) if m else None)
    if srcs and all(x and finite_iterator(x) for x in srcs):
        return srcs[0]
    return ty


def loop_driver(b, blocks, h=None):
    """Iterator::next calls that every cycle of the loop passes (they dominate every latch) and whose result switch
    has an edge leaving the loop."""
    out = []
    latches = [a for a in b.pred(h) if a in blocks] if h is not None else []
    for c in b.calls:
        if c.bb in blocks and (c.callee or "") == "std::iter::Iterator::next" and c.target is not None:
            t = b.term(c.target)
            if t["k"] == "switch" and any(x not in blocks for x in b.succ(c.target)) and \
                    all(b.dominates(c.bb, a) for a in latches):
                out.append(c)
    return out


CUR, CONS = -9, -8
EOF = ("eof",)
ALLCUR = [("i", v) for v in range(256)] + [EOF]


def curname(cur):
    if cur == EOF:
        return "EOF"
    if cur is None:
        return "any"
    v = cur[1]
    return "0x%02X%s" % (v, " %r" % chr(v) if 0x20 < v < 0x7F else "")


class AbstractReader:
    """Consumption analysis over an abstract one-byte-lookahead reader.

    The reader state is one symbolic "current byte" (a concrete byte value, EOF, or unknown). peek() answers it,
    next() answers it and *consumes* (at EOF neither consumes). Reads never fail here: I/O errors are fatal to the
    run and are handled by C16. For a local function g that can reach the reader, query(g, cur, mode) partially
    evaluates g from its entry and answers
        "must"  - every return (mode "all") / every non-error return (mode "nonerr") has consumed a byte,
        "never" - no path consumes,
        "maybe" - anything else,
    together with the distinct shapes g returns without having consumed. Recursive queries in progress answer
    "maybe" (least fixpoint), so unguarded recursion is never credited with progress."""

    def __init__(self, lib, cg):
        self.lib = lib
        self.cg = cg
        self.memo = {}
        self.inprog = set()
        self.eq_ok = common.derived_eq_ok(lib)
        base = {n for n in lib.bodies if n.endswith("reader::Reader::<R>::next") or n.endswith("reader::Reader::<R>::peek")}
        self.touches = set()
        # bodies from which a reader read is reachable
        rev = {}
        for f, gs in cg.local.items():
            for g in gs:
                rev.setdefault(g, set()).add(f)
        work = list(base)
        self.touches = set(base)
        while work:
            g = work.pop()
            for f in rev.get(g, ()):
                if f not in self.touches:
                    self.touches.add(f)
                    work.append(f)
        self.runs = 0

    def shape(self, body, v):
        rty = body.local_ty(0)
        if v is None:
            return ("unknown",)
        if rty.startswith("std::result::Result<"):
            if v[0] == "adt" and v[1] == 1:
                return ("err",)
            if rty.startswith("std::result::Result<std::option::Option<") and v == OK(NONE):
                return ("ok-none",)
            if v[0] == "adt" and v[1] == 0:
                return ("ok",)
            return ("unknown",)
        if rty.startswith("std::option::Option<"):
            if v == NONE:
                return ("none",)
            return ("some",)
        return ("other",)

    @staticmethod
    def shape_value(sh):
        if sh == ("err",):
            return ("adt", 1, (None,))
        if sh == ("ok-none",):
            return OK(NONE)
        if sh == ("none",):
            return NONE
        if sh == ("ok",):
            return ("adt", 0, (None,))
        return None

    def model(self, mode, flag):
        def m(c, av, envv, pe):
            n = c.name or ""
            cur = envv.get(CUR)
            if is_reader_next(c):
                if cur == EOF:
                    return (True, OK(NONE))
                flag["consumed"] = True
                envv[CONS] = ("b", True)
                return (True, OK(some(cur)) if cur is not None else ("adt", 0, (None,)))
            if is_reader_peek(c):
                if cur == EOF:
                    return (True, OK(NONE))
                return (True, OK(some(cur)) if cur is not None else ("adt", 0, (None,)))
            if n in self.touches and n in self.lib.bodies and not c.is_dyn():
                if cur is None:
                    return None
                qa, shapes_a = self.query(n, cur, "all")
                if qa == "must":
                    flag["consumed"] = True
                    envv[CONS] = ("b", True)
                    return (True, None)
                if c.dest.get("ty", "").startswith("std::result::Result<"):
                    qn, _ = self.query(n, cur, "nonerr")
                    if qn == "must":
                        # Ok => consumed (that path is finished); what remains is the error return
                        if qa != "never":
                            envv.pop(CUR, None)
                        flag["consumed"] = True
                        return (True, ("adt", 1, (None,)))
                if qa == "never":
                    if len(shapes_a) == 1:
                        return (True, self.shape_value(next(iter(shapes_a))))
                    return (True, None)
                envv.pop(CUR, None)
                return (True, None)
            return None
        return m

    def query(self, g, cur, mode):
        key = (g, cur, mode)
        if key in self.memo:
            return self.memo[key]
        if key in self.inprog:
            return ("maybe", frozenset())
        self.inprog.add(key)
        try:
            body = self.lib.bodies[g]
            flag = {"consumed": False}
            pe = PE(body, self.model(mode, flag), eq_ok=self.eq_ok, max_states=30000)
            pe.visit_hook = lambda bb, env, first: "stop" if env.get(CONS) else None
            self.runs += 1
            try:
                res = pe.run(env={CUR: cur})
                rets = [(bb, v) for bb, v in res.returns]
                over = False
            except RuntimeError:
                rets, over = [], True
            shapes = frozenset(self.shape(body, v) for _, v in rets)
            rel = shapes if mode == "all" else frozenset(x for x in shapes if x != ("err",))
            if over:
                ans = ("maybe", shapes)
            elif not rel and (flag["consumed"] or not shapes):
                ans = ("must", shapes) if flag["consumed"] else ("never", shapes)
            elif not flag["consumed"]:
                ans = ("never", shapes)
            else:
                ans = ("maybe", shapes)
        finally:
            self.inprog.discard(key)
        self.memo[key] = ans
        return ans

    def mirrors(self, body, h, blocks):
        """Locals of type Option<u8> that, at the loop header, hold the answer of the most recent reader peek()/next()
        - i.e. the reader's current byte (`let mut cur = r.peek()?; while let Some(..) = cur { cur = r.next()?; }`)."""
        from lib.prov import Prov
        pr = Prov(body, common.LOOK)
        moving = {c.bb for c in body.calls if is_reader_next(c) or
                  ((c.name or "") in self.touches and not is_reader_peek(c) and not c.is_dyn())}
        out = []
        for l in range(body.arg_count + 1, len(body.raw["locals"])):
            if body.local_ty(l) != "std::option::Option<u8>":
                continue
            try:
                at = pr.place_origins(l, ())
            except Exception:
                continue
            calls = [body.call_at.get(a[1]) for a in at if a[0] == "call"]
            if not calls or len(calls) != len([a for a in at if a[0] != "via"]) or \
                    not all(c is not None and (is_reader_next(c) or is_reader_peek(c)) for c in calls):
                continue
            obbs = {c.bb for c in calls}
            if not (obbs - blocks) or not (obbs & blocks):
                continue            # set in front of the loop and refreshed inside it
            if (moving & blocks) - obbs:
                continue            # another call moves the reader inside the loop: the local may be stale
            stale = False
            for c in calls:
                if c.bb in blocks or c.target is None:
                    continue
                if (body.reachable(c.target, avoid={h}) & moving) - obbs:
                    stale = True
            if not stale:
                out.append(l)
        return out

    def loop_spins(self, body, h, blocks):
        """Current-byte values for which the loop can return to its header without having consumed."""
        out = []
        mir = self.mirrors(body, h, blocks)
        for cur in ALLCUR:
            flag = {"consumed": False}
            hits = []
            pe = PE(body, self.model("all", flag), eq_ok=self.eq_ok, max_states=30000)

            def hook(bb, env, first, hits=hits):
                if env.get(CONS):
                    return "stop"
                if bb == h and not first:
                    hits.append(bb)
                    return "stop"
                return None
            pe.visit_hook = hook
            self.runs += 1
            env0 = {CUR: cur}
            for l in mir:
                env0[l] = NONE if cur == EOF else some(cur)
            try:
                pe.run(start=h, env=env0)
            except RuntimeError:
                hits.append(-1)
            if hits:
                out.append(cur)
        return out


def shrink_blocks(b):
    return {c.bb for c in b.calls if any((c.name or "").endswith(s) for s in SHRINKERS)}


def progress(rep, ctx):
    lib = ctx.lib
    r = rep.rule("C05-PROGRESS", "every loop in the crate terminates: it is driven by a finite std/indexmap iterator "
                 "whose exhaustion leaves the loop, or every cycle shrinks a finite collection, or - for the loops of "
                 "the two hand-written parsers - for each of the 256 values of the reader's current byte and for end "
                 "of input the loop cannot come back to its header without having consumed a byte", floor=80,
                 analysis="A2 natural loops + iterator type census + A5 partial evaluation of every reader-driven loop "
                          "over an abstract one-byte-lookahead reader (current byte in 0..255 | EOF), with memoised "
                          "must/never/maybe consumption queries for the parser functions it calls (least fixpoint)")
    ar = AbstractReader(lib, ctx.cg)
    nloops = 0
    for name in sorted(lib.bodies):
        if not in_scope(name):
            continue
        b = lib.bodies[name]
        for h, blocks in sorted(b.loops().items()):
            nloops += 1
            key = "%s#loop@bb%d" % (name, h)
            where = b.where(h)
            drv = loop_driver(b, blocks, h)
            if drv:
                tys = [iter_type(c) for c in drv]
                tys = [_unbox(b, t) for t in tys]
                fin = [t for t in tys if finite_iterator(t)]
                if not fin:
                    fin = [t for t in tys if _generic_param_finite(lib, name, t)]
                if not fin:
                    # the loop was written in a helper that is new to the rules and was inlined here: its iterator
                    # parameter is judged at the helper's call sites
                    origin = b.raw["blocks"][h].get("inlined_from")
                    if origin:
                        fin = [t for t in tys if _generic_param_finite(lib, origin, t, exact=True)]
                if fin:
                    r.ok(key, "driven by %s" % fin[0][:90], where, nontrivial=False)
                elif name in LOOP_TABLE:
                    r.ok(key, "tabled: " + LOOP_TABLE[name], where, nontrivial=False)
                else:
                    r.bad(key, "driven by an iterator that is not known to be finite: %s" % tys, where)
                continue
            reads = [c for c in b.calls if c.bb in blocks and (is_reader_next(c) or is_reader_peek(c) or
                                                               ((c.name or "") in ar.touches and not c.is_dyn()))]
            if reads:
                spins = ar.loop_spins(b, h, blocks)
                if spins:
                    r.bad(key, "with the reader's current byte = %s the loop can come back to its header without "
                          "having consumed anything (%d such value(s)): jawk would spin forever on that input"
                          % (", ".join(curname(c) for c in spins[:8]), len(spins)), where)
                else:
                    r.ok(key, "for each of 256 byte values and EOF every cycle consumes or the loop is left", where)
                continue
            cons = shrink_blocks(b) & blocks
            back = [a for a in b.pred(h) if a in blocks]
            spin = []
            if h not in cons:
                r_ = b.reachable(h, avoid=cons | (set(range(b.n)) - blocks))
                spin = [a for a in back if a in r_ and a not in cons]
            if spin or not cons:
                r.bad(key, "a loop that is neither iterator-driven nor reader-driven and has a cycle that shrinks no "
                      "collection: unrecognised idiom, it may not terminate", where)
            else:
                r.ok(key, "every cycle pops from a finite collection", where)
    r.note("%d loops; %d partial evaluations; %d memoised consumption queries" % (nloops, ar.runs, len(ar.memo)))
    return r, ar


def recover_consumes(rep, ctx, ar=None):
    """Before a recoverable parse error is returned at least one byte has been consumed (the read loop retries)."""
    lib = ctx.lib
    r = rep.rule("C05-ERROR-CONSUMES", "Master::read_input retries after a recoverable error, so next_json_value must "
                 "have consumed at least one byte before any return (value or error) whenever input remains; at end "
                 "of input it returns Ok(None) and nothing else", floor=2,
                 analysis="A5 consumption query (mode all) on next_json_value for each of the 256 current-byte values "
                          "and EOF")
    ar = ar or AbstractReader(lib, ctx.cg)
    target = None
    for n in lib.bodies:
        if n.endswith("::next_json_value") and "JsonParser" in n:
            target = n
    if target is None:
        r.missing("next_json_value")
        return
    b = lib.bodies[target]
    bad = []
    for cur in ALLCUR[:-1]:
        q, shapes = ar.query(target, cur, "all")
        if q != "must":
            bad.append((cur, sorted(shapes)))
    if bad:
        r.bad("next_json_value[bytes]", "with current byte %s next_json_value can return %s without having consumed "
              "a byte (%d such byte value(s)): under --on-error ignore/stdout/stderr the read loop retries the same "
              "byte forever" % (curname(bad[0][0]), bad[0][1], len(bad)), b.where())
    else:
        r.ok("next_json_value[bytes]", "for each of the 256 byte values every return has consumed at least one byte",
             b.where())
    q, shapes = ar.query(target, EOF, "all")
    if q == "never" and shapes == frozenset([("ok-none",)]):
        r.ok("next_json_value[EOF]", "returns Ok(None)", b.where())
    else:
        r.bad("next_json_value[EOF]", "at end of input next_json_value returns %s (expected only Ok(None))"
              % sorted(shapes), b.where())


def reentry(rep, ctx):
    lib = ctx.lib
    r = rep.rule("C05-REENTRY", "evaluation re-enters a getter taken from the run-time macro table "
                 "(Context::get_definition) only under a depth bound", floor=2,
                 analysis="A1 callers of Context::get_definition + A4 receiver provenance (through and_then/map "
                          "closures) + A2 guard dominance")
    sites = []
    for n, b in sorted(lib.bodies.items()):
        if not in_scope(n):
            continue
        gd = [c for c in b.calls if (c.name or "").endswith("Context::get_definition")]
        if not gd:
            continue
        pr = Prov(b, common.LOOK)
        # direct calls
        for c in b.calls:
            if c.trait == common.GET_TRAIT and c.args and any(
                    a[0] == "call" and b.call_at[a[1]] in gd for a in pr.origins(c.args[0])):
                sites.append((n, b, c))
        # closures given the definition (and_then / map / map_or ...)
        for c in b.calls:
            if not any(a.get("k") in ("copy", "move") and any(
                    x[0] == "call" and b.call_at[x[1]] in gd for x in pr.origins(a)) for a in c.args[:1]):
                continue
            for a in c.args[1:]:
                for x in pr.origins(a):
                    if x[0] == "agg":
                        rv = b.stmts(x[1])[x[2]]["rv"]
                        cb = lib.bodies.get(rv.get("closure") or "")
                        if cb is None:
                            continue
                        cpr = Prov(cb, common.LOOK)
                        for cc in cb.calls:
                            if cc.trait == common.GET_TRAIT and cc.args and any(
                                    y[0] == "arg" and y[1] == 2 for y in cpr.origins(cc.args[0])):
                                sites.append((cb.name, cb, cc))
    for n, b, c in sites:
        key = "macro-call@" + n
        # a depth guard: the call is dominated by the true/false edge of an integer comparison with a constant
        guarded = False
        from rules.panic_rules import bool_switches, def_of, through_copies
        for bb, dl, tt, ft in bool_switches(b):
            d = def_of(b, through_copies(b, dl))
            if d and d[0] == "rv" and d[3]["k"] == "binop" and d[3]["op"] in ("Lt", "Le", "Gt", "Ge") and \
                    (d[3]["a"].get("k") == "const" or d[3]["b"].get("k") == "const"):
                if b.edge_dominates((bb, tt), c.bb) or b.edge_dominates((bb, ft), c.bb):
                    guarded = True
        if guarded:
            r.ok(key, "re-entry behind an integer bound", c.where())
        else:
            r.bad(key, "a macro body fetched from the run-time definition table is evaluated with no depth bound: a "
                  "macro that mentions itself (define \"a\" @a @a) recurses until the stack overflows (abort)",
                  c.where())
    return r


CNT = -10


def _count_sets(ar, g, cur, memo, inprog):
    """Set of (consumed bytes, return shape) possible at the returns of g entered with current byte `cur`, reads
    never failing; consumed = 0, 1, 2 (two or more) or -1 (not determined by `cur`)."""
    key = (g, cur)
    if key in memo:
        return memo[key]
    if key in inprog:
        return frozenset([(-1, ("unknown",))])
    inprog.add(key)
    body = ar.lib.bodies[g]
    outs = set()

    def model(c, av, envv, pe):
        n = c.name or ""
        cv = envv.get(CUR)
        k = envv.get(CNT, ("i", 0))[1]
        if is_reader_next(c):
            if cv == EOF:
                return (True, OK(NONE))
            envv[CNT] = ("i", k if k < 0 else min(k + 1, 2))
            envv.pop(CUR, None)
            return (True, ("adt", 0, (None,)))
        if is_reader_peek(c):
            if cv == EOF:
                return (True, OK(NONE))
            return (True, OK(some(cv)) if cv is not None else ("adt", 0, (None,)))
        if n in ar.touches and n in ar.lib.bodies and not c.is_dyn():
            if cv is None:
                envv[CNT] = ("i", -1)
                return None
            cs = _count_sets(ar, n, cv, memo, inprog)
            counts = {x[0] for x in cs}
            shapes = {x[1] for x in cs}
            if len(counts) == 1 and -1 not in counts:
                add = next(iter(counts))
                envv[CNT] = ("i", k if k < 0 else min(k + add, 2))
                if add:
                    envv.pop(CUR, None)
            else:
                envv[CNT] = ("i", -1)
                envv.pop(CUR, None)
            if len(shapes) == 1:
                return (True, ar.shape_value(next(iter(shapes))))
            return (True, None)
        return None
    pe = PE(body, model, eq_ok=ar.eq_ok, max_states=30000)

    def hook(bb, e, first):
        if body.term(bb)["k"] == "return":
            outs.add((e.get(CNT, ("i", 0))[1], ar.shape(body, e.get(0))))
        return None
    pe.visit_hook = hook
    try:
        pe.run(env={CUR: cur})
        ans = frozenset(outs)
    except RuntimeError:
        ans = frozenset([(-1, ("unknown",))])
    inprog.discard(key)
    memo[key] = ans
    return ans


def resync_one_byte(rep, ctx, ar=None, rid="C06-RESYNC-ONE-BYTE"):
    """A byte that cannot start a JSON value costs exactly one byte of input."""
    lib = ctx.lib
    r = rep.rule(rid, "for every byte that can neither start a JSON value nor is insignificant whitespace, "
                 "next_json_value consumes exactly that one byte before it returns its error (no more: the next value "
                 "must not be eaten; no less: the retry loop must advance)", floor=1,
                 analysis="A5 partial evaluation over the abstract reader counting consumed bytes, through the helper "
                          "functions it calls; 234 byte values")
    ar = ar or AbstractReader(lib, ctx.cg)
    target = None
    for n in lib.bodies:
        if n.endswith("::next_json_value") and "JsonParser" in n:
            target = n
    if target is None:
        r.missing("next_json_value")
        return
    b = lib.bodies[target]
    starts = set(b"tfn\"-0123456789[{") | {0x20, 0x09, 0x0A, 0x0D}
    memo, inprog = {}, set()
    wrong = []
    for v in range(256):
        if v in starts:
            continue
        cs = _count_sets(ar, target, ("i", v), memo, inprog)
        if {x[0] for x in cs} != {1} or {x[1] for x in cs} != {("err",)}:
            wrong.append((v, sorted((x[0], x[1][0]) for x in cs)))
    if wrong:
        v, cs = wrong[0]
        r.bad("next_json_value[noise bytes]", "for the byte %s the number of bytes consumed before the error is "
              "returned can be %s (count, outcome; 2 = two or more, -1 = not determined by that byte); expected "
              "exactly (1, err) (%d byte value(s) affected)" % (curname(("i", v)), cs, len(wrong)), b.where())
    else:
        r.ok("next_json_value[noise bytes]", "each of the %d noise byte values costs exactly one byte" % (256 - len(starts)),
             b.where())

"""C12 — bindings are lexical and transparent; pipes and later selects keep their inputs."""
import re
from lib.prov import Prov
from rules import common
from rules import pipeline_rules as P

INFO = {
    "decided": "The frame condition of every derived-context constructor of Context (6 constructors x 7 fields): a "
               "field is either the same field of self, or the one thing the constructor exists to change; an "
               "extended collection (results, variables, definitions) is the old content plus the new entry, the "
               "new entry is added unconditionally and last (so it shadows, and is never overwritten by, an older "
               "entry of the same name); with_inupt makes [old input] ++ [old parents] the new parent chain, "
               "unconditionally; set/define evaluate their body in the derived context and their name/value "
               "arguments in the incoming one; the pipe threads each stage's value through with_inupt. The --set stage is the outermost stage of the pipeline, so --set bindings are in scope for --split-by, --filter and every --select. Every Clone impl of the data types is field-wise; a --set macro keeps the getter parsed from its body; Context::build is the object of the selections whenever there are selections. The scope of variables and of macros is a keyed map whose insert replaces (or a sequence searched from its newest entry), so an inner binding shadows an outer one of the same name.",
    "not_decided": "The lookup semantics of :n / @n / ^ on run-time values (substitution equivalence as a whole).",
    "trusted": ["sa/tables/context_frame.toml", "std collections: push/insert add, clone copies"],
}

LOOKX = common.LOOK + ("Iterator>::next", "IntoIterator>::into_iter", "]>::iter", "::iter", "Rc::<T>::new",
                       "ToOwned>::to_owned", "Iterator>::map", "Iterator>::cloned", "Iterator>::copied", "Iterator>::chain",
                       "Iterator>::rev", "HashMap::<K, V, S>::iter", "Vec::<T, A>::iter",
                       "iter::Iterator::map", "iter::Iterator::cloned", "iter::Iterator::copied",
                       "iter::Iterator::chain", "iter::Iterator::rev", "iter::IntoIterator::into_iter")
MUTATORS_ADD = ("push", "insert", "extend", "extend_from_slice", "push_back", "push_front", "insert_mut", "append")
BULK = ("::extend", "::extend_from_slice", "::append")
MUTATORS_DEL = ("remove", "clear", "retain", "truncate", "pop", "drain", "swap_remove", "shift_remove", "take",
                "split_off", "dedup")


def _field_atoms(atoms, lib, body, pr, fidx_input):
    """Normalise atoms: Context::input(self) == self.input."""
    out = set()
    for a in atoms:
        if a[0] in ("via", "op"):
            continue
        if a[0] == "call":
            c = body.call_at[a[1]]
            if c.name == "processor::Context::input":
                if any(x[0] == "arg" and x[1] == 1 and not x[2] for x in pr.call_arg_origins(c, 0)):
                    out.add(("arg", 1, ("f%d" % fidx_input,)))
                    continue
        out.add(a)
    return out


def run(ctx, rep):
    from rules import c11 as _c11
    _c11.get_pure(rep, ctx.lib)
    # bindings made by --set are in scope for every option: the --set stage is outermost (shared with C03)
    from rules import pipeline_rules as _P
    _P.order(rep, ctx.lib)
    _r = rep.rules[-1]
    _r.instances = [i for i in _r.instances if "PreSetCollection" in i["key"] or i["key"].startswith("anchor-missing")]
    _r.floor = 1
    lib = ctx.lib
    tab = common.table("context_frame.toml")
    cadt = lib.adts.get("processor::Context")
    r = rep.rule("C12-FRAME", "each derived-context constructor changes only the field it exists to change; every "
                 "other field is the same field of self", floor=42,
                 analysis="A6 struct-aggregate frame analysis (A4 provenance per field operand); oracle sa/tables/context_frame.toml")
    r2 = rep.rule("C12-EXTEND", "an extended collection keeps the old content and adds the new entry unconditionally "
                  "and last; with_inupt's parent chain is the old input followed by the old parents", floor=4,
                  analysis="A4 provenance of mutation calls + A2 must-pass / reachability")
    if not cadt:
        r.missing("processor::Context")
        return
    fields = [f["name"] for f in cadt["variants"][0]["fields"]]
    fi_input = fields.index("input")
    for ctor, spec in tab.items():
        b = lib.body("processor::Context::" + ctor)
        if b is None:
            r.missing("Context::" + ctor)
            continue
        siblings = tuple("processor::Context::" + c for c in tab)
        if common.needs_sroa(b, "processor::Context", siblings):
            # the result is built in steps (a cloning helper plus field assignments, or a sibling constructor):
            # bring it to the one-aggregate shape by inlining the sibling and scalar replacement of the result
            b = common.sroa_ctor(lib, b, "processor::Context", siblings)
        aggs = [(bb, idx, rv) for bb, idx, place, rv, _ in b.assignments()
                if rv["k"] == "agg" and rv.get("adt") == "processor::Context" and place["l"] in common.ret_locals(b)
                and not place["p"]]
        if len(aggs) != 1:
            r.bad(ctor + "#aggregate", "expected one Context aggregate assigned to the return place, found %d"
                  % len(aggs), b.where())
            continue
        bb, idx, rv = aggs[0]
        pr = Prov(b, LOOKX)
        if set(fields) != set(spec):
            r.bad(ctor + "#fields", "Context has fields %s, the frame table lists %s: a new field must be given a "
                  "frame rule" % (fields, sorted(spec)), b.where())
            continue
        for fi, fname in enumerate(fields):
            want = spec[fname]
            atoms = _field_atoms(pr._rv_origins_at({"k": "use", "op": rv["ops"][fi]}, (), bb, idx, set()),
                                 lib, b, pr, fi_input)
            self_same = {a for a in atoms if a[0] == "arg" and a[1] == 1 and a[2] and a[2][0] == "f%d" % fi}
            self_other = {a for a in atoms if a[0] == "arg" and a[1] == 1 and not (a[2] and a[2][0] == "f%d" % fi)}
            params = {a for a in atoms if a[0] == "arg" and a[1] >= 2}
            calls = {b.call_at[a[1]].name for a in atoms if a[0] == "call"}
            outp = [a for a in atoms if a[0] == "outparam"]
            key = "%s.%s" % (ctor, fname)
            where = b.where(bb)
            if want == "copied":
                if self_same and not self_other and not params and not calls and not outp:
                    r.ok(key, "copied from self.%s" % fname, where)
                else:
                    what = "is rebuilt from %s" % sorted(calls) if calls and not self_same else \
                        "also depends on %s" % (sorted(calls) or sorted(map(str, params | self_other)) or "a mutation")
                    r.bad(key, "%s must leave `%s` as it is, but the field %s: an expression evaluated in the "
                          "derived context observes a different %s" % (ctor, fname, what, fname), where)
            elif want == "param":
                if params and not self_other and not self_same and not outp and not calls:
                    r.ok(key, "replaced by the parameter", where)
                else:
                    r.bad(key, "`%s` should be the constructor's parameter (origins: %s)" % (fname, sorted(map(str, atoms))[:4]), where)
            elif want == "reset":
                if not self_same and not self_other and not params and not outp and \
                        all(n.endswith("::new") or n.endswith("::default") for n in calls):
                    r.ok(key, "reset to empty (tabled semantics of entering a sub-input)", where, nontrivial=False)
                else:
                    r.bad(key, "`%s` is tabled as reset-to-empty in %s, found origins %s" % (fname, ctor, sorted(map(str, atoms))[:4]), where)
            elif want in ("extend", "parents"):
                _extend(r, r2, key, want, b, pr, rv["ops"][fi], bb, idx, fi, fi_input, fields, lib)
    ctor_census(rep, lib, tab, fields)
    common.clone_faithful(rep, lib)
    scope_lookup(rep, lib)
    macro_unevaluated(rep, lib)
    build_shape(rep, lib)
    # ------------------------------------------------------------ BODY-IN-NEW / PIPE
    r3 = rep.rule("C12-BODY-IN-NEW", "set / define evaluate their last argument in the context returned by "
                  "with_variable / with_definition and their first two arguments in the incoming context", floor=2,
                  analysis="A4 provenance of the context argument of each Arguments::apply / Get::get call")
    for fn, ctor in (("set", "with_variable"), ("define", "with_definition")):
        bs = [bd for n, bd in lib.bodies.items() if n.startswith("<functions::variables::%s::" % fn)
              and n.endswith("as selection::Get>::get")]
        key = "variables::%s" % fn
        if not bs:
            r3.missing(key)
            continue
        b = bs[0]
        pr = Prov(b, common.LOOK)
        ctors = [c for c in b.calls if c.name == "processor::Context::" + ctor]
        if len(ctors) != 1:
            r3.bad(key, "expected one call of Context::%s, found %d" % (ctor, len(ctors)), b.where())
            continue
        evals = [c for c in b.calls if (c.callee or "").endswith("Arguments::apply") or
                 (c.callee or "") == "selection::Get::get"]
        in_new, in_old = [], []
        for c in evals:
            ctx_arg = 1
            srcs = pr.call_arg_origins(c, ctx_arg)
            if any(a[0] == "call" and a[1] == ctors[0].bb for a in srcs):
                in_new.append(c)
            elif any(a[0] == "arg" and a[1] == 2 for a in srcs):
                in_old.append(c)
        # the new context must itself derive from the incoming one
        base_ok = any(a[0] == "arg" and a[1] == 2 for a in pr.call_arg_origins(ctors[0], 0))
        if len(in_new) >= 1 and len(in_old) >= 1 and base_ok and len(in_new) + len(in_old) == len(evals):
            r3.ok(key, "%d argument(s) in the incoming context, body in Context::%s(..)" % (len(in_old), ctor),
                  ctors[0].where())
        else:
            r3.bad(key, "argument evaluation contexts: %d in the derived context, %d in the incoming one, %d other; "
                   "derived-from-incoming=%s" % (len(in_new), len(in_old), len(evals) - len(in_new) - len(in_old), base_ok),
                   b.where())
    r4 = rep.rule("C12-PIPE", "(| a b ...) evaluates every later stage in with_inupt(previous value) of the "
                  "context it received", floor=1, analysis="A4 provenance")
    bs = [bd for n, bd in lib.bodies.items() if n.startswith("<functions::basic::flow::pipe::")
          and n.endswith("as selection::Get>::get")]
    if not bs:
        r4.missing("functions::basic::flow::pipe")
    else:
        b = bs[0]
        wi = [c for c in b.calls if c.name == "processor::Context::with_inupt"]
        gets = [c for c in b.calls if (c.callee or "") == "selection::Get::get"]
        pr = Prov(b, common.LOOK)
        if not wi or not gets:
            r4.bad("pipe", "the pipe does not derive a context with with_inupt / evaluate its stages", b.where())
        else:
            # every Get::get context is either the incoming one or a with_inupt result; with_inupt's value argument
            # comes from a previous Get::get
            good = True
            for c in gets:
                srcs = pr.call_arg_origins(c, 1)
                if not any((a[0] == "arg" and a[1] == 2) or (a[0] == "call" and b.call_at[a[1]] in wi) for a in srcs):
                    good = False
            for c in wi:
                vs = pr.call_arg_origins(c, 1)
                from_stage = any(a[0] == "call" and b.call_at[a[1]] in gets for a in vs)
                from_input = any(a[0] == "call" and b.call_at[a[1]].name == "processor::Context::input" for a in vs)
                base = any((a[0] == "arg" and a[1] == 2) or (a[0] == "call" and b.call_at[a[1]] in wi)
                           for a in pr.call_arg_origins(c, 0))
                if not (from_stage or from_input) or not base:
                    good = False
            # path clause: a stage evaluated inside the loop over the stages hands its value on through with_inupt
            # on EVERY way back to the loop header - a way round the loop that skips it (a "value unchanged" fast
            # path) evaluates the next stage without the previous one in the chain of parents (seed C12-r10-1)
            skipped = None
            wib = {c.bb for c in wi}
            loops = b.loops()
            for c in gets:
                for h, blocks in loops.items():
                    if c.bb not in blocks:
                        continue
                    starts = [c.target] if c.target is not None else []
                    for s0 in starts:
                        if s0 in wib:
                            continue
                        if h in b.reachable(s0, avoid=wib):
                            p = b.path(s0, h, avoid=wib)
                            skipped = (c, h, p)
            if skipped is not None:
                good = None
                c, h, p = skipped
                r4.bad("pipe", "after the stage evaluation at line %s the loop over the stages can go round again "
                       "without with_inupt (blocks %s): the next stage is evaluated in a context that does not have the "
                       "previous stage as its input / parent" % (c.line, p), b.where(c.bb))
            if good is None:
                pass
            elif good:
                r4.ok("pipe", "%d with_inupt site(s), %d stage evaluation(s)" % (len(wi), len(gets)), b.where())
            else:
                r4.bad("pipe", "a pipe stage is not evaluated in with_inupt(previous stage's value)", b.where())



FRESH_CTORS = ("processor::Context::new_empty", "processor::Context::new_with_no_context",
               "processor::Context::new_with_input")
ENV_FIELDS = ("variables", "definitions", "input_context", "regex_cache")


def ctor_census(rep, lib, tab, fields, rid="C12-CTOR-CENSUS"):
    """Every place that builds a Context. The frame table speaks about the six derived constructors by name; a
    seventh way of deriving a context (a new constructor, a closure that builds the contexts of the elements of a
    split) is held to the part of the frame condition that no derived constructor may break: the bindings and the
    environment (variables, definitions, input_context, regex_cache) are never taken from a fresh context."""
    r = rep.rule(rid, "a Context is built only by the three fresh constructors and the six tabled derived "
                 "constructors; any other place that builds one from an existing context (a Context is a parameter of "
                 "the function, or of the function a closure is written in) does not take variables, definitions, "
                 "input_context or regex_cache from a fresh context: macros and variables bound outside stay bound in "
                 "the derived context", floor=1,
                 analysis="A7 census of Context aggregates over the functions as written (closures included) + A4 "
                          "provenance of the four environment operands of every untabled site")
    raw = lib.raw_view() if hasattr(lib, "raw_view") else lib
    tabled = set(FRESH_CTORS) | {"processor::Context::" + c for c in tab}
    for name, b in sorted(raw.bodies.items()):
        sites = [(bb, idx, rv) for bb, idx, place, rv, _ in b.assignments()
                 if rv["k"] == "agg" and rv.get("adt") == "processor::Context"]
        if not sites:
            continue
        if name in tabled:
            r.ok(name.rsplit("::", 1)[-1], "tabled constructor (%d aggregate)" % len(sites), b.where(),
                 nontrivial=False)
            continue
        owner = name.split("::{closure")[0]
        scope = [b] + ([raw.bodies[owner]] if owner != name and owner in raw.bodies else [])
        has_ctx = any("processor::Context" in (l.get("ty") or "")
                      for sb in scope for l in sb.raw["locals"][1:1 + sb.raw["arg_count"]])
        if not has_ctx:
            r.ok(name + "#fresh", "builds a context from nothing (no Context in scope): a fresh constructor",
                 b.where(), nontrivial=False)
            continue
        pr = Prov(b, LOOKX)
        for n, (bb, idx, rv) in enumerate(sites):
            by_name = dict(zip(rv.get("fields") or fields, rv["ops"]))
            for f in ENV_FIELDS:
                key = "%s#%d.%s" % (name, n, f)
                if f not in by_name:
                    continue
                atoms = pr._rv_origins_at({"k": "use", "op": by_name[f]}, (), bb, idx, set())
                fresh = sorted({b.call_at[a[1]].name or "?" for a in atoms if a[0] == "call"
                                and ((b.call_at[a[1]].name or "").startswith("processor::Context::new")
                                     or (b.call_at[a[1]].name or "").endswith(("::new", "::default", "::new_empty")))})
                if fresh:
                    r.bad(key, "a context derived from an existing one takes `%s` from %s: what was bound / known "
                          "outside (macros, variables, the input's position, the regex cache) is lost in the derived "
                          "context" % (f, fresh), b.where(bb))
                else:
                    r.ok(key, "not reset", b.where(bb))


def scope_lookup(rep, lib, rid="C12-SHADOW"):
    """An inner binding of a name shadows the outer one: the scope is a keyed map (insert replaces the entry), or - if
    it is a sequence that keeps both - the lookup takes the innermost, i.e. searches from the end it is extended at."""
    r = rep.rule(rid, "a binding shadows an outer binding of the same name: variables and macros live in a keyed map "
                 "whose insert replaces, or the lookup of a sequence scope searches from the newest entry", floor=2,
                 analysis="A7 type of the scope fields + census of the search direction in the lookup functions")
    cadt = lib.adts.get("processor::Context")
    if not cadt:
        r.missing("processor::Context")
        return
    ftys = {f["name"]: f["ty"] for f in cadt["variants"][0]["fields"]}
    for field, getter in (("variables", "get_variable_value"), ("definitions", "get_definition")):
        ty = ftys.get(field)
        if ty is None:
            r.missing("Context.%s" % field)
            continue
        key = "Context.%s" % field
        if re.search(r"(HashMap|IndexMap|BTreeMap)<std::string::String", ty) or re.search(r"(HashMap|IndexMap|BTreeMap)<std::rc::Rc<std::string::String", ty):
            r.ok(key, "keyed map: %s" % ty[:70], "", nontrivial=False)
            continue
        b = lib.bodies.get("processor::Context::" + getter)
        if b is None:
            r.bad(key, "the scope is %s (not a keyed map) and its lookup function %s was not found" % (ty[:80], getter), "")
            continue
        names = [(c.callee or c.name or "") for c in b.calls]
        backwards = any(n.endswith(("Iterator::rev", "DoubleEndedIterator::rfind", "Iterator::rposition",
                                    "DoubleEndedIterator::next_back", "::rfind", "::last")) for n in names)
        ctor = lib.bodies.get("processor::Context::" + ("with_variable" if field == "variables" else "with_definition"))
        front = ctor is not None and any((c.name or "").endswith(("::insert", "::push_front")) and "Vec" in (c.name or "") + (c.full or "")
                                         or (c.name or "").endswith("::push_front") for c in ctor.calls)
        if backwards != front:
            r.ok(key, "sequence scope searched from the newest entry", b.where())
        else:
            r.bad(key, "the scope is a sequence (%s) that keeps an outer and an inner binding of the same name, and "
                  "%s finds the %s one: (set n 1 (set n 2 :n)) sees the outer value" % (ty[:70], getter,
                                                                                         "older" if not front else "older"),
                  b.where())


def _container_locals(b, pr, operand, bb, idx):
    """Follow moves / Rc::new / borrows back to the local(s) that are mutated through &mut (have outparam atoms).
    Definitions are the ones that reach the point of use; where several reach it (the value is chosen by a branch)
    every one of them is followed. None if some way back does not end in a collection that is built here."""
    place = operand.get("place")
    if not place:
        return None
    found = []
    seen = set()
    work = [(place["l"], (bb, idx))]
    while work:
        l, at = work.pop()
        if (l, at) in seen:
            continue
        seen.add((l, at))
        if len(seen) > 64:
            return None
        if pr.outparams.get(l):
            if l not in found:
                found.append(l)
            continue
        try:
            sites = pr.reaching(l, at[0], at[1])
        except Exception:
            sites = None
        if not sites:
            sites = pr._def_sites(l)
        nxts = []
        for sbb, spos, kind, payload in sites:
            if kind == "assign":
                rv = payload[1]
                if rv["k"] == "use" and rv["op"].get("k") in ("move", "copy"):
                    nxts.append((rv["op"]["place"]["l"], (sbb, spos)))
                elif rv["k"] == "ref" and all(x == "deref" for x in rv["place"]["p"]):
                    nxts.append((rv["place"]["l"], (sbb, spos)))      # `&x` handed to a sibling constructor
                else:
                    nxts.append(None)
            else:
                c = b.call_at[sbb]
                if pr._is_look_through(c) and c.args and c.args[0].get("k") in ("move", "copy"):
                    nxts.append((c.args[0]["place"]["l"], (sbb, len(b.stmts(sbb)))))
                else:
                    nxts.append(None)
        if not nxts or any(n is None for n in nxts):
            if len(sites) > 1:
                return None        # one of several ways back is not a collection built here
            return None if not found and not work else (found or None) if False else None
        work.extend(nxts)
    return found or None


def _container_local(b, pr, operand, bb, idx):
    cls = _container_locals(b, pr, operand, bb, idx)
    return cls[0] if cls else None


class _Rec:
    """Collects the verdicts of one way back; the caller emits the worst."""
    def __init__(self):
        self.items = []

    def ok(self, key, detail, where="", **kw):
        self.items.append(("ok", key, detail, where, kw))

    def bad(self, key, detail, where="", **kw):
        self.items.append(("bad", key, detail, where, kw))


def _extend(r, r2, key, want, b, pr, operand, bb, idx, fi, fi_input, fields, lib):
    cls = _container_locals(b, pr, operand, bb, idx)
    if not cls or len(cls) == 1:
        return _extend_one(r, r2, key, want, b, pr, operand, bb, idx, fi, fi_input, fields, lib,
                           cls[0] if cls else None)
    # the collection is chosen by a branch: every alternative must satisfy the rule
    recs = []
    for cl in cls:
        a, a2 = _Rec(), _Rec()
        _extend_one(a, a2, key, want, b, pr, operand, bb, idx, fi, fi_input, fields, lib, cl)
        recs.append((a, a2))
    for target, pick in ((r, 0), (r2, 1)):
        items = [it for rec in recs for it in rec[pick].items]
        bads = [it for it in items if it[0] == "bad"]
        chosen = bads[:1] or items[:1]
        for verdict, k, detail, where, kw in chosen:
            (target.bad if verdict == "bad" else target.ok)(k, detail, where, **kw)


def _extend_one(r, r2, key, want, b, pr, operand, bb, idx, fi, fi_input, fields, lib, cl):
    where = b.where(bb)
    if cl is None and want == "parents":
        # `once(self.input.clone()).chain(self.parent_inputs.iter().cloned()).collect()`
        parts = _collected_parts(b, pr, operand, lib, fi_input)
        if parts is not None:
            def has(at, f):
                return any(a[0] == "arg" and a[1] == 1 and a[2] and a[2][0] == "f%d" % f for a in at)
            if len(parts) == 2 and parts[0][0] == "one" and has(parts[0][1], fi_input) and not has(parts[0][1], fi) \
                    and parts[1][0] == "all" and has(parts[1][1], fi) and not has(parts[1][1], fi_input):
                r.ok(key, "[self.input] ++ self.parent_inputs (collected from once(..).chain(..))", where)
                r2.ok(key, "input first, then every old parent", where)
            else:
                r.bad(key, "the new parent chain is not once(self.input) followed by all of self.parent_inputs: %s"
                      % [(k, sorted(map(str, at))[:3]) for k, at in parts], where)
            return
    if cl is None:
        r.bad(key, "cannot find the collection that is extended (unrecognised idiom)", where)
        return
    muts = [(b.call_at[mbb], ai) for mbb, ai in pr.outparams.get(cl, [])]
    adds, dels = [], []
    for c, ai in muts:
        t = (c.name or "").rsplit("::", 1)[-1]
        if t in MUTATORS_DEL:
            dels.append(c)
        elif t in MUTATORS_ADD:
            adds.append(c)
    if dels:
        r.bad(key, "the collection is shrunk with %s" % dels[0].name, dels[0].where())
        return

    def expand(atoms, depth=0):
        out = set()
        for a in atoms:
            if a[0] == "agg" and depth < 4:
                rv = b.stmts(a[1])[a[2]]["rv"]
                for o in rv["ops"]:
                    out |= expand(pr._rv_origins_at({"k": "use", "op": o}, (), a[1], a[2], set()), depth + 1)
            else:
                out.add(a)
        return out

    def arg_atoms(c):
        out = set()
        for i in range(1, len(c.args)):
            at = expand(pr.call_arg_origins(c, i))
            if not _maps_keep_elements(b, pr, at, lib):
                # an iterator whose elements are rewritten by a closure that does more than clone its argument:
                # what is added is not (known to be) the old content
                at = {a for a in at if a[0] != "arg"} | {("call", -1, ())}
            out |= _field_atoms(at, lib, b, pr, fi_input)
        return out
    base = _field_atoms(pr.place_origins(cl, ()), lib, b, pr, fi_input)
    base_self = any(a[0] == "arg" and a[1] == 1 and a[2] and a[2][0] == "f%d" % fi for a in base)
    if want == "extend":
        new = [c for c in adds if any(a[0] == "arg" and a[1] >= 2 for a in arg_atoms(c))]
        old = [c for c in adds if c not in new and any(a[0] == "arg" and a[1] == 1 and a[2] and a[2][0] == "f%d" % fi
                                                       for a in arg_atoms(c))]
        if not new:
            r.bad(key, "the new entry (built from the parameters) is never added", where)
            return
        if not base_self and not old:
            r.bad(key, "the old content of self.%s is not carried over" % fields[fi], where)
            return
        r.ok(key, "self.%s plus the new entry" % fields[fi], where)
        esc = P.non_error_escape(b, [c.bb for c in new])
        if esc:
            r2.bad(key + "#unconditional", "the new entry is not added on every path: a binding / selected value can "
                   "silently be missing (e.g. absent values no longer occupy their column)", new[0].where(),
                   witness=P.witness(b, 0, esc[0], [c.bb for c in new]))
            return
        later = [c for c in adds if any(c.bb in b.reachable(n.target) for n in new if n.target is not None)
                 and c not in new]
        if later or any(n.bb in b.reachable(n.target) for n in new if n.target is not None):
            r2.bad(key + "#last", "entries are added after the new binding (%s): an older entry of the same name "
                   "overwrites the new one, so the inner binding does not shadow the outer"
                   % (later[0].name if later else "loop"), (later or new)[0].where())
            return
        r2.ok(key, "added unconditionally and last", new[0].where())
    else:  # parents
        first = [c for c in adds if any(a[0] == "arg" and a[1] == 1 and a[2] and a[2][0] == "f%d" % fi_input
                                        for a in arg_atoms(c))]
        rest = [c for c in adds if any(a[0] == "arg" and a[1] == 1 and a[2] and a[2][0] == "f%d" % fi
                                       for a in arg_atoms(c))]
        if not first or not rest:
            r.bad(key, "the new parent chain is not built from both self.input and self.parent_inputs "
                  "(input pushes: %d, parent pushes: %d)" % (len(first), len(rest)), where)
            return
        r.ok(key, "[self.input] ++ self.parent_inputs", where)
        esc = P.non_error_escape(b, [c.bb for c in first])
        if esc:
            r2.bad(key + "#unconditional", "the previous input is not always pushed as the nearest parent: `^` can "
                   "skip a level", first[0].where(), witness=P.witness(b, 0, esc[0], [c.bb for c in first]))
        elif not all(b.dominates(first[0].bb, c.bb) for c in rest):
            r2.bad(key + "#order", "the previous input is not the first element of the parent chain", first[0].where())
        elif any(not b.in_loop(c.bb) and not (c.name or "").endswith(BULK) for c in rest) or \
                any(_guarded_in_loop(b, c) for c in rest if not (c.name or "").endswith(BULK)) or \
                any((c.name or "").endswith(BULK) and not b.dominates(c.bb, bb) for c in rest):
            r2.bad(key + "#all-parents", "not every old parent is carried over", rest[0].where())
        else:
            r2.ok(key, "input first, then every old parent", first[0].where())


TRANSPARENT_ITER = ("Iterator::cloned", "Iterator>::cloned", "Iterator::copied", "Iterator>::copied",
                    "IntoIterator::into_iter", "IntoIterator>::into_iter", "::iter", "Iterator::by_ref")


def _collected_parts(b, pr, operand, lib, fi_input, depth=0):
    """[("one" | "all", atoms)] for a collection built by `<iterator expression>.collect()` (possibly wrapped by
    Rc::new / moves): once(x) is one element, chain(a, b) is a followed by b, iter()/cloned()/copied() yield all
    elements of what they are applied to, in order. None when the expression has another shape."""
    def single_def_call(op):
        place = op.get("place") if op else None
        if not place or place["p"]:
            return None
        l = place["l"]
        seen = set()
        while l not in seen:
            seen.add(l)
            sites = pr._def_sites(l)
            if len(sites) != 1:
                return None
            sbb, spos, kind, payload = sites[0]
            if kind == "assign":
                dproj, rv = payload
                if rv["k"] == "use" and rv["op"].get("k") in ("move", "copy") and not rv["op"]["place"]["p"]:
                    l = rv["op"]["place"]["l"]
                    continue
                return None
            return b.call_at[sbb]
        return None

    def parts(op, d=0):
        if d > 8:
            return None
        c = single_def_call(op)
        if c is None:
            at = _field_atoms(pr.origins(op), lib, b, pr, fi_input)
            return [("all", at)]
        n = c.name or ""
        cal = c.callee or ""
        if cal.endswith("Iterator::chain") and len(c.args) == 2:
            x, y = parts(c.args[0], d + 1), parts(c.args[1], d + 1)
            return None if x is None or y is None else x + y
        if n.endswith("iter::once") or n.endswith("iter::sources::once::once"):
            at = set()
            for a in pr.call_arg_origins(c, 0):
                at.add(a)
            return [("one", _field_atoms(at, lib, b, pr, fi_input))]
        if any(n.endswith(t) or cal.endswith(t) for t in TRANSPARENT_ITER) or \
                cal in ("std::ops::Deref::deref",) or n.endswith("Rc::<T>::new"):
            return parts(c.args[0], d + 1)
        return None
    c = single_def_call(operand)
    while c is not None and ((c.name or "").endswith("Rc::<T>::new")):
        c = single_def_call(c.args[0])
    if c is None or not (c.callee or "").endswith("Iterator::collect"):
        return None
    return parts(c.args[0])


def _maps_keep_elements(b, pr, atoms, lib):
    """Every `Iterator::map` the value was traced through has a closure whose result derives from its own parameter
    only (clones / tuples of it): the mapped iterator yields the same elements."""
    for a in atoms:
        if a[0] != "via" or not str(a[1]).endswith("Iterator::map") and not str(a[1]).endswith("Iterator>::map"):
            continue
        c = b.call_at.get(a[2])
        if c is None or len(c.args) < 2:
            return False
        clos = [x for x in pr.call_arg_origins(c, 1) if x[0] == "agg"]
        if len(clos) != 1:
            return False
        rv = b.stmts(clos[0][1])[clos[0][2]]["rv"]
        if rv.get("agg") != "closure" or rv.get("ops"):
            return False           # a capturing closure can bring other values in
        cb = lib.bodies.get(rv.get("closure")) or getattr(lib, "raw_bodies", {}).get(rv.get("closure"))
        if cb is None:
            return False
        cpr = Prov(cb, LOOKX)

        def flat(at, depth=0):
            out = set()
            for x in at:
                if x[0] == "agg" and depth < 4:
                    rv2 = cb.stmts(x[1])[x[2]]["rv"]
                    for o in rv2["ops"]:
                        out |= flat(cpr._rv_origins_at({"k": "use", "op": o}, (), x[1], x[2], set()), depth + 1)
                else:
                    out.add(x)
            return out
        res = flat(cpr.place_origins(0, ()))
        if not res or any(not (x[0] in ("via", "op") or (x[0] == "arg" and x[1] >= 2)) for x in res):
            return False
    return True


def _guarded_in_loop(b, c):
    """The push inside the copy loop must run on every iteration: from the loop's Some-edge every path
    to the back edge passes the push."""
    loops = [(h, blocks) for h, blocks in b.loops().items() if c.bb in blocks]
    if not loops:
        return True
    h, blocks = min(loops, key=lambda x: len(x[1]))
    # iterator next call in the loop
    nxt = [x for x in b.calls if x.bb in blocks and (x.callee or "").endswith("Iterator::next")]
    if not nxt or nxt[0].target is None:
        return True
    sw = nxt[0].target
    t = b.term(sw)
    if t["k"] != "switch":
        return True
    some_t = [tg for v, tg in t["arms"] if v == 1]
    if not some_t:
        return True
    # from the Some target, can we get back to the header without passing the push?
    reach = b.reachable(some_t[0], avoid={c.bb})
    return h in reach


def macro_unevaluated(rep, lib):
    """A macro given with --set @name=body is kept as its parsed body."""
    r = rep.rule("C12-MACRO-BODY", "PreSet::from_str stores, for `@name=body`, the getter read_getter parsed from the "
                 "body itself (not a value computed from it, not another getter): a macro is substituted, and its body "
                 "is evaluated in the context of every use", floor=1,
                 analysis="A4 provenance of the payload of Value::Macro")
    b = lib.bodies.get("<pre_sets::PreSet as std::str::FromStr>::from_str")
    if b is None:
        r.missing("PreSet::from_str")
        return r
    pr = Prov(b, LOOKX)
    aggs = [(bb, idx, rv) for bb, idx, place, rv, _ in b.assignments()
            if rv["k"] == "agg" and rv.get("adt") == "pre_sets::Value" and rv.get("variant_name") == "Macro"]
    if not aggs:
        r.missing("a Value::Macro aggregate in PreSet::from_str")
        return r
    for n, (bb, idx, rv) in enumerate(aggs):
        at = [a for a in pr._rv_origins_at({"k": "use", "op": rv["ops"][0]}, (), bb, idx, set()) if a[0] not in ("via", "op")]
        other = [a for a in at if not (a[0] == "call" and (b.call_at[a[1]].name or "").endswith("selection::read_getter"))]
        key = "from_str#Value::Macro[%d]" % n
        if at and not other:
            r.ok(key, "the getter parsed by read_getter", b.where(bb))
        else:
            r.bad(key, "the macro's body is replaced by something else than what read_getter parsed (%s): the macro is "
                  "no longer its text evaluated where it is used" % sorted(
                      (b.call_at[a[1]].name if a[0] == "call" else str(a[:2])) for a in other)[:3], b.where(bb))
    return r


def build_shape(rep, lib, rid="C12-BUILD-SHAPE"):
    """Context::build: the row is the object of the selected values whenever there are selections."""
    from lib.peval import PE
    r = rep.rule(rid, "Context::build returns the input value exactly when there is no selection; with selections it "
                 "returns the object built from them - also when every selected value is absent (an empty object), "
                 "never the raw input", floor=2, analysis="A5 partial evaluation of Context::build with the emptiness "
                                                          "of self.results (and of the object being built) seeded")
    b = lib.bodies.get("processor::Context::build")
    jv = lib.adts.get("json_value::JsonValue")
    if b is None or not jv:
        r.missing("Context::build")
        return r
    obj = [v["name"] for v in jv["variants"]].index("Object")
    for label, have_sel in (("no selection", False), ("selections, every value absent", True)):
        def model(c, av, envv, pe, have_sel=have_sel):
            n = c.name or ""
            ty0 = c.args[0].get("place", {}).get("ty", "") if c.args else ""
            on_results = "std::vec::Vec<(std::rc::Rc<std::string::String>" in ty0
            if n.endswith("::is_empty"):
                return (True, ("b", (not have_sel) if on_results else True))
            if n.endswith("::len"):
                return (True, ("i", (1 if have_sel else 0) if on_results else 0))
            return None
        try:
            res = PE(b, model, eq_ok=common.derived_eq_ok(lib), crate=lib).run()
        except RuntimeError:
            r.bad("build[%s]" % label, "not evaluated", b.where())
            continue
        vals = [v for _, v in res.returns]
        is_obj = [v is not None and v[0] == "adt" and v[1] == obj for v in vals]
        key = "build[%s]" % label
        if not vals:
            r.bad(key, "no return reached (unrecognised idiom)", b.where())
        elif have_sel and all(is_obj):
            r.ok(key, "JsonValue::Object(..)", b.where())
        elif have_sel:
            r.bad(key, "with selections whose values are all absent the row is not the (empty) object of the "
                  "selections: unselected members of the input leak into the row", b.where())
        elif any(is_obj):
            r.bad(key, "without any selection the row is a constructed object, not the input value", b.where())
        else:
            r.ok(key, "the input value", b.where())
    return r

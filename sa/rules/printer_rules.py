"""Rules about the JSON / text printers in output_style.rs (C02, C15; number printing shared with C19).

The central device is a *write trace*: a MIR body is partially evaluated (lib.peval) with the
values that decide its guards seeded (the current character, the --utf8-strings flag, the JSON
style, the variant of the value being printed ...), every `write!` on the explored path is joined
with its format_args template (post-expansion AST facts), and the text that path writes is
reconstructed from the literal pieces and the seeded values. Nothing of jawk is executed: only
the guards that depend on the seed are decided, everything else is explored on both edges and,
where a rule needs a single deterministic path, reported as an unrecognised idiom (fail closed).
"""
from lib.peval import PE, ok as OK, some, NONE
from lib.prov import Prov
from rules import common

UNIT = ("adt", 0, ())
JSONP = "<output_style::JsonOutputOptions as output_style::Print<W>>::"
TEXTP = "<output_style::TextPrinter as output_style::Print<W>>::"


# ------------------------------------------------------------------ helpers

def rust_str(s):
    """Decode the debug rendering of a &str constant ("..." with Rust escapes)."""
    if s is None or len(s) < 2 or s[0] != '"' or s[-1] != '"':
        return None
    s = s[1:-1]
    out = []
    i = 0
    while i < len(s):
        ch = s[i]
        if ch != "\\":
            out.append(ch)
            i += 1
            continue
        i += 1
        if i >= len(s):
            return None
        e = s[i]
        i += 1
        simple = {"n": "\n", "r": "\r", "t": "\t", "0": "\0", "\\": "\\", '"': '"', "'": "'"}
        if e in simple:
            out.append(simple[e])
        elif e == "x":
            out.append(chr(int(s[i:i + 2], 16)))
            i += 2
        elif e == "u":
            j = s.index("}", i)
            out.append(chr(int(s[i + 1:j], 16)))
            i = j + 1
        else:
            return None
    return "".join(out)


def fmt_index(lib):
    idx = getattr(lib, "_fmt_index", None)
    if idx is None:
        idx = {}
        for s in lib.fmt:
            l = s["loc"]
            idx.setdefault((l["file"], l["line"], l["col"]), []).append(s)
        lib._fmt_index = idx
    return idx


def fmt_site(lib, c):
    """format_args template of the write!/writeln! a write_fmt call belongs to (joined by macro call site)."""
    l = c.loc
    sites = fmt_index(lib).get((l["file"], l["line"], l.get("col")), [])
    return sites[0] if len(sites) == 1 else None


def is_write_fmt(c):
    n = c.callee or ""
    return n.endswith("::write_fmt")


def is_write_raw(c):
    """io::Write::write_all / write: bytes handed to the output as they are."""
    return (c.callee or "") in ("std::io::Write::write_all", "std::io::Write::write")


def is_fmt_arg(c):
    return (c.name or "").startswith("core::fmt::rt::Argument::<'_>::new_")


def is_writeln(c):
    return any(e == "macro:writeln" for e in c.exp)


class Trace:
    """Ordered events of one partial evaluation: ("write", Call, text-or-None, pieces) and ("call", Call, argvals)."""

    def __init__(self):
        self.events = []
        self.res = None
        self.deterministic = True
        self.fork = None

    def writes(self):
        return [e for e in self.events if e[0] == "write"]

    def text(self):
        out = []
        for e in self.writes():
            if e[2] is None:
                return None
            out.append(e[2])
        return "".join(out)

    def calls(self, *suffixes):
        out = []
        for e in self.events:
            if e[0] == "call":
                n = e[1].name or ""
                cal = e[1].callee or ""
                if any(n.endswith(s) or cal.endswith(s) for s in suffixes):
                    out.append(e)
        return out


def render(site, args):
    """Text written by one template given the evaluated arguments [(trait, type, value)], or None."""
    out = []
    for p in site["pieces"]:
        if "lit" in p:
            out.append(p["lit"])
            continue
        k = p["arg"]
        if k >= len(args):
            return None
        trait, ty, v = args[k]
        if v is None:
            return None
        flags_plain = not (p["precision"] or p["fill"] or p["align"] or p["sign"] or p["alternate"] or p["debug_hex"])
        if not flags_plain:
            return None
        if p["ph"] == "Display" and ty == "char" and v[0] == "i" and not p["width"]:
            out.append(chr(v[1]))
        elif p["ph"] == "Display" and v[0] == "i" and not p["width"] and ty != "char":
            out.append(str(v[1]))
        elif p["ph"] in ("LowerHex", "UpperHex") and v[0] == "i" and v[1] >= 0:
            s = "%x" % v[1] if p["ph"] == "LowerHex" else "%X" % v[1]
            w = p["width"] or 0
            if len(s) < w:
                s = ("0" if p["zero_pad"] else " ") * (w - len(s)) + s
            out.append(s)
        elif p["ph"] == "Display" and v[0] == "s":
            out.append(v[1])
        else:
            return None
    return "".join(out)


def trace(lib, body, env=None, start=0, stop=(), model=None, skip_first_stmts=False, max_states=20000):
    """Partial evaluation of `body`; write_fmt answers Ok(()); returns a Trace."""
    tr = Trace()
    pending = []

    def m(c, av, envv, pe):
        if model is not None:
            r = model(c, av, envv, pe)
            if r is not None:
                tr.events.append(("call", c, av))
                return r
        if is_fmt_arg(c):
            v = pe._deref_all(envv, av[0]) if av else None
            pending.append((c.loc.get("line"), c.loc.get("col"),
                            (c.name.rsplit("new_", 1)[-1].split("::")[0], (c.gargs or ["?"])[-1], v)))
            return None
        if is_write_fmt(c):
            site = fmt_site(lib, c)
            text = None
            if site is not None:
                args = [a for (ln, col, a) in pending if ln == c.loc.get("line") and col == c.loc.get("col")]
                tmap = {"display": "Display", "lower_hex": "LowerHex", "upper_hex": "UpperHex", "debug": "Debug"}
                args = [(tmap.get(t, t), ty, v) for (t, ty, v) in args]
                text = render(site, args[-site["nargs"]:] if site["nargs"] else [])
            tr.events.append(("write", c, text, site))
            del pending[:]
            return (True, OK(UNIT))
        cal = c.callee or ""
        if is_write_raw(c):
            tr.events.append(("write", c, None, None))
            return (True, OK(UNIT))
        if cal in ("std::fmt::Write::write_str", "std::fmt::Write::write_char"):
            v = pe._deref_all(envv, av[1]) if len(av) > 1 else None
            text = None
            if cal.endswith("write_str") and v is not None and v[0] == "s":
                text = v[1]
            elif cal.endswith("write_char") and v is not None and v[0] == "i" and valid_scalar(v[1]):
                text = chr(v[1])
            tr.events.append(("write", c, text, {"pieces": [{"lit": text}] if text is not None else [{"ph": "Display"}],
                                                 "nargs": 0}))
            return (True, OK(UNIT))
        tr.events.append(("call", c, av))
        return None

    pe = PE(body, m, eq_ok=common.derived_eq_ok(lib), max_states=max_states, crate=lib)
    pe.model_in_closures = True      # a write made inside a closure (`opt.map_or(Ok(()), |k| write!(f, "{k}"))`) is a write
    res = pe.run(start=start, env=env, stop=stop, at_start_skip_stmts=skip_first_stmts)
    tr.res = res
    if res.forks:
        tr.deterministic = False
        tr.fork = res.forks[0]
    return tr


def body_int_consts(body):
    out = set()

    def op(o):
        if o and o.get("k") == "const" and "int" in o:
            out.add(o["int"])

    def scan(raw):
        for b in raw["blocks"]:
            for s in b["stmts"]:
                if s["k"] != "assign":
                    continue
                rv = s["rv"]
                for k in ("op", "a", "b"):
                    if k in rv and isinstance(rv[k], dict):
                        op(rv[k])
                for o in rv.get("ops", []):
                    op(o)
            t = b["term"]
            if t["k"] == "switch":
                for v, _ in t["arms"]:
                    out.add(v)
            for o in t.get("args", []):
                op(o)
        for p in raw.get("promoted", []):
            scan(p)
    scan(body.raw)
    return out


def valid_scalar(v):
    return 0 <= v <= 0x10FFFF and not (0xD800 <= v <= 0xDFFF)


# ------------------------------------------------------------------ RFC 8259 string-body decoder (the oracle)

_SIMPLE = {'"': 0x22, "\\": 0x5C, "/": 0x2F, "b": 8, "f": 0xC, "n": 0xA, "r": 0xD, "t": 9}


def json_string_body_decode(s):
    """Code points denoted by the inside of a JSON string literal, or None if it is not valid RFC 8259."""
    out = []
    i = 0
    n = len(s)
    while i < n:
        ch = s[i]
        o = ord(ch)
        if ch == '"' or o < 0x20:
            return None
        if ch != "\\":
            out.append(o)
            i += 1
            continue
        if i + 1 >= n:
            return None
        e = s[i + 1]
        if e in _SIMPLE:
            out.append(_SIMPLE[e])
            i += 2
            continue
        if e != "u" or i + 6 > n:
            return None
        h = s[i + 2:i + 6]
        if any(c not in "0123456789abcdefABCDEF" for c in h):
            return None
        u = int(h, 16)
        i += 6
        if 0xD800 <= u <= 0xDBFF:
            if s[i:i + 2] == "\\u" and i + 6 <= n:
                h2 = s[i + 2:i + 6]
                if all(c in "0123456789abcdefABCDEF" for c in h2):
                    u2 = int(h2, 16)
                    if 0xDC00 <= u2 <= 0xDFFF:
                        out.append(0x10000 + ((u - 0xD800) << 10) + (u2 - 0xDC00))
                        i += 6
                        continue
            return None
        if 0xDC00 <= u <= 0xDFFF:
            return None
        out.append(u)
    return out


CLASSES = [
    ("C0-short-escapes", [8, 9, 10, 12, 13]),
    ("C0-other", [c for c in range(0x20) if c not in (8, 9, 10, 12, 13)]),
    ("quote", [0x22]),
    ("backslash", [0x5C]),
    ("solidus", [0x2F]),
    ("ascii-printable", [c for c in range(0x20, 0x7F) if c not in (0x22, 0x5C, 0x2F)]),
    ("DEL", [0x7F]),
    ("C1", list(range(0x80, 0xA0))),
    ("BMP", [0xA0, 0xFF, 0x100, 0x7FF, 0x800, 0x2027, 0x2028, 0x2029, 0x202A, 0xD7FF, 0xE000, 0xFFFD, 0xFFFE, 0xFFFF]),
    ("astral", [0x10000, 0x10001, 0x1F603, 0xFFFFF, 0x100000, 0x10FFFE, 0x10FFFF]),
]


def _class_of(v):
    for name, vs in CLASSES[:8]:
        if v in vs:
            return name
    return "BMP" if v <= 0xFFFF else "astral"


def _uc(v):
    return "U+%04X" % v


def json_string_table(rep, lib, reader_decoded=None):
    """C02-STRING-TABLE: what JsonOutputOptions::print_string writes for every character class."""
    r = rep.rule("C02-STRING-TABLE", "for every character and both settings of --utf8-strings the text "
                 "JsonOutputOptions::print_string writes for that character is a valid RFC 8259 string fragment that "
                 "denotes exactly that character (mandatory escapes for `\"`, `\\` and U+0000-U+001F; \\u escapes "
                 "are four hex digits, surrogate pairs above U+FFFF), and the opening and closing quotes are written "
                 "on every path", floor=20,
                 analysis="A5 partial evaluation of the character loop seeded with (character, utf8 flag) for all of "
                          "U+0000-U+00FF, the class boundaries and every constant of the body +-1; the written text is "
                          "rebuilt from the format_args templates and decoded by an independent RFC 8259 decoder")
    r2 = rep.rule("C02-ESC-AGREE", "every escape the JSON string writer emits is decoded by jawk's own reader "
                  "(read_string) to the character it was written for, so jawk's output is a fixpoint of jawk",
                  floor=8, analysis="writer table (above) joined with the reader's escape table (C01-ESCAPES)")
    b = lib.bodies.get(JSONP + "print_string")
    if b is None:
        r.missing(JSONP + "print_string")
        return
    adt = lib.adts.get("output_style::JsonOutputOptions")
    fields = [f["name"] for f in adt["variants"][0]["fields"]] if adt else []
    if "utf8_strings" not in fields:
        r.missing("JsonOutputOptions.utf8_strings")
        return
    fi = fields.index("utf8_strings")
    nexts = [c for c in b.calls if (c.full or "").startswith("<std::str::Chars<'_> as std::iter::Iterator>::next")]
    if len(nexts) != 1 or not b.in_loop(nexts[0].bb):
        r.missing("the `for ch in value.chars()` loop (found %d Chars::next sites)" % len(nexts))
        return
    site = nexts[0]
    reps = set(range(0x100))
    for _, vs in CLASSES:
        reps.update(vs)
    for c in body_int_consts(b):
        for d in (-1, 0, 1):
            reps.add(c + d)
    reps = sorted(v for v in reps if valid_scalar(v))
    r.note("%d representative characters x 2 flag values; constants of the body: %s"
           % (len(reps), sorted(c for c in body_int_consts(b) if valid_scalar(c))[:40]))
    used_escapes = {}
    texts = {}
    for utf8 in (False, True):
        selfv = [None] * len(fields)
        selfv[fi] = ("b", utf8)
        env = {1: ("rv", ("adt", 0, tuple(selfv)))}
        bad = {}
        good = {}
        for v in reps:
            def model(c, av, envv, pe, v=v):
                if c.bb == site.bb:
                    return (True, some(("i", v)))
                return None
            tr = trace(lib, b, env=env, start=site.bb, stop={site.bb}, model=model)
            cls = _class_of(v)
            if not tr.deterministic:
                bad.setdefault(cls, []).append((v, "the path taken for this character depends on something other "
                                                "than the character and the utf8 flag (fork at bb%d): unrecognised idiom"
                                                % tr.fork))
                continue
            if site.bb not in {bb2 for (_, bb2) in tr.res.edges}:
                bad.setdefault(cls, []).append((v, "the loop does not continue with the next character"))
                continue
            text = tr.text()
            if text is None:
                bad.setdefault(cls, []).append((v, "a write whose text cannot be reconstructed (unrecognised template "
                                                "or argument)"))
                continue
            dec = json_string_body_decode(text)
            if dec != [v]:
                why = "not a valid JSON string fragment" if dec is None else \
                    "denotes %s" % " ".join(_uc(x) for x in dec)
                bad.setdefault(cls, []).append((v, "writes %r, which is %s" % (text, why)))
                continue
            good.setdefault(cls, []).append((v, text))
            texts[(utf8, v)] = text
            if len(text) == 2 and text[0] == "\\":
                used_escapes[text[1]] = v
        for cls, _ in CLASSES:
            key = "print_string[utf8=%s]/%s" % ("on" if utf8 else "off", cls)
            if cls in bad:
                v, why = bad[cls][0]
                r.bad(key, "%s: %s (%d of the class's representatives fail: %s)"
                      % (_uc(v), why, len(bad[cls]), ", ".join(_uc(x) for x, _ in bad[cls][:6])), b.where(site.bb))
            elif cls in good:
                ex = good[cls][0]
                r.ok(key, "%d representative(s) decode to themselves, e.g. %s -> %r"
                     % (len(good[cls]), _uc(ex[0]), ex[1]), b.where(site.bb))
            else:
                r.bad(key, "no representative evaluated", b.where(site.bb))
    # quotes: the opening quote dominates the loop, the closing quote is on every non-error return path
    wsites = [(c, fmt_site(lib, c)) for c in b.calls if is_write_fmt(c)]
    quote_sites = [c for c, s in wsites if s and s["pieces"] == [{"lit": "\""}]]
    opening = [c for c in quote_sites if b.dominates(c.bb, site.bb)]
    closing = [c for c in quote_sites if not b.dominates(c.bb, site.bb)]
    if len(opening) != 1:
        r.bad("print_string/opening-quote", "the string is not opened by exactly one `\"` written before the loop",
              b.where())
    else:
        r.ok("print_string/opening-quote", "one `\"` dominates the character loop", opening[0].where())
    from rules.pipeline_rules import non_error_escape
    esc = non_error_escape(b, [c.bb for c in closing], start=site.bb) if closing else [0]
    # the end-of-string edge: Chars::next == None
    if not closing or esc:
        r.bad("print_string/closing-quote", "a return that is not an error is reachable from the loop without writing "
              "the closing `\"`", b.where())
    else:
        r.ok("print_string/closing-quote", "every non-error return after the loop passes the closing `\"`",
             closing[0].where())
    _string_bypass(r, lib, b, site, texts)
    # reader agreement
    if reader_decoded is None:
        r2.missing("reader escape table (C01-ESCAPES did not produce one)")
        return
    for letter, v in sorted(used_escapes.items()):
        key = "escape[\\%s]" % letter
        got = reader_decoded.get(ord(letter))
        if got != v:
            r2.bad(key, "the writer emits \\%s for %s but the reader decodes \\%s to %s" % (
                letter, _uc(v), letter, "nothing" if got is None else _uc(got)), b.where())
        else:
            r2.ok(key, "writer %s -> \\%s -> reader %s" % (_uc(v), letter, _uc(got)), b.where())


def _string_bypass(r, lib, b, site, texts):
    """Every character is written by the per-character decision: no non-error return bypasses the loop, and no
    write formats the string parameter itself - except a guarded fast path `value.bytes()/chars().all(pred)` that
    writes `"{value}"`, which is accepted iff for every byte/char the predicate admits the per-character path
    writes that very character raw (decided by partial evaluation of the predicate over its whole domain)."""
    from rules.pipeline_rules import err_blocks
    pr = Prov(b, common.LOOK)
    key = "print_string/every-char-through-the-table"
    direct = []
    for c in b.calls:
        if is_fmt_arg(c):
            at = pr.origins(c.args[0])
            if any(a[0] == "arg" and a[1] == 3 for a in at) and not any(a[0] == "call" and a[1] == site.bb for a in at):
                direct.append(c)
        elif not is_write_fmt(c) and not (c.callee or "").startswith("std::fmt::Arguments"):
            # any other call that is handed the writer: write_str / write_char / a helper
            for a in c.args:
                if a.get("k") in ("copy", "move") and any(x[0] == "arg" and x[1] == 2 for x in pr.origins(a)):
                    direct.append(c)
                    break
    bypass = b.must_pass({site.bb} | err_blocks(b), b.returns())
    if not direct and not bypass:
        r.ok(key, "no write formats the string parameter itself and every non-error return has passed the "
             "character loop", b.where(site.bb))
        return
    alls = [c for c in b.calls if (c.callee or "") == "std::iter::Iterator::all" and not b.in_loop(c.bb)]
    if len(alls) != 1 or len(direct) != 1 or not is_fmt_arg(direct[0]):
        c = (direct or [None])[0]
        r.bad(key, "the string (or part of it) can be written without passing the per-character escaping decision"
              " (%s): unrecognised idiom" % ("call of %s" % (c.full or c.name) if c else "a return bypasses the loop"),
              c.where() if c else b.where())
        return
    al = alls[0]
    clos = None
    for bb, idx, place, rv, _ in b.assignments():
        if rv["k"] == "agg" and rv.get("agg") == "closure" and rv.get("closure") in lib.bodies:
            if any(a.get("k") in ("copy", "move") and a["place"]["l"] == place["l"] for a in al.args):
                clos = lib.bodies[rv["closure"]]
    # the fast write must be `"{value}"` and be dominated by the true edge of all()
    w = [c for c in b.calls if is_write_fmt(c) and c.loc.get("line") == direct[0].loc.get("line")
         and c.loc.get("col") == direct[0].loc.get("col")]
    site_f = fmt_site(lib, w[0]) if w else None
    shape = site_f and [p.get("lit", "{}") for p in site_f["pieces"]] == ['"', "{}", '"']
    sw = b.term(al.target) if al.target is not None else None
    guarded = False
    if sw and sw["k"] == "switch" and w:
        true_t = sw["otherwise"]
        guarded = b.edge_dominates((al.target, true_t), w[0].bb) and all(v == 0 for v, _ in sw["arms"])
    if clos is None or not shape or not guarded or clos.arg_count != 2:
        r.bad(key, "a fast path writes the string without the per-character decision and is not of the recognised "
              "form `if value.bytes().all(pred) { return write!(f, \"\\\"{value}\\\"\") }`", direct[0].where())
        return
    dom_ty = clos.local_ty(2)
    domain = range(256) if dom_ty == "u8" else sorted(v for (u, v) in texts if not u)
    admitted = []
    for v in domain:
        res = PE(clos, None, eq_ok=common.derived_eq_ok(lib)).run(env={2: ("i", v)})
        vals = {x for _, x in res.returns}
        if vals != {("b", False)}:
            admitted.append(v)
    wrong = []
    for v in admitted:
        if dom_ty == "u8" and v >= 0x80:
            wrong.append((v, "bytes of a multi-byte character"))
            continue
        for utf8 in (False, True):
            t = texts.get((utf8, v))
            if t != chr(v):
                wrong.append((v, "per-character path writes %r" % t))
                break
    if wrong:
        r.bad(key, "the fast path writes %d admitted character(s) raw although the per-character decision escapes "
              "them: %s" % (len(wrong), ", ".join("%s (%s)" % (_uc(v), why) for v, why in wrong[:6])),
              direct[0].where())
    else:
        r.ok(key, "fast path admits %d characters, each of which the per-character path also writes raw"
             % len(admitted), direct[0].where())


# ------------------------------------------------------------------ value dispatch

def _variant_index(lib, adt, name):
    a = lib.adts.get(adt)
    if not a:
        return None
    for i, v in enumerate(a["variants"]):
        if v["name"] == name:
            return i
    return None


def dispatch(rep, lib, rid="C02-DISPATCH"):
    """Print::print / print_something / print_number call the printer method of the value's own kind."""
    r = rep.rule(rid, "the provided methods of trait Print select the printer method by the value's variant: "
                 "None->print_nothing, Null->print_null, true->print_true, false->print_false, Number->print_number "
                 "(Float->print_f64, Negative->print_i64, Positive->print_u64), String->print_string, "
                 "Array->print_array, Object->print_object, and pass that variant's own payload", floor=11,
                 analysis="A5 partial evaluation with the discriminant (and the bool payload) of the argument seeded")
    ps = lib.bodies.get("output_style::Print::print_something")
    pn = lib.bodies.get("output_style::Print::print_number")
    pp = lib.bodies.get("output_style::Print::print")
    if not ps or not pn or not pp:
        r.missing("Print::{print, print_something, print_number}")
        return
    J = "json_value::JsonValue"
    N = "json_value::NumberValue"
    cases = []
    for name, payload, want in (("Null", (), "print_null"), ("Boolean", (("b", True),), "print_true"),
                                ("Boolean", (("b", False),), "print_false"), ("Number", (None,), "print_number"),
                                ("String", (None,), "print_string"), ("Array", (None,), "print_array"),
                                ("Object", (None,), "print_object")):
        vi = _variant_index(lib, J, name)
        if vi is None:
            r.missing("JsonValue::" + name)
            continue
        cases.append((ps, "print_something[%s%s]" % (name, "" if name != "Boolean" else "(%s)" % str(payload[0][1]).lower()),
                      ("adt", vi, payload), want, vi if payload == (None,) else None))
    for name, want in (("Float", "print_f64"), ("Negative", "print_i64"), ("Positive", "print_u64")):
        vi = _variant_index(lib, N, name)
        if vi is None:
            r.missing("NumberValue::" + name)
            continue
        cases.append((pn, "print_number[%s]" % name, ("adt", vi, (None,)), want, vi))
    cases.append((pp, "print[None]", NONE, "print_nothing", None))
    cases.append((pp, "print[Some]", some(None), "print_something", 1))
    for body, key, val, want, payload_variant in cases:
        env = {3: ("rv", val)}
        tr = trace(lib, body, env=env)
        called = [e[1] for e in tr.events if e[0] == "call" and (e[1].callee or "").startswith("output_style::Print::")]
        names = [c.method() for c in called]
        if not tr.deterministic:
            r.bad(key, "the method chosen depends on something other than the value's variant (fork at bb%d)" % tr.fork,
                  body.where())
        elif names != [want]:
            r.bad(key, "calls %s, expected exactly %s" % (names or "nothing", want), body.where())
        else:
            # the payload handed over is the matched variant's own field
            c = called[0]
            okp = True
            detail = ""
            if payload_variant is not None and len(c.args) >= 3:
                pr = Prov(body, common.LOOK)
                atoms = pr.origins(c.args[2])
                okp = any(a[0] == "arg" and a[1] == 3 and any(str(p).startswith("dc%d" % payload_variant) for p in a[2])
                          for a in atoms)
                detail = " with the %s payload" % key
            if okp:
                r.ok(key, "-> %s%s" % (want, detail), c.where())
            else:
                r.bad(key, "%s is not given the payload of the matched variant" % want, c.where())


def json_keywords(rep, lib):
    r = rep.rule("C02-KEYWORDS", "the JSON printer writes exactly `null`, `true`, `false` for the three literals and "
                 "nothing for an absent value", floor=4, analysis="format_args templates of the four bodies")
    for m, want in (("print_null", "null"), ("print_true", "true"), ("print_false", "false"), ("print_nothing", "")):
        b = lib.bodies.get(JSONP + m)
        if b is None:
            r.missing(JSONP + m)
            continue
        tr = trace(lib, b)
        text = tr.text()
        if not tr.deterministic or text != want:
            r.bad("JsonOutputOptions::" + m, "writes %r, RFC 8259 wants %r" % (text, want), b.where())
        else:
            r.ok("JsonOutputOptions::" + m, "writes %r" % want, b.where())


# ------------------------------------------------------------------ structure / styles

STYLES = ("OneLine", "Consise", "Pretty")
WS = set(" \t\n\r")


def _style_env(lib, style):
    adt = lib.adts.get("output_style::JsonOutputOptions")
    fields = [f["name"] for f in adt["variants"][0]["fields"]]
    si = fields.index("style")
    vi = _variant_index(lib, "output_style::JsonStyle", style)
    selfv = [None] * len(fields)
    selfv[si] = ("adt", vi, ())
    return {1: ("rv", ("adt", 0, tuple(selfv)))}


def _literal_writes(lib, tr):
    """[(Call, literal text or None)] of the direct writes on a trace."""
    out = []
    for e in tr.writes():
        site = e[3]
        if site is not None and any("ph" in p for p in site["pieces"]) and e[2] is not None:
            # placeholders whose arguments are known constants (`write!(f, "{INDENT_UNIT}")`): the rendered text
            txt = e[2]
            if is_writeln(e[1]) and not txt.endswith("\n"):
                txt += "\n"
            out.append((e[1], txt))
        elif site is None or any("ph" in p for p in site["pieces"]):
            out.append((e[1], None))
        else:
            txt = "".join(p["lit"] for p in site["pieces"])
            if is_writeln(e[1]) and not txt.endswith("\n"):
                txt += "\n"
            out.append((e[1], txt))
    return out


def json_structure(rep, lib):
    r = rep.rule("C02-STRUCT", "per JSON style, the structural writers emit only JSON structural characters and "
                 "insignificant whitespace: concise emits no whitespace at all, one-line no line break, pretty breaks "
                 "the line before every element; a separator is exactly one comma; members are `key: value` with the "
                 "key written by the JSON string writer; brackets open and close on every non-error path; no data is "
                 "written by the structural writers themselves", floor=24,
                 analysis="A5 partial evaluation per style + format_args templates + A2 ordering inside the element loop")
    if not lib.adts.get("output_style::JsonOutputOptions") or not lib.adts.get("output_style::JsonStyle"):
        r.missing("JsonOutputOptions / JsonStyle")
        return
    names = [v["name"] for v in lib.adts["output_style::JsonStyle"]["variants"]]
    if sorted(names) != sorted(STYLES):
        r.bad("JsonStyle", "the styles are %s; the rule knows %s (unrecognised)" % (names, list(STYLES)), "")
        return
    ic = lib.bodies.get("output_style::JsonOutputOptions::insert_comma")
    ii = lib.bodies.get("output_style::JsonOutputOptions::insert_indent")
    po = lib.bodies.get("output_style::JsonOutputOptions::print_object_with_indent")
    pa = lib.bodies.get("output_style::JsonOutputOptions::print_array_with_indent")
    for nm, bd in (("insert_comma", ic), ("insert_indent", ii), ("print_object_with_indent", po),
                   ("print_array_with_indent", pa)):
        if bd is None:
            r.missing("JsonOutputOptions::" + nm)
    if not (ic and ii and po and pa):
        return
    for style in STYLES:
        env = _style_env(lib, style)
        # separator
        tr = trace(lib, ic, env=env)
        text = tr.text()
        key = "insert_comma[%s]" % style
        if not tr.deterministic or text is None:
            r.bad(key, "the separator written is not decided by the style alone (unrecognised idiom)", ic.where())
        elif text.count(",") != 1 or set(text) - WS - {","}:
            r.bad(key, "writes %r: an element separator must be exactly one comma plus insignificant whitespace" % text,
                  ic.where())
        elif style == "Consise" and text != ",":
            r.bad(key, "writes %r: the concise style has no insignificant whitespace" % text, ic.where())
        elif style == "OneLine" and ("\n" in text or "\r" in text):
            r.bad(key, "writes %r: the one-line style has no line break" % text, ic.where())
        else:
            r.ok(key, "writes %r" % text, ic.where())
        # indentation (loop over an unknown depth: set of pieces)
        tr = trace(lib, ii, env=env)
        lits = _literal_writes(lib, tr)
        key = "insert_indent[%s]" % style
        txts = [t for _, t in lits]
        if any(t is None for t in txts):
            r.bad(key, "writes data (a placeholder), not just whitespace", ii.where())
        elif any(set(t) - WS for t in txts):
            r.bad(key, "writes %r: indentation must be insignificant whitespace only" % [t for t in txts if set(t) - WS][0],
                  ii.where())
        elif style == "Consise" and any(txts):
            r.bad(key, "writes %r: the concise style has no insignificant whitespace" % txts[0], ii.where())
        elif style == "OneLine" and any("\n" in t or "\r" in t for t in txts):
            r.bad(key, "writes a line break in the one-line style", ii.where())
        elif style == "Pretty" and not any("\n" in t for t in txts):
            r.bad(key, "the pretty style does not start a new line before an element", ii.where())
        elif style == "Pretty" and not _pretty_indent_ok(lib, ii, env):
            r.bad(key, "the pretty style's line break is not written on every path, before the indentation", ii.where())
        else:
            r.ok(key, "writes %s" % (sorted(set(txts)) or "nothing"), ii.where())
        # containers
        for nm, bd, opn, cls, empty in (("print_object_with_indent", po, "{", "}", "{}"),
                                        ("print_array_with_indent", pa, "[", "]", "[]")):
            tr = trace(lib, bd, env=env, max_states=60000)
            lits = _literal_writes(lib, tr)
            key = "%s[%s]" % (nm, style)
            txts = [t for _, t in lits]
            allowed = set("[]{}:,") | (set() if style == "Consise" else ({" "} if style == "OneLine" else WS))
            if any(t is None for t in txts):
                c = [c for c, t in lits if t is None][0]
                r.bad(key, "writes data directly (a `{}` placeholder) instead of going through a print_* method",
                      c.where())
                continue
            badt = [t for t in txts if set(t) - allowed]
            if badt:
                r.bad(key, "writes %r; allowed characters in this style: %r" % (badt[0], "".join(sorted(allowed))),
                      bd.where())
                continue
            need = {opn, cls, empty} | ({":"} if nm.startswith("print_object") else set())
            have = set(t.strip() for t in txts)
            if not need <= have:
                r.bad(key, "never writes %s" % sorted(need - have), bd.where())
                continue
            r.ok(key, "direct writes %s" % sorted(set(txts)), bd.where())
    _container_shape(r, lib, po, True)
    _container_shape(r, lib, pa, False)


def _pretty_indent_ok(lib, ii, env):
    """On the paths the pretty style takes, the first write is the line break, outside the indentation loop,
    and no non-error return is reachable without it."""
    tr = trace(lib, ii, env=env)
    lits = _literal_writes(lib, tr)
    if not lits or lits[0][1] is None or "\n" not in lits[0][1]:
        return False
    nl = lits[0][0].bb
    if ii.in_loop(nl):
        return False
    succ = {}
    for a, b in tr.res.edges:
        succ.setdefault(a, []).append(b)
    seen = {0}
    work = [0]
    while work:
        a = work.pop()
        if a == nl:
            continue
        for b in succ.get(a, []):
            if b not in seen:
                seen.add(b)
                work.append(b)
    for bb, v in tr.res.returns:
        if bb in seen and bb != nl and (v is None or (v[0] == "adt" and v[1] == 0)):
            return False
    # every other write is reachable only through the line break
    return all(c.bb not in seen or c.bb == nl for c, _ in lits)


def _returns_ok(tr, bb):
    for b, v in tr.res.returns:
        if b == bb and (v is None or (v[0] == "adt" and v[1] == 0)):
            return True
    return False


def _container_tokens(lib, b, is_object, style, k, null_variant):
    """Token stream written by a container printer for a container of k scalar elements in one style:
    literal writes as their text, K = self.print_string(key), V = the element's printer, C = insert_comma,
    I = insert_indent. Returns (tokens or None, reason)."""
    nxt = [c for c in b.calls if (c.callee or "") == "std::iter::Iterator::next" and b.in_loop(c.bb)]
    if len(nxt) != 1:
        return None, "expected one iterator-driven element loop, found %d" % len(nxt)
    nx = nxt[0]
    item_ty = nx.dest.get("ty", "")
    enumerated = "Option<(usize," in item_ty.replace(" ", "")
    toks = []

    def model(c, av, envv, pe):
        n = c.name or ""
        cal = c.callee or ""
        if c.bb == nx.bb:
            i = envv.get(-7, ("i", 0))[1]
            envv[-7] = ("i", i + 1)
            if i >= k:
                return (True, NONE)
            elem = ("rv", ("adt", null_variant, ()))
            if is_object:
                elem = ("adt", 0, (("i", 5000 + i), elem))
            return (True, some(("adt", 0, (("i", i), elem)) if enumerated else elem))
        if n.endswith("::len") or cal.endswith("::len"):
            return (True, ("i", k))
        if n.endswith("::is_empty") or cal.endswith("::is_empty"):
            return (True, ("b", k == 0))
        if n.endswith("insert_comma"):
            toks.append("C")
            return (True, OK(UNIT))
        if n.endswith("insert_indent"):
            toks.append("I")
            return (True, OK(UNIT))
        if n.endswith("_with_indent") or cal.endswith("Print::print_something") \
                or (cal.startswith("output_style::Print::print_") and not cal.endswith("print_string")):
            toks.append("V")
            return (True, OK(UNIT))
        if cal.endswith("Print::print_string") or n.endswith("Print<W>>::print_string"):
            toks.append("K")
            return (True, OK(UNIT))
        return None

    tr = trace(lib, b, env=_style_env(lib, style), model=model, max_states=60000)
    if not tr.deterministic:
        return None, "the writes depend on something other than the style and the element count (fork at bb%d)" % tr.fork
    # merge literal writes into the token stream in event order
    out = []
    ti = 0
    for e in tr.events:
        if e[0] == "write":
            site = e[3]
            if site is None or any("ph" in p for p in site["pieces"]):
                return None, "a write with a placeholder (data written directly)"
            out.append("".join(p["lit"] for p in site["pieces"]))
        elif e[0] == "call":
            n = e[1].name or ""
            cal = e[1].callee or ""
            if n.endswith("insert_comma"):
                out.append("C")
            elif n.endswith("insert_indent"):
                out.append("I")
            elif n.endswith("_with_indent") or cal.endswith("Print::print_something") \
                    or (cal.startswith("output_style::Print::print_") and not cal.endswith("print_string")):
                out.append("V")
            elif cal.endswith("Print::print_string") or n.endswith("Print<W>>::print_string"):
                out.append("K")
    oks = [v for _, v in tr.res.returns if v is not None and v[0] == "adt" and v[1] == 0]
    if not oks:
        return None, "no Ok return reached"
    return out, ""


def _container_shape(r, lib, b, is_object):
    """Derive the token stream of the container printers for 0..6 (thorough: 0..12) elements in each style and compare with the
    JSON grammar (style-dependent whitespace included); then the provenance of key, value and depth."""
    import re
    nm = b.name.rsplit("::", 1)[-1]
    nullv = _variant_index(lib, "json_value::JsonValue", "Null")
    opn, cls = ("{", "}") if is_object else ("[", "]")
    for style in STYLES:
        sp = "" if style == "Consise" else " "
        member = ("IK:" + sp + "V") if is_object else "IV"
        for k in (range(0, 13) if common.TIER == "thorough" else range(0, 7)):
            key = "%s/grammar[%s,%d]" % (nm, style, k)
            toks, why = _container_tokens(lib, b, is_object, style, k, nullv)
            if toks is None:
                r.bad(key, "unrecognised idiom: %s" % why, b.where())
                continue
            got = "".join(toks)
            want = (opn + cls) if k == 0 else opn + "C".join([member] * k) + "I" + cls
            if got == want:
                r.ok(key, "writes %s" % want, b.where())
            else:
                r.bad(key, "for %d element(s) the %s style writes the sequence %r, the JSON grammar wants %r "
                      "(K = key via print_string, V = value, C = insert_comma, I = insert_indent)"
                      % (k, style, got, want), b.where())
    nxt = [c for c in b.calls if (c.callee or "") == "std::iter::Iterator::next" and b.in_loop(c.bb)]
    if len(nxt) != 1:
        return
    nx = nxt[0]
    pr = Prov(b, common.LOOK)
    value_prints = [c for c in b.calls if b.in_loop(c.bb) and (
        (c.name or "").endswith("print_array_with_indent") or (c.name or "").endswith("print_object_with_indent")
        or (c.callee or "").endswith("Print::print_something"))]
    keyp = [c for c in b.calls if (c.callee or "").endswith("Print::print_string") or
            (c.name or "").endswith("Print<W>>::print_string")]
    indents = [c for c in b.calls if (c.name or "").endswith("insert_indent")]

    def plus_one(at):
        return any(a[0] == "op" and a[1].startswith("binop:Add") for a in at) and \
            any(a[0] == "const" and a[1].startswith("1_") for a in at) and any(a[0] == "arg" and a[1] == 4 for a in at)
    # depth: elements and nested containers at indent + 1, closing bracket at indent
    bad = None
    for c in indents:
        at = pr.origins(c.args[2])
        if b.in_loop(c.bb):
            if not plus_one(at):
                bad = (c, "an element is not indented by indent + 1")
        elif at != {("arg", 4, ())}:
            bad = (c, "the closing bracket is not indented by the container's own depth")
    for v in value_prints:
        if (v.name or "").endswith("_with_indent") and not plus_one(pr.origins(v.args[3])):
            bad = (v, "a nested container is not printed at depth indent + 1")
    if bad:
        r.bad(nm + "/depth", "nesting-proportional indentation: %s" % bad[1], bad[0].where())
    elif len(indents) >= 2:
        r.ok(nm + "/depth", "elements and nested containers at depth indent + 1, closing bracket at depth indent",
             indents[0].where())
    else:
        r.bad(nm + "/depth", "insert_indent is not called before the elements and before the closing bracket", b.where())
    # the values printed are the iterated elements, by self
    half = "f1" if is_object else None
    okv = bool(value_prints)
    for v in value_prints:
        at = pr.origins(v.args[2])
        from_iter = any(a[0] == "call" and a[1] == nx.bb and (half is None or any(p == half for p in a[2])) for a in at)
        recv = pr.origins(v.args[0])
        if not from_iter or not any(a[0] == "arg" and a[1] == 1 for a in recv):
            okv = False
            r.bad(nm + "/element", "the value printed is not the iterated element printed by self", v.where())
            break
    if okv:
        r.ok(nm + "/element", "%d value printers, each given the iterated element" % len(value_prints),
             value_prints[0].where())
    if is_object:
        if len(keyp) != 1:
            r.bad(nm + "/key", "the member name is not written by exactly one call of the JSON string writer "
                  "(found %d)" % len(keyp), b.where())
            return
        kc = keyp[0]
        recv = pr.origins(kc.args[0])
        keyat = pr.origins(kc.args[2])
        from_pair = any(a[0] == "call" and a[1] == nx.bb and any(p == "f0" for p in a[2]) for a in keyat)
        if not any(a[0] == "arg" and a[1] == 1 for a in recv):
            r.bad(nm + "/key", "the member name is printed by another printer than self (other escaping options)",
                  kc.where())
        elif not from_pair:
            r.bad(nm + "/key", "the text handed to print_string is not the key of the iterated member", kc.where())
        else:
            r.ok(nm + "/key", "self.print_string(key of the iterated member)", kc.where())


# ------------------------------------------------------------------ row framing

def json_row(rep, lib):
    """What JsonProcess::process hands to the writer for one row, as a token sequence."""
    r = rep.rule("C02-ROW", "JsonProcess::process writes, for one row, exactly the text self.printer prints for "
                 "Context::build() followed by exactly one row separator - in one write or several, directly or "
                 "through a buffer - and nothing else", floor=2,
                 analysis="A5 partial evaluation with the buffer tracked symbolically (String::new / print_something "
                          "into it / push_str) and the format_args templates of every write; A4 provenance of the "
                          "printed value")
    b = lib.bodies.get("<output_style::JsonProcess as processor::Process>::process")
    adt = lib.adts.get("output_style::JsonProcess")
    if b is None or not adt:
        r.missing("JsonProcess::process")
        return
    fields = [f["name"] for f in adt["variants"][0]["fields"]]
    if "line_seperator" not in fields or "printer" not in fields:
        r.bad("JsonProcess/fields", "no line_seperator / printer field (unrecognised)", b.where())
        return
    L = ("tok", "L")
    selfv = [None] * len(fields)
    selfv[fields.index("line_seperator")] = L
    out = []
    pending = []
    printed = []

    def toks(v):
        if v is None:
            return ["?"]
        if v == L:
            return ["L"]
        if v[0] == "sbuf":
            return list(v[1])
        return ["?"]

    def setbuf(pe, envv, ref, val):
        if ref is not None and ref[0] == "ref" and not [p for p in ref[2] if p != "deref"]:
            envv[ref[1]] = val
            return True
        return False

    def model(c, av, envv, pe):
        n = c.name or ""
        cal = c.callee or ""
        if n.endswith("String::new") or n.endswith("String::with_capacity"):
            return (True, ("sbuf", ()))
        if cal.startswith("output_style::Print::print") and len(av) >= 2:
            cur = pe._deref_all(envv, av[1])
            printed.append(c)
            if cur is not None and cur[0] == "sbuf" and setbuf(pe, envv, av[1], ("sbuf", cur[1] + ("V",))):
                pe.keep_mut_args = True
            return (True, OK(UNIT))
        if n.endswith("String::push_str") and len(av) >= 2:
            cur = pe._deref_all(envv, av[0])
            add = pe._deref_all(envv, av[1])
            if cur is not None and cur[0] == "sbuf" and setbuf(pe, envv, av[0], ("sbuf", cur[1] + tuple(toks(add)))):
                pe.keep_mut_args = True
            return (True, UNIT)
        if cal == "std::ops::Deref::deref" or n.endswith(("String::as_bytes", "str::<impl str>::as_bytes",
                                                          "String::as_str")):
            x = pe._deref_all(envv, av[0]) if av else None
            if x is not None and (x == L or x[0] == "sbuf"):
                return (True, ("rv", x))
            return None
        if n.endswith("String::clear") and av:
            cur = pe._deref_all(envv, av[0])
            if cur is not None and cur[0] == "sbuf" and setbuf(pe, envv, av[0], ("sbuf", ())):
                pe.keep_mut_args = True
            return (True, UNIT)
        if is_fmt_arg(c):
            pending.append((c.loc.get("line"), c.loc.get("col"), pe._deref_all(envv, av[0]) if av else None))
            return None
        if is_write_fmt(c) or cal.endswith("Write::write_all") or cal.endswith("Write::write"):
            site = fmt_site(lib, c)
            wrote = []
            if not is_write_fmt(c) and len(av) >= 2:
                # write_all(bytes): the bytes of a tracked buffer / of the separator
                wrote.extend(toks(pe._deref_all(envv, av[1])))
            elif site is None:
                wrote.append("?")
            else:
                args = [v for (ln, col, v) in pending if ln == c.loc.get("line") and col == c.loc.get("col")]
                for p_ in site["pieces"]:
                    if "lit" in p_:
                        wrote.append("lit:%r" % p_["lit"])
                    elif p_["ph"] == "Display" and not p_["width"] and not p_["precision"] and p_["arg"] < len(args):
                        wrote.extend(toks(args[p_["arg"]]))
                    else:
                        wrote.append("?")
            envv[OUTK] = envv.get(OUTK, ("out",)) + tuple(wrote)     # what this path has written so far
            del pending[:]
            return (True, OK(UNIT))
        if n == "processor::Context::build":
            return (True, ("tok", "built"))
        return None
    OUTK = -31
    pe = PE(b, model, eq_ok=common.derived_eq_ok(lib), max_states=20000)
    seqs = []

    def hook(bb, e, first):
        if b.term(bb)["k"] == "return":
            v0 = e.get(0)
            if not (v0 is not None and v0[0] == "adt" and v0[1] == 1):
                seqs.append(list(e.get(OUTK, ("out",))[1:]))
        return None
    pe.visit_hook = hook
    try:
        res = pe.run(env={1: ("rv", ("adt", 0, tuple(selfv)))})
    except RuntimeError as e:
        if "state budget" not in str(e):
            raise
        res = None
        r.bad("JsonProcess::process/row", "what is written for one row could not be evaluated (%s): the row is not "
              "written as one printed value and one separator by straight-line code - unrecognised idiom" % e, b.where())
    if res is not None:
        _json_row_verdict(r, lib, b, res, seqs)
    _json_row_value(r, lib, b, fields)


def _json_row_verdict(r, lib, b, res, seqs):
    okret = [v for _, v in res.returns if v is not None and v[0] == "adt" and v[1] == 0]
    distinct = []
    for q in seqs:
        if q not in distinct:
            distinct.append(q)
    out = distinct[0] if len(distinct) == 1 else (distinct or [[]])[0]
    if len(distinct) > 1:
        out = ["?differs-by-path: %s" % distinct[:3]]
    hint_sw = set()
    for k, (bounded, sws) in common.hint_fields(lib, "output_style::JsonProcess").items():
        hint_sw |= sws.get(b.name, set())
    forks = [x for x in res.forks if x not in hint_sw]
    if forks:
        res.forks = forks
        r.bad("JsonProcess::process/row", "what is written depends on something other than the row (fork at bb%d): "
              "unrecognised idiom" % res.forks[0], b.where())
    elif out != ["V", "L"] or not okret:
        r.bad("JsonProcess::process/row", "one row is written as %s; expected the printed value followed by exactly one "
              "row separator (V = text printed by the JSON printer, L = self.line_seperator)" % out, b.where())
    else:
        r.ok("JsonProcess::process/row", "writes V L (printed value, row separator)", b.where())


def _json_row_value(r, lib, b, fields):
    # the value printed is Context::build() of the incoming row, printed by self.printer
    pr = Prov(b, common.LOOK + ("Deref>::deref",))
    ps = [c for c in b.calls if (c.callee or "").startswith("output_style::Print::print")]
    pf = "f%d" % fields.index("printer")
    good = len(ps) == 1 and ps[0].method() == "print_something"
    if good:
        recv = pr.origins(ps[0].args[0])
        val = pr.origins(ps[0].args[2])
        builds = [b.call_at[a[1]] for a in val if a[0] == "call" and (b.call_at[a[1]].name or "").endswith("Context::build")]
        good = any(a[0] == "arg" and a[1] == 1 and pf in a[2] for a in recv) and len(builds) == 1 and \
            any(a[0] == "arg" and a[1] == 2 for a in pr.origins(builds[0].args[0]))
    if good:
        r.ok("JsonProcess::process/value", "self.printer.print_something(&mut buffer, &context.build())", ps[0].where())
    else:
        r.bad("JsonProcess::process/value", "the text is not self.printer's rendering of Context::build() of the "
              "incoming row", b.where())


# ====================================================================== text / csv printer (C15)

TOPT = "output_style::TextOutputOptions"
TPRN = "output_style::TextPrinter"
TPRO = "output_style::TextProcess"


def field_index(lib, adt, name):
    a = lib.adts.get(adt)
    if not a:
        return None
    for i, f in enumerate(a["variants"][0]["fields"]):
        if f["name"] == name:
            return i
    return None


def fpath(lib, *steps):
    """("f0","f3") projection for a chain of (adt, field name) steps; None if any is missing."""
    out = []
    for adt, name in steps:
        i = field_index(lib, adt, name)
        if i is None:
            return None
        out.append("f%d" % i)
    return tuple(out)


def write_args(b, w):
    """Argument::new_* calls that belong to the same write!/writeln! as the write_fmt call w."""
    return [c for c in b.calls if is_fmt_arg(c) and c.loc.get("line") == w.loc.get("line")
            and c.loc.get("col") == w.loc.get("col") and c.loc.get("file") == w.loc.get("file")]


def _is_self_field(atoms, path):
    """Some origin is exactly (a projection below) self.<path>."""
    return any(a[0] == "arg" and a[1] == 1 and tuple(p for p in a[2] if not str(p).startswith("dc"))[:len(path)] == path
               for a in atoms)


def _only_self_field(atoms, path):
    core = [a for a in atoms if a[0] in ("arg", "call", "agg", "local", "const")]
    return bool(core) and all(a[0] == "arg" and a[1] == 1 and
                              tuple(p for p in a[2] if not str(p).startswith("dc"))[:len(path)] == path for a in core)


def csv_preset(rep, lib):
    r = rep.rule("C15-CSV-PRESET", "the csv preset is RFC 4180 quoting: fields separated by a comma (plus blanks), "
                 "strings enclosed in the same quote character `\"` on both sides, exactly that character escaped by "
                 "doubling it, a header row, True/False/null keywords and an empty field for an absent value",
                 floor=9, analysis="A8 literals of the aggregate built in TextOutputOptions::csv (A4 provenance of each "
                                   "field operand)")
    b = lib.bodies.get(TOPT + "::csv")
    if b is None:
        r.missing(TOPT + "::csv")
        return
    aggs = [(bb, idx, rv) for bb, idx, place, rv, _ in b.assignments()
            if rv["k"] == "agg" and rv.get("adt") == TOPT and place["l"] == 0]
    if len(aggs) != 1:
        r.missing("the single aggregate returned by csv() (found %d)" % len(aggs))
        return
    rv = aggs[0][2]
    pr = Prov(b, ())
    vals = {}

    def strconst(o):
        """String value of an operand that is `<literal>.to_string()` / String::from(literal) / .into()."""
        for a in pr.origins(o):
            if a[0] == "call":
                c = b.call_at[a[1]]
                n = (c.callee or "") + "|" + (c.name or "")
                if ("to_string" in n or "From::from" in n or "Into::into" in n or "to_owned" in n) and c.args:
                    for x in pr.origins(c.args[0]):
                        if x[0] == "const":
                            return rust_str(x[1])
        return None
    vec_elems = []
    for bb, idx, place, rv2, s in b.assignments():
        if rv2["k"] == "agg" and rv2.get("agg") == "array" and any("macro:vec" in e for e in s["loc"].get("exp", [])):
            vec_elems.append([strconst(o) for o in rv2["ops"]])
    for name, o in zip(rv["fields"], rv["ops"]):
        ty = o.get("ty") or (o.get("place") or {}).get("ty", "")
        if o.get("k") == "const":
            vals[name] = bool(o.get("int")) if o.get("ty") == "bool" else o.get("s")
        elif ty.startswith("std::vec::Vec<"):
            vals[name] = vec_elems[0] if len(vec_elems) == 1 else None
        elif ty.startswith("std::option::Option<"):
            at = pr.origins(o)
            none = any(a[0] == "agg" and b.agg_at_ok(a) for a in at) if hasattr(b, "agg_at_ok") else None
            nn = [rvx for bb, idx, place, rvx, _ in b.assignments() if place["l"] == o["place"]["l"]]
            vals[name] = "None" if nn and nn[0]["k"] == "agg" and nn[0].get("variant_name") == "None" else "Some/unknown"
        else:
            vals[name] = strconst(o)
    r.note("csv preset literals: %r" % vals)
    w = b.where()
    q = vals.get("string_prefix")

    def chk(key, cond, okmsg, badmsg):
        if cond:
            r.ok(key, okmsg, w)
        else:
            r.bad(key, badmsg, w)
    sep = vals.get("items_seperator")
    chk("csv/items_seperator", isinstance(sep, str) and sep[:1] == "," and not sep[1:].strip(" ") and "\n" not in sep,
        "%r" % sep, "the field separator is %r, RFC 4180 wants a comma (optionally followed by blanks)" % sep)
    chk("csv/string_prefix", q == '"', "%r" % q, "strings are opened with %r instead of `\"`" % q)
    chk("csv/string_postfix", vals.get("string_postfix") == q and q is not None, "%r" % vals.get("string_postfix"),
        "strings are closed with %r but opened with %r" % (vals.get("string_postfix"), q))
    esc = vals.get("escape_sequance")
    table = None
    if isinstance(esc, list) and all(isinstance(e, str) and e for e in esc):
        table = {e[0]: e[1:] for e in esc}
    chk("csv/escape_sequance", table is not None and q is not None and table == {q: q + q},
        "%r -> %r" % (q, (q or "") * 2),
        "the escape table is %r; RFC 4180 escapes exactly the quote character %r, by doubling it"
        % (table if table is not None else esc, q))
    chk("csv/headers", vals.get("headers") is True, "true", "the csv preset does not write the header row")
    chk("csv/null_keyword", vals.get("null_keyword") == "null", "null", "null is written as %r" % vals.get("null_keyword"))
    chk("csv/true_keyword", vals.get("true_keyword") == "True", "True", "true is written as %r" % vals.get("true_keyword"))
    chk("csv/false_keyword", vals.get("false_keyword") == "False", "False",
        "false is written as %r" % vals.get("false_keyword"))
    chk("csv/missing_value_keyword", vals.get("missing_value_keyword") == "None", "None (empty field)",
        "an absent value is not an empty field in csv")


def text_escape_table(rep, lib):
    r = rep.rule("C15-ESCAPE-TABLE", "the text printer's escape table maps the first character of every "
                 "--escape-sequance entry to the rest of that entry", floor=2,
                 analysis="A4 provenance of the two arguments of HashMap::insert in From<TextOutputOptions> for TextPrinter")
    name = "<%s as std::convert::From<%s>>::from" % (TPRN, TOPT)
    b = lib.bodies.get(name)
    if b is None:
        r.missing(name)
        return
    ins = [c for c in b.calls if (c.name or "").endswith("HashMap::<K, V, S>::insert") or
           "HashMap::<char, std::string::String>::insert" in (c.full or "")]
    outer = [c for c in b.calls if (c.callee or "") == "std::iter::Iterator::next" and "Chars" not in (c.full or "")
             and b.in_loop(c.bb)]
    chars = [c for c in b.calls if "Chars" in (c.full or "") and (c.callee or "") == "std::iter::Iterator::next"]
    if len(ins) != 1 or len(outer) != 1 or len(chars) != 1:
        r.missing("one insert, one loop over the entries, one chars().next() (found %d/%d/%d)"
                  % (len(ins), len(outer), len(chars)))
        return
    pr = Prov(b, common.LOOK + ("ToString>::to_string", "Deref>::deref", "str>::chars", "ToOwned>::to_owned",
                                "String>::from", "From>::from"))
    k = pr.origins(ins[0].args[1])
    v = pr.origins(ins[0].args[2])
    key_ok = any(a[0] == "call" and a[1] == chars[0].bb for a in k) and \
        any(a[0] == "call" and a[1] == outer[0].bb for a in pr.origins(chars[0].args[0]))
    if key_ok:
        r.ok("insert/key", "first character of the entry", ins[0].where())
    else:
        r.bad("insert/key", "the escaped character is not the first character of the entry", ins[0].where())
    idx = [b.call_at[a[1]] for a in v if a[0] == "call" and "Index" in (b.call_at[a[1]].full or "")]
    val_ok = False
    if len(idx) == 1:
        base = pr.origins(idx[0].args[0])
        rng = pr.origins(idx[0].args[1])
        one = any(a[0] == "const" and a[1].startswith("1_") for a in rng) or any(
            a[0] == "agg" and [o.get("int") for o in b.stmts(a[1])[a[2]]["rv"]["ops"]] == [1] for a in rng)
        val_ok = any(a[0] == "call" and a[1] == outer[0].bb for a in base) and one and \
            "RangeFrom" in (idx[0].full or "")
    if val_ok:
        r.ok("insert/value", "entry[1..]", ins[0].where())
    else:
        r.bad("insert/value", "the replacement text is not the rest of the entry after its first character",
              ins[0].where())


def text_string_writer(rep, lib):
    r = rep.rule("C15-STRING", "TextPrinter::print_string writes the configured prefix, then for every character "
                 "either its escape-table replacement or the character itself (looked up by that very character), "
                 "then the configured postfix; nothing else, and nothing of the string bypasses the loop", floor=6,
                 analysis="A5 partial evaluation of the character loop with the table lookup seeded found / not found; "
                          "A4 provenance of prefix, postfix and lookup key; A2 dominance")
    b = lib.bodies.get(TEXTP + "print_string")
    if b is None:
        r.missing(TEXTP + "print_string")
        return
    nexts = [c for c in b.calls if (c.full or "").startswith("<std::str::Chars<'_> as std::iter::Iterator>::next")]
    gets = [c for c in b.calls if "HashMap" in (c.full or "") and (c.name or "").endswith("::get")]
    if len(nexts) != 1 or not b.in_loop(nexts[0].bb) or len(gets) != 1:
        r.missing("`for ch in value.chars()` with one escape-table lookup (found %d / %d)" % (len(nexts), len(gets)))
        return
    site, get = nexts[0], gets[0]
    pr = Prov(b, common.LOOK)
    for found in (True, False):
        def model(c, av, envv, pe, found=found):
            if c.bb == site.bb:
                return (True, some(("i", 0x41)))
            if c.bb == get.bb:
                return (True, some(("rv", ("s", "<ESC>"))) if found else NONE)
            return None
        tr = trace(lib, b, start=site.bb, stop={site.bb}, model=model)
        key = "print_string[%s]" % ("escaped" if found else "plain")
        want = "<ESC>" if found else "A"
        if not tr.deterministic:
            r.bad(key, "what is written depends on something other than the table lookup (fork at bb%d)" % tr.fork,
                  b.where(site.bb))
        elif tr.text() != want:
            r.bad(key, "for a character %s the loop writes %r, expected %s" % (
                "with a table entry" if found else "without a table entry", tr.text(),
                "exactly the table entry" if found else "exactly the character"), b.where(site.bb))
        else:
            r.ok(key, "writes %s" % ("the table entry" if found else "the character"), b.where(site.bb))
    esc = fpath(lib, (TPRN, "escape_sequandes"))
    ka = pr.origins(get.args[1])
    ra = pr.origins(get.args[0])
    if any(a[0] == "call" and a[1] == site.bb for a in ka) and esc and _is_self_field(ra, esc):
        r.ok("print_string/lookup", "self.escape_sequandes.get(&ch)", get.where())
    else:
        r.bad("print_string/lookup", "the escape table is not looked up by the current character in "
              "self.escape_sequandes", get.where())
    from rules.pipeline_rules import non_error_escape
    ws = [c for c in b.calls if is_write_fmt(c)]
    pre = [c for c in ws if b.dominates(c.bb, site.bb) and not b.in_loop(c.bb)]
    post = [c for c in ws if not b.dominates(c.bb, site.bb) and not b.in_loop(c.bb)]
    for nm, lst, fld in (("prefix", pre, "string_prefix"), ("postfix", post, "string_postfix")):
        path = fpath(lib, (TPRN, "options"), (TOPT, fld))
        okk = False
        if len(lst) == 1 and path:
            args = write_args(b, lst[0])
            site_f = fmt_site(lib, lst[0])
            if len(args) == 1 and site_f and [("ph" in p) for p in site_f["pieces"]] == [True]:
                okk = _only_self_field(pr.origins(args[0].args[0]), path)
        if nm == "postfix" and okk:
            okk = not non_error_escape(b, [lst[0].bb], start=site.bb)
        if okk:
            r.ok("print_string/" + nm, "self.options.%s, %s" % (fld, "before the loop" if nm == "prefix" else
                                                               "on every non-error path after the loop"), lst[0].where())
        else:
            r.bad("print_string/" + nm, "the string is not %s by exactly one write of self.options.%s"
                  % ("opened" if nm == "prefix" else "closed on every non-error path", fld), b.where())
    _string_bypass(r, lib, b, site, {})


def _single_text_written(lib, b, pr):
    """Origins of the one text a body writes: the single `{}` argument of its one write!, or the argument of its one
    write_str; None if the body writes anything else or more than once."""
    ws = [c for c in b.calls if is_write_fmt(c)]
    strs = [c for c in b.calls if (c.callee or "") == "std::fmt::Write::write_str"]
    chars = [c for c in b.calls if (c.callee or "") == "std::fmt::Write::write_char"]
    if chars or len(ws) + len(strs) != 1:
        return None
    if strs:
        return pr.origins(strs[0].args[1]) if len(strs[0].args) > 1 else None
    args = write_args(b, ws[0])
    site_f = fmt_site(lib, ws[0])
    if len(args) == 1 and site_f and [("ph" in p) for p in site_f["pieces"]] == [True] and \
            not site_f["pieces"][0].get("width") and not site_f["pieces"][0].get("precision"):
        return pr.origins(args[0].args[0])
    return None


def text_keywords(rep, lib):
    r = rep.rule("C15-KEYWORDS", "the text printer writes null / true / false with the configured keyword of that "
                 "very literal, and an absent value with the missing-value keyword or nothing", floor=4,
                 analysis="A4 provenance of the single formatted argument + A5 for print_nothing")
    for m, fld in (("print_null", "null_keyword"), ("print_true", "true_keyword"), ("print_false", "false_keyword")):
        b = lib.bodies.get(TEXTP + m)
        if b is None:
            r.missing(TEXTP + m)
            continue
        pr = Prov(b, common.LOOK + ("Deref>::deref", "String::as_str"))
        path = fpath(lib, (TPRN, "options"), (TOPT, fld))
        at = _single_text_written(lib, b, pr) if path else None
        okk = at is not None and _only_self_field(at, path)
        if okk:
            r.ok("TextPrinter::" + m, "writes self.options.%s" % fld, b.where())
        else:
            r.bad("TextPrinter::" + m, "does not write exactly self.options.%s" % fld, b.where())
    b = lib.bodies.get(TEXTP + "print_nothing")
    if b is None:
        r.missing(TEXTP + "print_nothing")
        return
    pr = Prov(b, common.LOOK + ("Deref>::deref", "String::as_str"))
    path = fpath(lib, (TPRN, "options"), (TOPT, "missing_value_keyword"))
    at = _single_text_written(lib, b, pr) if path else None
    good = at is not None and _is_self_field(at, path)
    if not good and path:
        # the same decision through a combinator and a closure (`kw.as_ref().map_or(Ok(()), |k| write!(f, "{k}"))`):
        # evaluated with the keyword configured as a marker text, the one thing written must be that text
        marker = "\x01missing\x02"
        tr1 = trace(lib, b, env={1: ("rv", ("adt", 0, (_opt_env(lib, None, some(("s", marker))),)))})
        w = tr1.writes()
        good = tr1.deterministic and len(w) == 1 and w[0][2] == marker
    # the None edge writes nothing and returns Ok
    if good:
        tr = trace(lib, b, env={1: ("rv", ("adt", 0, (_opt_env(lib, None),)))})
        good = tr.deterministic and not tr.writes()
    if good:
        r.ok("TextPrinter::print_nothing", "the missing-value keyword when configured, otherwise nothing", b.where())
    else:
        r.bad("TextPrinter::print_nothing", "an absent value is not written as the configured missing-value keyword "
              "(or as nothing when none is configured)", b.where())


def _opt_env(lib, _, kw=NONE):
    """TextOutputOptions value with missing_value_keyword = None (or `kw`), everything else unknown."""
    a = lib.adts.get(TOPT)
    n = len(a["variants"][0]["fields"])
    vals = [None] * n
    vals[field_index(lib, TOPT, "missing_value_keyword")] = kw
    return ("adt", 0, tuple(vals))


def text_nested(rep, lib):
    r = rep.rule("C15-NESTED-QUOTED", "arrays and objects are rendered as concise UTF-8 JSON into a buffer and that "
                 "buffer is written through the text printer's string writer (quoting and escaping applied); nothing "
                 "else is written", floor=2,
                 analysis="A5 partial evaluation of print_object / print_array (closures and helpers included) with the "
                          "buffer, the value and the output as tokens: the sequence of renderings and writes")
    consise = _variant_index(lib, "output_style::JsonStyle", "Consise")
    jadt = lib.adts.get("output_style::JsonOutputOptions")
    if consise is None or not jadt:
        r.missing("output_style::JsonStyle::Consise / JsonOutputOptions")
        return
    jf = [f["name"] for f in jadt["variants"][0]["fields"]]
    if "style" not in jf or "utf8_strings" not in jf:
        r.missing("JsonOutputOptions.{style, utf8_strings}")
        return
    SELF, OUT, VAL = ("tok", "self"), ("tok", "out"), ("tok", "val")
    for m, jm in (("print_object", "print_object"), ("print_array", "print_array")):
        b = lib.bodies.get(TEXTP + m)
        key = "TextPrinter::" + m
        if b is None:
            r.missing(TEXTP + m)
            continue
        events = []
        nbuf = [0]

        def model(c, av, envv, pe, jm=jm):
            n = c.name or ""
            cal = c.callee or ""
            if n.endswith("String::new") or n.endswith("String::with_capacity"):
                nbuf[0] += 1
                return (True, ("tok", "buf%d" % nbuf[0]))
            if n.startswith(JSONP) or (cal.startswith("output_style::Print::print") and
                                       "JsonOutputOptions" in (c.full or "")):
                events.append(("render", n[len(JSONP):] if n.startswith(JSONP) else cal.rsplit("::", 1)[-1],
                               pe._deref_all(envv, av[0]) if av else None,
                               pe._deref_all(envv, av[1]) if len(av) > 1 else None,
                               pe._deref_all(envv, av[2]) if len(av) > 2 else None))
                pe.keep_mut_args = True        # the buffer stays the same token (its contents are not tracked)
                return (True, OK(UNIT))
            if n.startswith(TEXTP) or (cal.startswith("output_style::Print::print") and "TextPrinter" in (c.full or "")):
                events.append(("text", n[len(TEXTP):] if n.startswith(TEXTP) else cal.rsplit("::", 1)[-1],
                               pe._deref_all(envv, av[0]) if av else None,
                               pe._deref_all(envv, av[1]) if len(av) > 1 else None,
                               pe._deref_all(envv, av[2]) if len(av) > 2 else None))
                return (True, OK(UNIT))
            if cal == "std::ops::Deref::deref" or n.endswith(("String::as_str", "String::as_mut_str")):
                x = pe._deref_all(envv, av[0]) if av else None
                if x is not None and x[0] == "tok":
                    return (True, ("rv", x))
                return None
            if is_write_fmt(c) or is_write_raw(c) or cal in ("std::fmt::Write::write_str", "std::fmt::Write::write_char"):
                events.append(("write", n or cal))
                return (True, OK(UNIT))
            return None
        pe = PE(b, model, eq_ok=common.derived_eq_ok(lib), max_states=20000, crate=lib)
        pe.model_in_closures = True
        problem = None
        try:
            res = pe.run(env={1: ("rv", SELF), 2: ("rv", OUT), 3: ("rv", VAL)})
        except RuntimeError as e:
            res = None
            problem = "not evaluated (%s): unrecognised idiom" % e
        if res is not None:
            renders = [e for e in events if e[0] == "render"]
            texts = [e for e in events if e[0] == "text"]
            writes = [e for e in events if e[0] == "write"]
            okret = [v for _, v in res.returns if v is not None and v[0] == "adt" and v[1] == 0]
            if res.forks:
                problem = "what is written depends on something other than the value (fork at bb%d): unrecognised " \
                          "idiom" % res.forks[0]
            elif writes:
                problem = "writes to the output directly"
            elif len(renders) != 1 or len(texts) != 1 or events.index(renders[0]) > events.index(texts[0]):
                problem = "expected one JSON rendering followed by one print_string call (found %s)" \
                          % [e[:2] for e in events]
            else:
                _, rm, opts, buf, val = renders[0]
                _, tm, recv, out, text = texts[0]
                st = opts[2][jf.index("style")] if opts is not None and opts[0] == "adt" and len(opts[2]) == len(jf) else None
                u8 = opts[2][jf.index("utf8_strings")] if st is not None or (opts is not None and opts[0] == "adt"
                                                                               and len(opts[2]) == len(jf)) else None
                if rm != jm:
                    problem = "the value is rendered by %s, not %s" % (rm, jm)
                elif st is None or st[0] != "adt" or st[1] != consise:
                    problem = "the nested JSON is not rendered in the concise style (whitespace or line breaks inside a field)"
                elif u8 != ("b", True):
                    problem = "the nested JSON is not rendered with utf8_strings = true"
                elif buf is None or buf[0] != "tok" or not buf[1].startswith("buf") or text != buf:
                    problem = "the text handed to print_string is not the buffer the JSON was rendered into"
                elif val != VAL:
                    problem = "the value rendered is not the value being printed"
                elif tm != "print_string" or recv != SELF or out != OUT:
                    problem = "print_string is not called on self with the output"
                elif not okret:
                    problem = "no Ok return reached"
        if problem:
            r.bad(key, problem, b.where())
        else:
            r.ok(key, "concise utf8 JSON -> buffer -> self.print_string", b.where())


def _text_write_kind(lib, b, pr, w, bufs):
    """Classify a write_fmt on the output by what it formats: 'V' (a buffer filled by the printer), 'S' (item
    separator), 'L' (line separator), or a description of anything else."""
    sep = fpath(lib, (TPRO, "printer"), (TPRN, "options"), (TOPT, "items_seperator"))
    line = fpath(lib, (TPRO, "line_seperator"))
    if is_write_raw(w):
        at = pr.origins(w.args[1]) if len(w.args) > 1 else set()
        core = [a for a in at if a[0] in ("arg", "call", "agg", "local", "const")]
        if sep and _only_self_field(at, sep):
            return "S"
        if line and _only_self_field(at, line):
            return "L"
        if bufs and core and all(a[0] == "call" and a[1] in bufs for a in core):
            return "V"
        return "<?data:" + ",".join(sorted({a[0] for a in at})) + ">"
    site_f = fmt_site(lib, w)
    if site_f is None:
        return "?template"
    kinds = []
    args = write_args(b, w)
    ai = 0
    for p in site_f["pieces"]:
        if "lit" in p:
            kinds.append("lit:%r" % p["lit"])
            continue
        if p["ph"] != "Display" or p["width"] or p["precision"] or ai >= len(args):
            kinds.append("?format")
            continue
        at = pr.origins(args[ai].args[0])
        ai += 1
        if sep and _only_self_field(at, sep):
            kinds.append("S")
        elif line and _only_self_field(at, line):
            kinds.append("L")
        elif bufs and [a for a in at if a[0] in ("arg", "call", "agg", "local", "const")] and \
                all(a[0] == "call" and a[1] in bufs for a in at if a[0] in ("arg", "call", "agg", "local", "const")):
            kinds.append("V")
        else:
            kinds.append("?data:" + ",".join(sorted({a[0] for a in at})))
    return "".join(k if len(k) == 1 else "<" + k + ">" for k in kinds)


def _printer_buffers(b, pr):
    """String::new() calls whose String is the output argument of a Print::print* call (the row / field buffers)."""
    out = set()
    for c in b.calls:
        if (c.callee or "").startswith("output_style::Print::print") and len(c.args) >= 2:
            for a in pr.origins(c.args[1]):
                if a[0] == "call" and (b.call_at[a[1]].name or "").endswith("String::new"):
                    out.add(a[1])
    return out


BYTES_OF = ("String::as_bytes", "str::<impl str>::as_bytes", "String::as_str")     # the same text, seen as bytes


def text_rows(rep, lib):
    r = rep.rule("C15-ROW", "a text/csv row is written as field (separator field)* line-separator, every field "
                 "being the printer's own rendering of that list element (quoting applied); header and data rows "
                 "go through the same print_list; nothing reaches the output that did not pass the printer; the "
                 "header-less error is raised before any write", floor=8,
                 analysis="A5 partial evaluation of print_list for 1..6 (thorough: 1..12) fields (token grammar) + A4 provenance "
                          "classification of every write in TextProcess + A1 callers + A2 dominance")
    pl = lib.bodies.get(TPRO + "::print_list")
    st = lib.bodies.get("<%s as processor::Process>::start" % TPRO)
    pc = lib.bodies.get("<%s as processor::Process>::process" % TPRO)
    if not pl or not st or not pc:
        r.missing("TextProcess::{print_list, start, process}")
        return
    # 1. classification of every output write in the three bodies
    members = sorted((n.rsplit("::", 1)[-1] if "closure" not in n else n.split(TPRO)[-1].lstrip(":> "), bd)
                     for n, bd in lib.bodies.items()
                     if n.startswith(TPRO + "::") or n.startswith("<%s as " % TPRO))
    for nm, b in members:
        pr = Prov(b, common.LOOK + ("Deref>::deref", "DerefMut>::deref_mut", "RefCell::<T>::borrow_mut") + BYTES_OF)
        prints = _printer_buffers(b, pr)
        for n, w in enumerate([c for c in b.calls if is_write_fmt(c) or is_write_raw(c)]):
            kind = _text_write_kind(lib, b, pr, w, prints)
            key = "TextProcess::%s#write[%d]" % (nm, n)
            if "?" in kind or "lit" in kind:
                r.bad(key, "writes %s to the output: data that did not pass the text printer (no quoting / escaping "
                      "applied) or a literal" % kind, w.where())
            else:
                r.ok(key, "writes %s" % kind, w.where())
    # 2. token grammar of print_list
    li = field_index(lib, TPRO, "length")
    nxt = [c for c in pl.calls if (c.callee or "") == "std::iter::Iterator::next" and pl.in_loop(c.bb)]
    if li is None or len(nxt) != 1:
        r.missing("TextProcess.length / the element loop of print_list")
    else:
        nfields = len(lib.adts[TPRO]["variants"][0]["fields"])
        pr = Prov(pl, common.LOOK + ("Deref>::deref", "DerefMut>::deref_mut", "RefCell::<T>::borrow_mut") + BYTES_OF)
        prints = _printer_buffers(pl, pr)
        enumerated = "Option<(usize," in nxt[0].dest.get("ty", "").replace(" ", "")
        for k in (range(1, 13) if common.TIER == "thorough" else range(1, 7)):
            selfv = [None] * nfields
            selfv[li] = ("i", k)
            toks = []

            def model(c, av, envv, pe, k=k):
                if c.bb == nxt[0].bb:
                    i = envv.get(-7, ("i", 0))[1]
                    envv[-7] = ("i", i + 1)
                    if i >= k:
                        return (True, NONE)
                    return (True, some(("adt", 0, (("i", i), ("i", 7000 + i))) if enumerated else ("i", 7000 + i)))
                if (c.callee or "").startswith("output_style::Print::print"):
                    return (True, OK(UNIT))
                if (c.name or "").endswith("::len"):
                    return (True, ("i", k))
                return None
            tr = trace(lib, pl, env={1: ("rv", ("adt", 0, tuple(selfv)))}, model=model, max_states=60000)
            key = "print_list/grammar[%d]" % k
            if not tr.deterministic:
                r.bad(key, "the sequence of writes depends on something other than the number of fields "
                      "(fork at bb%d): unrecognised idiom" % tr.fork, pl.where())
                continue
            seq = []
            for e in tr.events:
                if e[0] == "write":
                    seq.append(_text_write_kind(lib, pl, pr, e[1], prints))
                elif e[0] == "call" and (e[1].callee or "").startswith("output_style::Print::print"):
                    seq.append("p")
            got = "".join(seq)
            want = "S".join(["pV"] * k) + "L"
            if got == want:
                r.ok(key, "writes %s (p = printer.print into the buffer, V = buffer, S = separator, L = line end)"
                     % want, pl.where())
            else:
                r.bad(key, "for %d field(s) a row is written as %r, expected %r (p = printer.print into the buffer, "
                      "V = buffer, S = item separator, L = line separator)" % (k, got, want), pl.where())
        # the element printed is the iterated one, by self.printer
        pcs = [c for c in pl.calls if (c.callee or "").startswith("output_style::Print::print")]
        okp = len(pcs) == 1
        if okp:
            pth = fpath(lib, (TPRO, "printer"))
            okp = _is_self_field(pr.origins(pcs[0].args[0]), pth) and \
                any(a[0] == "call" and a[1] == nxt[0].bb for a in pr.origins(pcs[0].args[2])) and \
                pcs[0].method() == "print"
        if okp:
            r.ok("print_list/element", "self.printer.print(&mut buffer, element)", pcs[0].where())
        else:
            r.bad("print_list/element", "a field is not self.printer's rendering (Print::print, which also handles "
                  "absent values) of the iterated element", pl.where())
    # 3. who calls print_list, and with what
    cg_callers = []
    for name, b in lib.bodies.items():
        for c in b.calls:
            if (c.name or "") == TPRO + "::print_list":
                cg_callers.append((name, b, c))
    if not cg_callers:
        r.bad("print_list/callers", "print_list is never called", pl.where())
    else:
        good = True
        for n, b, c in cg_callers:
            pr = Prov(b, common.LOOK + ("Deref>::deref",))
            at = pr.origins(c.args[1])
            if not any(a[0] == "call" and (b.call_at[a[1]].name or "").endswith("::to_list") for a in at):
                good = False
                r.bad("print_list/callers", "%s prints a list that is not Titles::to_list() / Context::to_list()"
                      % n.rsplit("::", 1)[-1], c.where())
        if good:
            r.ok("print_list/callers", "%d caller(s), each printing a to_list() of titles or of the row's results"
                 % len(cg_callers), pl.where())
    # 4. header logic in start: decided for headers in {true,false} x titles in {0, 2}
    hp = fpath(lib, (TPRO, "printer"), (TPRN, "options"), (TOPT, "headers"))
    if hp is None:
        r.missing("TextOutputOptions.headers")
        return
    nfields = len(lib.adts[TPRO]["variants"][0]["fields"])
    for headers in (True, False):
        for ntitles in (0, 2):
            optv = [None] * len(lib.adts[TOPT]["variants"][0]["fields"])
            optv[field_index(lib, TOPT, "headers")] = ("b", headers)
            prnv = [None] * len(lib.adts[TPRN]["variants"][0]["fields"])
            prnv[field_index(lib, TPRN, "options")] = ("adt", 0, tuple(optv))
            selfv = [None] * nfields
            selfv[field_index(lib, TPRO, "printer")] = ("adt", 0, tuple(prnv))

            def model(c, av, envv, pe, ntitles=ntitles):
                if (c.name or "").endswith("Titles::len"):
                    return (True, ("i", ntitles))
                if (c.name or "") == TPRO + "::print_list":
                    return (True, OK(("adt", 0, ())))
                return None
            tr = trace(lib, st, env={1: ("rv", ("adt", 0, tuple(selfv)))}, model=model)
            key = "start[headers=%s,titles=%d]" % (str(headers).lower(), ntitles)
            printed = [e for e in tr.events if e[0] == "call" and (e[1].name or "") == TPRO + "::print_list"]
            rets = tr.res.returns
            is_err = bool(rets) and all(v is not None and v[0] == "adt" and v[1] == 1 for _, v in rets)
            is_ok = bool(rets) and all(v is not None and v[0] == "adt" and v[1] == 0 for _, v in rets)
            if not tr.deterministic:
                r.bad(key, "unrecognised idiom (fork at bb%d)" % tr.fork, st.where())
            elif headers and ntitles == 0:
                if is_err and not printed and not tr.writes():
                    r.ok(key, "rejected with an error before anything is written", st.where())
                else:
                    r.bad(key, "a header row is required but there is no selection: this must be an error raised "
                          "before any write", st.where())
            elif headers:
                if is_ok and len(printed) == 1 and not tr.writes():
                    r.ok(key, "one header row through print_list", st.where())
                else:
                    r.bad(key, "the header row is not written exactly once through print_list", st.where())
            else:
                if is_ok and not printed and not tr.writes():
                    r.ok(key, "no header row", st.where())
                else:
                    r.bad(key, "without --headers nothing may be written at start", st.where())
    # length is the number of titles
    pr = Prov(st, common.LOOK)
    lens = [(bb, idx, rv) for bb, idx, place, rv, _ in st.assignments()
            if place["l"] == 1 and tuple(p for p in place["p"] if p != "deref") == ("f%d" % li,)]
    if len(lens) == 1 and any(a[0] == "call" and (st.call_at[a[1]].name or "").endswith("Titles::len")
                              for a in pr._rv_origins(lens[0][2], (), lens[0][0], lens[0][1])):
        r.ok("start/length", "self.length = titles.len()", st.where())
    else:
        r.bad("start/length", "the field count is not set to the number of titles", st.where())


def selection_width(rep, lib, rid="C15-WIDTH"):
    r = rep.rule(rid, "every --select stage adds exactly one title at start and forwards, on every path, the context "
                 "extended by exactly one result for that title (present or absent), so titles and row fields stay "
                 "in lockstep", floor=2, analysis="A4 flow-sensitive provenance of the arguments of self.next.start / "
                                                  "self.next.process")
    st = None
    for s in common.stages(lib):
        if s.short == "SelectionProcess":
            st = s
    if st is None:
        r.missing("SelectionProcess")
        return
    name_f = field_index(lib, st.struct, "name")
    getter_f = field_index(lib, st.struct, "getter")
    for m, ext in (("start", "Titles::with_title"), ("process", "Context::with_result")):
        b = st.bodies.get(m)
        if b is None:
            r.missing("SelectionProcess::" + m)
            continue
        pr = Prov(b, common.LOOK)
        calls = st.next_calls(b, m)
        if not calls:
            r.bad("SelectionProcess::" + m, "never calls self.next.%s" % m, b.where())
            continue
        bad = None
        for c in calls:
            at = pr.call_arg_origins(c, 1)
            core = [a for a in at if a[0] in ("arg", "call")]
            via = [a for a in core if a[0] == "call" and (b.call_at[a[1]].name or "").endswith(ext)]
            if not core or len(via) != len(core):
                bad = (c, "self.next.%s can be handed a value that did not pass %s (the incoming one, unextended)"
                       % (m, ext))
                break
            for a in via:
                w = b.call_at[a[1]]
                nm = pr.origins(w.args[1])
                if not any(x[0] == "arg" and x[1] == 1 and ("f%d" % name_f) in x[2] for x in nm):
                    bad = (w, "%s is not given self.name" % ext)
        if bad:
            r.bad("SelectionProcess::" + m, bad[1], bad[0].where())
        else:
            r.ok("SelectionProcess::" + m, "every self.next.%s receives %s(self.name, ..)" % (m, ext), calls[0].where())


# ------------------------------------------------------------------ C15-BYTE-TEXT

def byte_text(rep, lib, rid="C15-BYTE-TEXT"):
    """A name given on the command line (a column title, a variable name) is UTF-8 text: it is collected as bytes and
    decoded. A byte cast to `char` is a Latin-1 code point, so pushing such a char onto a kept string spells every
    non-ASCII name wrongly (`Prénom` -> `PrÃ©nom`) in the header row."""
    r = rep.rule(rid, "no byte of option or input text becomes a character of a kept string by a bare `as char` "
                 "cast (that decodes UTF-8 as Latin-1): such casts feed error values and tests only", floor=5,
                 analysis="A7 census of u8 -> char casts + forward copy propagation to String-building calls")
    sinks = ("std::string::String::push", "std::string::String::insert", "std::string::String::extend",
             "<std::string::String as std::iter::Extend<char>>::extend",
             "<std::string::String as std::iter::FromIterator<char>>::from_iter")
    for name, b in sorted(lib.bodies.items()):
        sites = []
        for bb, idx, place, rv, _ in b.assignments():
            if rv["k"] == "cast" and rv.get("ty") == "char":
                src = (rv["op"].get("place") or {}).get("ty") or rv["op"].get("ty")
                if src == "u8" and not place["p"]:
                    sites.append((bb, place["l"]))
        for c in b.calls:
            if (c.name or "").endswith("<impl std::convert::From<u8> for char>::from") and not c.dest["p"]:
                sites.append((c.bb, c.dest["l"]))
        for k, (bb, l) in enumerate(sites):
            tainted = {l}
            grew = True
            while grew:
                grew = False
                for _bb, _idx, place, rv, _ in b.assignments():
                    if rv["k"] == "use" and rv["op"].get("k") in ("copy", "move") and rv["op"]["place"]["l"] in tainted \
                            and not place["p"] and place["l"] not in tainted:
                        tainted.add(place["l"])
                        grew = True
            hit = [c for c in b.calls if (c.name or "").startswith(sinks) and
                   any(a.get("k") in ("copy", "move") and a["place"]["l"] in tainted for a in c.args[1:])]
            key = "%s#cast[%d]" % (name[-60:], k)
            if hit:
                r.bad(key, "a byte cast to char is appended to a string (%s): every non-ASCII character of the text "
                      "is spelled as its UTF-8 bytes read as Latin-1" % hit[0].name, hit[0].where())
            else:
                r.ok(key, "feeds an error value / a test", b.where(bb), nontrivial=False)
    return r

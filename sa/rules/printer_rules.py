"""Rules about the JSON / text printers in output_style.rs (C02, C15; number printing shared with C19).

The central device is a *write trace*: a MIR body is partially evaluated (lib.peval) with the
values that decide its guards seeded (the current character, the --utf8-strings flag, the JSON
style, the variant of the value being printed ...), every `write!` on the explored path is joined
with its format_args template (post-expansion AST facts), and the text that path writes is
reconstructed from the literal pieces and the seeded values. Nothing of jawk is executed: only
the guards that depend on the seed are decided, everything else is explored on both edges and,
where a rule needs a single deterministic path, reported as an unrecognised idiom (fail closed).
"""
from lib.peval import PE, ok as OK, some, NONE
from lib.prov import Prov
from rules import common

UNIT = ("adt", 0, ())
JSONP = "<output_style::JsonOutputOptions as output_style::Print<W>>::"
TEXTP = "<output_style::TextPrinter as output_style::Print<W>>::"


# ------------------------------------------------------------------ helpers

def rust_str(s):
    """Decode the debug rendering of a &str constant ("..." with Rust escapes)."""
    if s is None or len(s) < 2 or s[0] != '"' or s[-1] != '"':
        return None
    s = s[1:-1]
    out = []
    i = 0
    while i < len(s):
        ch = s[i]
        if ch != "\\":
            out.append(ch)
            i += 1
            continue
        i += 1
        if i >= len(s):
            return None
        e = s[i]
        i += 1
        simple = {"n": "\n", "r": "\r", "t": "\t", "0": "\0", "\\": "\\", '"': '"', "'": "'"}
        if e in simple:
            out.append(simple[e])
        elif e == "x":
            out.append(chr(int(s[i:i + 2], 16)))
            i += 2
        elif e == "u":
            j = s.index("}", i)
            out.append(chr(int(s[i + 1:j], 16)))
            i = j + 1
        else:
            return None
    return "".join(out)


def fmt_index(lib):
    idx = getattr(lib, "_fmt_index", None)
    if idx is None:
        idx = {}
        for s in lib.fmt:
            l = s["loc"]
            idx.setdefault((l["file"], l["line"], l["col"]), []).append(s)
        lib._fmt_index = idx
    return idx


def fmt_site(lib, c):
    """format_args template of the write!/writeln! a write_fmt call belongs to (joined by macro call site)."""
    l = c.loc
    sites = fmt_index(lib).get((l["file"], l["line"], l.get("col")), [])
    return sites[0] if len(sites) == 1 else None


def is_write_fmt(c):
    n = c.callee or ""
    return n.endswith("::write_fmt")


def is_fmt_arg(c):
    return (c.name or "").startswith("core::fmt::rt::Argument::<'_>::new_")


def is_writeln(c):
    return any(e == "macro:writeln" for e in c.exp)


class Trace:
    """Ordered events of one partial evaluation: ("write", Call, text-or-None, pieces) and ("call", Call, argvals)."""

    def __init__(self):
        self.events = []
        self.res = None
        self.deterministic = True
        self.fork = None

    def writes(self):
        return [e for e in self.events if e[0] == "write"]

    def text(self):
        out = []
        for e in self.writes():
            if e[2] is None:
                return None
            out.append(e[2])
        return "".join(out)

    def calls(self, *suffixes):
        out = []
        for e in self.events:
            if e[0] == "call":
                n = e[1].name or ""
                cal = e[1].callee or ""
                if any(n.endswith(s) or cal.endswith(s) for s in suffixes):
                    out.append(e)
        return out


def render(site, args):
    """Text written by one template given the evaluated arguments [(trait, type, value)], or None."""
    out = []
    for p in site["pieces"]:
        if "lit" in p:
            out.append(p["lit"])
            continue
        k = p["arg"]
        if k >= len(args):
            return None
        trait, ty, v = args[k]
        if v is None:
            return None
        flags_plain = not (p["precision"] or p["fill"] or p["align"] or p["sign"] or p["alternate"] or p["debug_hex"])
        if not flags_plain:
            return None
        if p["ph"] == "Display" and ty == "char" and v[0] == "i" and not p["width"]:
            out.append(chr(v[1]))
        elif p["ph"] == "Display" and v[0] == "i" and not p["width"] and ty != "char":
            out.append(str(v[1]))
        elif p["ph"] in ("LowerHex", "UpperHex") and v[0] == "i" and v[1] >= 0:
            s = "%x" % v[1] if p["ph"] == "LowerHex" else "%X" % v[1]
            w = p["width"] or 0
            if len(s) < w:
                s = ("0" if p["zero_pad"] else " ") * (w - len(s)) + s
            out.append(s)
        elif p["ph"] == "Display" and v[0] == "s":
            out.append(v[1])
        else:
            return None
    return "".join(out)


def trace(lib, body, env=None, start=0, stop=(), model=None, skip_first_stmts=False, max_states=20000):
    """Partial evaluation of `body`; write_fmt answers Ok(()); returns a Trace."""
    tr = Trace()
    pending = []

    def m(c, av, envv, pe):
        if model is not None:
            r = model(c, av, envv, pe)
            if r is not None:
                tr.events.append(("call", c, av))
                return r
        if is_fmt_arg(c):
            v = pe._deref_all(envv, av[0]) if av else None
            pending.append((c.loc.get("line"), c.loc.get("col"),
                            (c.name.rsplit("new_", 1)[-1].split("::")[0], (c.gargs or ["?"])[-1], v)))
            return None
        if is_write_fmt(c):
            site = fmt_site(lib, c)
            text = None
            if site is not None:
                args = [a for (ln, col, a) in pending if ln == c.loc.get("line") and col == c.loc.get("col")]
                tmap = {"display": "Display", "lower_hex": "LowerHex", "upper_hex": "UpperHex", "debug": "Debug"}
                args = [(tmap.get(t, t), ty, v) for (t, ty, v) in args]
                text = render(site, args[-site["nargs"]:] if site["nargs"] else [])
            tr.events.append(("write", c, text, site))
            del pending[:]
            return (True, OK(UNIT))
        tr.events.append(("call", c, av))
        return None

    pe = PE(body, m, eq_ok=common.derived_eq_ok(lib), max_states=max_states)
    res = pe.run(start=start, env=env, stop=stop, at_start_skip_stmts=skip_first_stmts)
    tr.res = res
    if res.forks:
        tr.deterministic = False
        tr.fork = res.forks[0]
    return tr


def body_int_consts(body):
    out = set()

    def op(o):
        if o and o.get("k") == "const" and "int" in o:
            out.add(o["int"])

    def scan(raw):
        for b in raw["blocks"]:
            for s in b["stmts"]:
                if s["k"] != "assign":
                    continue
                rv = s["rv"]
                for k in ("op", "a", "b"):
                    if k in rv and isinstance(rv[k], dict):
                        op(rv[k])
                for o in rv.get("ops", []):
                    op(o)
            t = b["term"]
            if t["k"] == "switch":
                for v, _ in t["arms"]:
                    out.add(v)
            for o in t.get("args", []):
                op(o)
        for p in raw.get("promoted", []):
            scan(p)
    scan(body.raw)
    return out


def valid_scalar(v):
    return 0 <= v <= 0x10FFFF and not (0xD800 <= v <= 0xDFFF)


# ------------------------------------------------------------------ RFC 8259 string-body decoder (the oracle)

_SIMPLE = {'"': 0x22, "\\": 0x5C, "/": 0x2F, "b": 8, "f": 0xC, "n": 0xA, "r": 0xD, "t": 9}


def json_string_body_decode(s):
    """Code points denoted by the inside of a JSON string literal, or None if it is not valid RFC 8259."""
    out = []
    i = 0
    n = len(s)
    while i < n:
        ch = s[i]
        o = ord(ch)
        if ch == '"' or o < 0x20:
            return None
        if ch != "\\":
            out.append(o)
            i += 1
            continue
        if i + 1 >= n:
            return None
        e = s[i + 1]
        if e in _SIMPLE:
            out.append(_SIMPLE[e])
            i += 2
            continue
        if e != "u" or i + 6 > n:
            return None
        h = s[i + 2:i + 6]
        if any(c not in "0123456789abcdefABCDEF" for c in h):
            return None
        u = int(h, 16)
        i += 6
        if 0xD800 <= u <= 0xDBFF:
            if s[i:i + 2] == "\\u" and i + 6 <= n:
                h2 = s[i + 2:i + 6]
                if all(c in "0123456789abcdefABCDEF" for c in h2):
                    u2 = int(h2, 16)
                    if 0xDC00 <= u2 <= 0xDFFF:
                        out.append(0x10000 + ((u - 0xD800) << 10) + (u2 - 0xDC00))
                        i += 6
                        continue
            return None
        if 0xDC00 <= u <= 0xDFFF:
            return None
        out.append(u)
    return out


CLASSES = [
    ("C0-short-escapes", [8, 9, 10, 12, 13]),
    ("C0-other", [c for c in range(0x20) if c not in (8, 9, 10, 12, 13)]),
    ("quote", [0x22]),
    ("backslash", [0x5C]),
    ("solidus", [0x2F]),
    ("ascii-printable", [c for c in range(0x20, 0x7F) if c not in (0x22, 0x5C, 0x2F)]),
    ("DEL", [0x7F]),
    ("C1", list(range(0x80, 0xA0))),
    ("BMP", [0xA0, 0xFF, 0x100, 0x7FF, 0x800, 0x2027, 0x2028, 0x2029, 0x202A, 0xD7FF, 0xE000, 0xFFFD, 0xFFFE, 0xFFFF]),
    ("astral", [0x10000, 0x10001, 0x1F603, 0xFFFFF, 0x100000, 0x10FFFE, 0x10FFFF]),
]


def _class_of(v):
    for name, vs in CLASSES[:8]:
        if v in vs:
            return name
    return "BMP" if v <= 0xFFFF else "astral"


def _uc(v):
    return "U+%04X" % v


def json_string_table(rep, lib, reader_decoded=None):
    """C02-STRING-TABLE: what JsonOutputOptions::print_string writes for every character class."""
    r = rep.rule("C02-STRING-TABLE", "for every character and both settings of --utf8-strings the text "
                 "JsonOutputOptions::print_string writes for that character is a valid RFC 8259 string fragment that "
                 "denotes exactly that character (mandatory escapes for `\"`, `\\` and U+0000-U+001F; \\u escapes "
                 "are four hex digits, surrogate pairs above U+FFFF), and the opening and closing quotes are written "
                 "on every path", floor=20,
                 analysis="A5 partial evaluation of the character loop seeded with (character, utf8 flag) for all of "
                          "U+0000-U+00FF, the class boundaries and every constant of the body +-1; the written text is "
                          "rebuilt from the format_args templates and decoded by an independent RFC 8259 decoder")
    r2 = rep.rule("C02-ESC-AGREE", "every escape the JSON string writer emits is decoded by jawk's own reader "
                  "(read_string) to the character it was written for, so jawk's output is a fixpoint of jawk",
                  floor=8, analysis="writer table (above) joined with the reader's escape table (C01-ESCAPES)")
    b = lib.bodies.get(JSONP + "print_string")
    if b is None:
        r.missing(JSONP + "print_string")
        return
    adt = lib.adts.get("output_style::JsonOutputOptions")
    fields = [f["name"] for f in adt["variants"][0]["fields"]] if adt else []
    if "utf8_strings" not in fields:
        r.missing("JsonOutputOptions.utf8_strings")
        return
    fi = fields.index("utf8_strings")
    nexts = [c for c in b.calls if (c.full or "").startswith("<std::str::Chars<'_> as std::iter::Iterator>::next")]
    if len(nexts) != 1 or not b.in_loop(nexts[0].bb):
        r.missing("the `for ch in value.chars()` loop (found %d Chars::next sites)" % len(nexts))
        return
    site = nexts[0]
    reps = set(range(0x100))
    for _, vs in CLASSES:
        reps.update(vs)
    for c in body_int_consts(b):
        for d in (-1, 0, 1):
            reps.add(c + d)
    reps = sorted(v for v in reps if valid_scalar(v))
    r.note("%d representative characters x 2 flag values; constants of the body: %s"
           % (len(reps), sorted(c for c in body_int_consts(b) if valid_scalar(c))[:40]))
    used_escapes = {}
    texts = {}
    for utf8 in (False, True):
        selfv = [None] * len(fields)
        selfv[fi] = ("b", utf8)
        env = {1: ("rv", ("adt", 0, tuple(selfv)))}
        bad = {}
        good = {}
        for v in reps:
            def model(c, av, envv, pe, v=v):
                if c.bb == site.bb:
                    return (True, some(("i", v)))
                return None
            tr = trace(lib, b, env=env, start=site.bb, stop={site.bb}, model=model)
            cls = _class_of(v)
            if not tr.deterministic:
                bad.setdefault(cls, []).append((v, "the path taken for this character depends on something other "
                                                "than the character and the utf8 flag (fork at bb%d): unrecognised idiom"
                                                % tr.fork))
                continue
            if site.bb not in {bb2 for (_, bb2) in tr.res.edges}:
                bad.setdefault(cls, []).append((v, "the loop does not continue with the next character"))
                continue
            text = tr.text()
            if text is None:
                bad.setdefault(cls, []).append((v, "a write whose text cannot be reconstructed (unrecognised template "
                                                "or argument)"))
                continue
            dec = json_string_body_decode(text)
            if dec != [v]:
                why = "not a valid JSON string fragment" if dec is None else \
                    "denotes %s" % " ".join(_uc(x) for x in dec)
                bad.setdefault(cls, []).append((v, "writes %r, which is %s" % (text, why)))
                continue
            good.setdefault(cls, []).append((v, text))
            texts[(utf8, v)] = text
            if len(text) == 2 and text[0] == "\\":
                used_escapes[text[1]] = v
        for cls, _ in CLASSES:
            key = "print_string[utf8=%s]/%s" % ("on" if utf8 else "off", cls)
            if cls in bad:
                v, why = bad[cls][0]
                r.bad(key, "%s: %s (%d of the class's representatives fail: %s)"
                      % (_uc(v), why, len(bad[cls]), ", ".join(_uc(x) for x, _ in bad[cls][:6])), b.where(site.bb))
            elif cls in good:
                ex = good[cls][0]
                r.ok(key, "%d representative(s) decode to themselves, e.g. %s -> %r"
                     % (len(good[cls]), _uc(ex[0]), ex[1]), b.where(site.bb))
            else:
                r.bad(key, "no representative evaluated", b.where(site.bb))
    # quotes: the opening quote dominates the loop, the closing quote is on every non-error return path
    wsites = [(c, fmt_site(lib, c)) for c in b.calls if is_write_fmt(c)]
    quote_sites = [c for c, s in wsites if s and s["pieces"] == [{"lit": "\""}]]
    opening = [c for c in quote_sites if b.dominates(c.bb, site.bb)]
    closing = [c for c in quote_sites if not b.dominates(c.bb, site.bb)]
    if len(opening) != 1:
        r.bad("print_string/opening-quote", "the string is not opened by exactly one `\"` written before the loop",
              b.where())
    else:
        r.ok("print_string/opening-quote", "one `\"` dominates the character loop", opening[0].where())
    from rules.pipeline_rules import non_error_escape
    esc = non_error_escape(b, [c.bb for c in closing], start=site.bb) if closing else [0]
    # the end-of-string edge: Chars::next == None
    if not closing or esc:
        r.bad("print_string/closing-quote", "a return that is not an error is reachable from the loop without writing "
              "the closing `\"`", b.where())
    else:
        r.ok("print_string/closing-quote", "every non-error return after the loop passes the closing `\"`",
             closing[0].where())
    _string_bypass(r, lib, b, site, texts)
    # reader agreement
    if reader_decoded is None:
        r2.missing("reader escape table (C01-ESCAPES did not produce one)")
        return
    for letter, v in sorted(used_escapes.items()):
        key = "escape[\\%s]" % letter
        got = reader_decoded.get(ord(letter))
        if got != v:
            r2.bad(key, "the writer emits \\%s for %s but the reader decodes \\%s to %s" % (
                letter, _uc(v), letter, "nothing" if got is None else _uc(got)), b.where())
        else:
            r2.ok(key, "writer %s -> \\%s -> reader %s" % (_uc(v), letter, _uc(got)), b.where())


def _string_bypass(r, lib, b, site, texts):
    """Every character is written by the per-character decision: no non-error return bypasses the loop, and no
    write formats the string parameter itself - except a guarded fast path `value.bytes()/chars().all(pred)` that
    writes `"{value}"`, which is accepted iff for every byte/char the predicate admits the per-character path
    writes that very character raw (decided by partial evaluation of the predicate over its whole domain)."""
    from rules.pipeline_rules import err_blocks
    pr = Prov(b, common.LOOK)
    key = "print_string/every-char-through-the-table"
    direct = []
    for c in b.calls:
        if is_fmt_arg(c):
            at = pr.origins(c.args[0])
            if any(a[0] == "arg" and a[1] == 3 for a in at) and not any(a[0] == "call" and a[1] == site.bb for a in at):
                direct.append(c)
        elif not is_write_fmt(c) and not (c.callee or "").startswith("std::fmt::Arguments"):
            # any other call that is handed the writer: write_str / write_char / a helper
            for a in c.args:
                if a.get("k") in ("copy", "move") and any(x[0] == "arg" and x[1] == 2 for x in pr.origins(a)):
                    direct.append(c)
                    break
    bypass = b.must_pass({site.bb} | err_blocks(b), b.returns())
    if not direct and not bypass:
        r.ok(key, "no write formats the string parameter itself and every non-error return has passed the "
             "character loop", b.where(site.bb))
        return
    alls = [c for c in b.calls if (c.callee or "") == "std::iter::Iterator::all" and not b.in_loop(c.bb)]
    if len(alls) != 1 or len(direct) != 1 or not is_fmt_arg(direct[0]):
        c = (direct or [None])[0]
        r.bad(key, "the string (or part of it) can be written without passing the per-character escaping decision"
              " (%s): unrecognised idiom" % ("call of %s" % (c.full or c.name) if c else "a return bypasses the loop"),
              c.where() if c else b.where())
        return
    al = alls[0]
    clos = None
    for bb, idx, place, rv, _ in b.assignments():
        if rv["k"] == "agg" and rv.get("agg") == "closure" and rv.get("closure") in lib.bodies:
            if any(a.get("k") in ("copy", "move") and a["place"]["l"] == place["l"] for a in al.args):
                clos = lib.bodies[rv["closure"]]
    # the fast write must be `"{value}"` and be dominated by the true edge of all()
    w = [c for c in b.calls if is_write_fmt(c) and c.loc.get("line") == direct[0].loc.get("line")
         and c.loc.get("col") == direct[0].loc.get("col")]
    site_f = fmt_site(lib, w[0]) if w else None
    shape = site_f and [p.get("lit", "{}") for p in site_f["pieces"]] == ['"', "{}", '"']
    sw = b.term(al.target) if al.target is not None else None
    guarded = False
    if sw and sw["k"] == "switch" and w:
        true_t = sw["otherwise"]
        guarded = b.edge_dominates((al.target, true_t), w[0].bb) and all(v == 0 for v, _ in sw["arms"])
    if clos is None or not shape or not guarded or clos.arg_count != 2:
        r.bad(key, "a fast path writes the string without the per-character decision and is not of the recognised "
              "form `if value.bytes().all(pred) { return write!(f, \"\\\"{value}\\\"\") }`", direct[0].where())
        return
    dom_ty = clos.local_ty(2)
    domain = range(256) if dom_ty == "u8" else sorted(v for (u, v) in texts if not u)
    admitted = []
    for v in domain:
        res = PE(clos, None, eq_ok=common.derived_eq_ok(lib)).run(env={2: ("i", v)})
        vals = {x for _, x in res.returns}
        if vals != {("b", False)}:
            admitted.append(v)
    wrong = []
    for v in admitted:
        if dom_ty == "u8" and v >= 0x80:
            wrong.append((v, "bytes of a multi-byte character"))
            continue
        for utf8 in (False, True):
            t = texts.get((utf8, v))
            if t != chr(v):
                wrong.append((v, "per-character path writes %r" % t))
                break
    if wrong:
        r.bad(key, "the fast path writes %d admitted character(s) raw although the per-character decision escapes "
              "them: %s" % (len(wrong), ", ".join("%s (%s)" % (_uc(v), why) for v, why in wrong[:6])),
              direct[0].where())
    else:
        r.ok(key, "fast path admits %d characters, each of which the per-character path also writes raw"
             % len(admitted), direct[0].where())


# ------------------------------------------------------------------ value dispatch

def _variant_index(lib, adt, name):
    a = lib.adts.get(adt)
    if not a:
        return None
    for i, v in enumerate(a["variants"]):
        if v["name"] == name:
            return i
    return None


def dispatch(rep, lib, rid="C02-DISPATCH"):
    """Print::print / print_something / print_number call the printer method of the value's own kind."""
    r = rep.rule(rid, "the provided methods of trait Print select the printer method by the value's variant: "
                 "None->print_nothing, Null->print_null, true->print_true, false->print_false, Number->print_number "
                 "(Float->print_f64, Negative->print_i64, Positive->print_u64), String->print_string, "
                 "Array->print_array, Object->print_object, and pass that variant's own payload", floor=11,
                 analysis="A5 partial evaluation with the discriminant (and the bool payload) of the argument seeded")
    ps = lib.bodies.get("output_style::Print::print_something")
    pn = lib.bodies.get("output_style::Print::print_number")
    pp = lib.bodies.get("output_style::Print::print")
    if not ps or not pn or not pp:
        r.missing("Print::{print, print_something, print_number}")
        return
    J = "json_value::JsonValue"
    N = "json_value::NumberValue"
    cases = []
    for name, payload, want in (("Null", (), "print_null"), ("Boolean", (("b", True),), "print_true"),
                                ("Boolean", (("b", False),), "print_false"), ("Number", (None,), "print_number"),
                                ("String", (None,), "print_string"), ("Array", (None,), "print_array"),
                                ("Object", (None,), "print_object")):
        vi = _variant_index(lib, J, name)
        if vi is None:
            r.missing("JsonValue::" + name)
            continue
        cases.append((ps, "print_something[%s%s]" % (name, "" if name != "Boolean" else "(%s)" % str(payload[0][1]).lower()),
                      ("adt", vi, payload), want, vi if payload == (None,) else None))
    for name, want in (("Float", "print_f64"), ("Negative", "print_i64"), ("Positive", "print_u64")):
        vi = _variant_index(lib, N, name)
        if vi is None:
            r.missing("NumberValue::" + name)
            continue
        cases.append((pn, "print_number[%s]" % name, ("adt", vi, (None,)), want, vi))
    cases.append((pp, "print[None]", NONE, "print_nothing", None))
    cases.append((pp, "print[Some]", some(None), "print_something", 1))
    for body, key, val, want, payload_variant in cases:
        env = {3: ("rv", val)}
        tr = trace(lib, body, env=env)
        called = [e[1] for e in tr.events if e[0] == "call" and (e[1].callee or "").startswith("output_style::Print::")]
        names = [c.method() for c in called]
        if not tr.deterministic:
            r.bad(key, "the method chosen depends on something other than the value's variant (fork at bb%d)" % tr.fork,
                  body.where())
        elif names != [want]:
            r.bad(key, "calls %s, expected exactly %s" % (names or "nothing", want), body.where())
        else:
            # the payload handed over is the matched variant's own field
            c = called[0]
            okp = True
            detail = ""
            if payload_variant is not None and len(c.args) >= 3:
                pr = Prov(body, common.LOOK)
                atoms = pr.origins(c.args[2])
                okp = any(a[0] == "arg" and a[1] == 3 and any(str(p).startswith("dc%d" % payload_variant) for p in a[2])
                          for a in atoms)
                detail = " with the %s payload" % key
            if okp:
                r.ok(key, "-> %s%s" % (want, detail), c.where())
            else:
                r.bad(key, "%s is not given the payload of the matched variant" % want, c.where())


def json_keywords(rep, lib):
    r = rep.rule("C02-KEYWORDS", "the JSON printer writes exactly `null`, `true`, `false` for the three literals and "
                 "nothing for an absent value", floor=4, analysis="format_args templates of the four bodies")
    for m, want in (("print_null", "null"), ("print_true", "true"), ("print_false", "false"), ("print_nothing", "")):
        b = lib.bodies.get(JSONP + m)
        if b is None:
            r.missing(JSONP + m)
            continue
        tr = trace(lib, b)
        text = tr.text()
        if not tr.deterministic or text != want:
            r.bad("JsonOutputOptions::" + m, "writes %r, RFC 8259 wants %r" % (text, want), b.where())
        else:
            r.ok("JsonOutputOptions::" + m, "writes %r" % want, b.where())


# ------------------------------------------------------------------ structure / styles

STYLES = ("OneLine", "Consise", "Pretty")
WS = set(" \t\n\r")


def _style_env(lib, style):
    adt = lib.adts.get("output_style::JsonOutputOptions")
    fields = [f["name"] for f in adt["variants"][0]["fields"]]
    si = fields.index("style")
    vi = _variant_index(lib, "output_style::JsonStyle", style)
    selfv = [None] * len(fields)
    selfv[si] = ("adt", vi, ())
    return {1: ("rv", ("adt", 0, tuple(selfv)))}


def _literal_writes(lib, tr):
    """[(Call, literal text or None)] of the direct writes on a trace."""
    out = []
    for e in tr.writes():
        site = e[3]
        if site is None or any("ph" in p for p in site["pieces"]):
            out.append((e[1], None))
        else:
            txt = "".join(p["lit"] for p in site["pieces"])
            if is_writeln(e[1]) and not txt.endswith("\n"):
                txt += "\n"
            out.append((e[1], txt))
    return out


def json_structure(rep, lib):
    r = rep.rule("C02-STRUCT", "per JSON style, the structural writers emit only JSON structural characters and "
                 "insignificant whitespace: concise emits no whitespace at all, one-line no line break, pretty breaks "
                 "the line before every element; a separator is exactly one comma; members are `key: value` with the "
                 "key written by the JSON string writer; brackets open and close on every non-error path; no data is "
                 "written by the structural writers themselves", floor=24,
                 analysis="A5 partial evaluation per style + format_args templates + A2 ordering inside the element loop")
    if not lib.adts.get("output_style::JsonOutputOptions") or not lib.adts.get("output_style::JsonStyle"):
        r.missing("JsonOutputOptions / JsonStyle")
        return
    names = [v["name"] for v in lib.adts["output_style::JsonStyle"]["variants"]]
    if sorted(names) != sorted(STYLES):
        r.bad("JsonStyle", "the styles are %s; the rule knows %s (unrecognised)" % (names, list(STYLES)), "")
        return
    ic = lib.bodies.get("output_style::JsonOutputOptions::insert_comma")
    ii = lib.bodies.get("output_style::JsonOutputOptions::insert_indent")
    po = lib.bodies.get("output_style::JsonOutputOptions::print_object_with_indent")
    pa = lib.bodies.get("output_style::JsonOutputOptions::print_array_with_indent")
    for nm, bd in (("insert_comma", ic), ("insert_indent", ii), ("print_object_with_indent", po),
                   ("print_array_with_indent", pa)):
        if bd is None:
            r.missing("JsonOutputOptions::" + nm)
    if not (ic and ii and po and pa):
        return
    for style in STYLES:
        env = _style_env(lib, style)
        # separator
        tr = trace(lib, ic, env=env)
        text = tr.text()
        key = "insert_comma[%s]" % style
        if not tr.deterministic or text is None:
            r.bad(key, "the separator written is not decided by the style alone (unrecognised idiom)", ic.where())
        elif text.count(",") != 1 or set(text) - WS - {","}:
            r.bad(key, "writes %r: an element separator must be exactly one comma plus insignificant whitespace" % text,
                  ic.where())
        elif style == "Consise" and text != ",":
            r.bad(key, "writes %r: the concise style has no insignificant whitespace" % text, ic.where())
        elif style == "OneLine" and ("\n" in text or "\r" in text):
            r.bad(key, "writes %r: the one-line style has no line break" % text, ic.where())
        else:
            r.ok(key, "writes %r" % text, ic.where())
        # indentation (loop over an unknown depth: set of pieces)
        tr = trace(lib, ii, env=env)
        lits = _literal_writes(lib, tr)
        key = "insert_indent[%s]" % style
        txts = [t for _, t in lits]
        if any(t is None for t in txts):
            r.bad(key, "writes data (a placeholder), not just whitespace", ii.where())
        elif any(set(t) - WS for t in txts):
            r.bad(key, "writes %r: indentation must be insignificant whitespace only" % [t for t in txts if set(t) - WS][0],
                  ii.where())
        elif style == "Consise" and any(txts):
            r.bad(key, "writes %r: the concise style has no insignificant whitespace" % txts[0], ii.where())
        elif style == "OneLine" and any("\n" in t or "\r" in t for t in txts):
            r.bad(key, "writes a line break in the one-line style", ii.where())
        elif style == "Pretty" and not any("\n" in t for t in txts):
            r.bad(key, "the pretty style does not start a new line before an element", ii.where())
        elif style == "Pretty" and not _pretty_indent_ok(lib, ii, env):
            r.bad(key, "the pretty style's line break is not written on every path, before the indentation", ii.where())
        else:
            r.ok(key, "writes %s" % (sorted(set(txts)) or "nothing"), ii.where())
        # containers
        for nm, bd, opn, cls, empty in (("print_object_with_indent", po, "{", "}", "{}"),
                                        ("print_array_with_indent", pa, "[", "]", "[]")):
            tr = trace(lib, bd, env=env, max_states=60000)
            lits = _literal_writes(lib, tr)
            key = "%s[%s]" % (nm, style)
            txts = [t for _, t in lits]
            allowed = set("[]{}:,") | (set() if style == "Consise" else ({" "} if style == "OneLine" else WS))
            if any(t is None for t in txts):
                c = [c for c, t in lits if t is None][0]
                r.bad(key, "writes data directly (a `{}` placeholder) instead of going through a print_* method",
                      c.where())
                continue
            badt = [t for t in txts if set(t) - allowed]
            if badt:
                r.bad(key, "writes %r; allowed characters in this style: %r" % (badt[0], "".join(sorted(allowed))),
                      bd.where())
                continue
            need = {opn, cls, empty} | ({":"} if nm.startswith("print_object") else set())
            have = set(t.strip() for t in txts)
            if not need <= have:
                r.bad(key, "never writes %s" % sorted(need - have), bd.where())
                continue
            r.ok(key, "direct writes %s" % sorted(set(txts)), bd.where())
    _container_shape(r, lib, po, True)
    _container_shape(r, lib, pa, False)


def _pretty_indent_ok(lib, ii, env):
    """On the paths the pretty style takes, the first write is the line break, outside the indentation loop,
    and no non-error return is reachable without it."""
    tr = trace(lib, ii, env=env)
    lits = _literal_writes(lib, tr)
    if not lits or lits[0][1] is None or "\n" not in lits[0][1]:
        return False
    nl = lits[0][0].bb
    if ii.in_loop(nl):
        return False
    succ = {}
    for a, b in tr.res.edges:
        succ.setdefault(a, []).append(b)
    seen = {0}
    work = [0]
    while work:
        a = work.pop()
        if a == nl:
            continue
        for b in succ.get(a, []):
            if b not in seen:
                seen.add(b)
                work.append(b)
    for bb, v in tr.res.returns:
        if bb in seen and bb != nl and (v is None or (v[0] == "adt" and v[1] == 0)):
            return False
    # every other write is reachable only through the line break
    return all(c.bb not in seen or c.bb == nl for c, _ in lits)


def _returns_ok(tr, bb):
    for b, v in tr.res.returns:
        if b == bb and (v is None or (v[0] == "adt" and v[1] == 0)):
            return True
    return False


def _container_tokens(lib, b, is_object, style, k, null_variant):
    """Token stream written by a container printer for a container of k scalar elements in one style:
    literal writes as their text, K = self.print_string(key), V = the element's printer, C = insert_comma,
    I = insert_indent. Returns (tokens or None, reason)."""
    nxt = [c for c in b.calls if (c.callee or "") == "std::iter::Iterator::next" and b.in_loop(c.bb)]
    if len(nxt) != 1:
        return None, "expected one iterator-driven element loop, found %d" % len(nxt)
    nx = nxt[0]
    item_ty = nx.dest.get("ty", "")
    enumerated = "Option<(usize," in item_ty.replace(" ", "")
    toks = []

    def model(c, av, envv, pe):
        n = c.name or ""
        cal = c.callee or ""
        if c.bb == nx.bb:
            i = envv.get(-7, ("i", 0))[1]
            envv[-7] = ("i", i + 1)
            if i >= k:
                return (True, NONE)
            elem = ("rv", ("adt", null_variant, ()))
            if is_object:
                elem = ("adt", 0, (("i", 5000 + i), elem))
            return (True, some(("adt", 0, (("i", i), elem)) if enumerated else elem))
        if n.endswith("::len") or cal.endswith("::len"):
            return (True, ("i", k))
        if n.endswith("::is_empty") or cal.endswith("::is_empty"):
            return (True, ("b", k == 0))
        if n.endswith("insert_comma"):
            toks.append("C")
            return (True, OK(UNIT))
        if n.endswith("insert_indent"):
            toks.append("I")
            return (True, OK(UNIT))
        if n.endswith("_with_indent") or cal.endswith("Print::print_something") \
                or (cal.startswith("output_style::Print::print_") and not cal.endswith("print_string")):
            toks.append("V")
            return (True, OK(UNIT))
        if cal.endswith("Print::print_string") or n.endswith("Print<W>>::print_string"):
            toks.append("K")
            return (True, OK(UNIT))
        return None

    tr = trace(lib, b, env=_style_env(lib, style), model=model, max_states=60000)
    if not tr.deterministic:
        return None, "the writes depend on something other than the style and the element count (fork at bb%d)" % tr.fork
    # merge literal writes into the token stream in event order
    out = []
    ti = 0
    for e in tr.events:
        if e[0] == "write":
            site = e[3]
            if site is None or any("ph" in p for p in site["pieces"]):
                return None, "a write with a placeholder (data written directly)"
            out.append("".join(p["lit"] for p in site["pieces"]))
        elif e[0] == "call":
            n = e[1].name or ""
            cal = e[1].callee or ""
            if n.endswith("insert_comma"):
                out.append("C")
            elif n.endswith("insert_indent"):
                out.append("I")
            elif n.endswith("_with_indent") or cal.endswith("Print::print_something") \
                    or (cal.startswith("output_style::Print::print_") and not cal.endswith("print_string")):
                out.append("V")
            elif cal.endswith("Print::print_string") or n.endswith("Print<W>>::print_string"):
                out.append("K")
    oks = [v for _, v in tr.res.returns if v is not None and v[0] == "adt" and v[1] == 0]
    if not oks:
        return None, "no Ok return reached"
    return out, ""


def _container_shape(r, lib, b, is_object):
    """Derive the token stream of the container printers for 0..3 elements in each style and compare with the
    JSON grammar (style-dependent whitespace included); then the provenance of key, value and depth."""
    import re
    nm = b.name.rsplit("::", 1)[-1]
    nullv = _variant_index(lib, "json_value::JsonValue", "Null")
    opn, cls = ("{", "}") if is_object else ("[", "]")
    for style in STYLES:
        sp = "" if style == "Consise" else " "
        member = ("IK:" + sp + "V") if is_object else "IV"
        for k in (0, 1, 2, 3):
            key = "%s/grammar[%s,%d]" % (nm, style, k)
            toks, why = _container_tokens(lib, b, is_object, style, k, nullv)
            if toks is None:
                r.bad(key, "unrecognised idiom: %s" % why, b.where())
                continue
            got = "".join(toks)
            want = (opn + cls) if k == 0 else opn + "C".join([member] * k) + "I" + cls
            if got == want:
                r.ok(key, "writes %s" % want, b.where())
            else:
                r.bad(key, "for %d element(s) the %s style writes the sequence %r, the JSON grammar wants %r "
                      "(K = key via print_string, V = value, C = insert_comma, I = insert_indent)"
                      % (k, style, got, want), b.where())
    nxt = [c for c in b.calls if (c.callee or "") == "std::iter::Iterator::next" and b.in_loop(c.bb)]
    if len(nxt) != 1:
        return
    nx = nxt[0]
    pr = Prov(b, common.LOOK)
    value_prints = [c for c in b.calls if b.in_loop(c.bb) and (
        (c.name or "").endswith("print_array_with_indent") or (c.name or "").endswith("print_object_with_indent")
        or (c.callee or "").endswith("Print::print_something"))]
    keyp = [c for c in b.calls if (c.callee or "").endswith("Print::print_string") or
            (c.name or "").endswith("Print<W>>::print_string")]
    indents = [c for c in b.calls if (c.name or "").endswith("insert_indent")]

    def plus_one(at):
        return any(a[0] == "op" and a[1].startswith("binop:Add") for a in at) and \
            any(a[0] == "const" and a[1].startswith("1_") for a in at) and any(a[0] == "arg" and a[1] == 4 for a in at)
    # depth: elements and nested containers at indent + 1, closing bracket at indent
    bad = None
    for c in indents:
        at = pr.origins(c.args[2])
        if b.in_loop(c.bb):
            if not plus_one(at):
                bad = (c, "an element is not indented by indent + 1")
        elif at != {("arg", 4, ())}:
            bad = (c, "the closing bracket is not indented by the container's own depth")
    for v in value_prints:
        if (v.name or "").endswith("_with_indent") and not plus_one(pr.origins(v.args[3])):
            bad = (v, "a nested container is not printed at depth indent + 1")
    if bad:
        r.bad(nm + "/depth", "nesting-proportional indentation: %s" % bad[1], bad[0].where())
    elif len(indents) >= 2:
        r.ok(nm + "/depth", "elements and nested containers at depth indent + 1, closing bracket at depth indent",
             indents[0].where())
    else:
        r.bad(nm + "/depth", "insert_indent is not called before the elements and before the closing bracket", b.where())
    # the values printed are the iterated elements, by self
    half = "f1" if is_object else None
    okv = bool(value_prints)
    for v in value_prints:
        at = pr.origins(v.args[2])
        from_iter = any(a[0] == "call" and a[1] == nx.bb and (half is None or any(p == half for p in a[2])) for a in at)
        recv = pr.origins(v.args[0])
        if not from_iter or not any(a[0] == "arg" and a[1] == 1 for a in recv):
            okv = False
            r.bad(nm + "/element", "the value printed is not the iterated element printed by self", v.where())
            break
    if okv:
        r.ok(nm + "/element", "%d value printers, each given the iterated element" % len(value_prints),
             value_prints[0].where())
    if is_object:
        if len(keyp) != 1:
            r.bad(nm + "/key", "the member name is not written by exactly one call of the JSON string writer "
                  "(found %d)" % len(keyp), b.where())
            return
        kc = keyp[0]
        recv = pr.origins(kc.args[0])
        keyat = pr.origins(kc.args[2])
        from_pair = any(a[0] == "call" and a[1] == nx.bb and any(p == "f0" for p in a[2]) for a in keyat)
        if not any(a[0] == "arg" and a[1] == 1 for a in recv):
            r.bad(nm + "/key", "the member name is printed by another printer than self (other escaping options)",
                  kc.where())
        elif not from_pair:
            r.bad(nm + "/key", "the text handed to print_string is not the key of the iterated member", kc.where())
        else:
            r.ok(nm + "/key", "self.print_string(key of the iterated member)", kc.where())


# ------------------------------------------------------------------ row framing

def json_row(rep, lib):
    r = rep.rule("C02-ROW", "JsonProcess::process writes one row = the text of Context::build() printed by the "
                 "configured JSON printer, followed by exactly one row separator, in a single write", floor=3,
                 analysis="A4 provenance of the write's two arguments + format_args template")
    b = lib.bodies.get("<output_style::JsonProcess as processor::Process>::process")
    if b is None:
        r.missing("JsonProcess::process")
        return
    ws = [c for c in b.calls if is_write_fmt(c) or (c.callee or "").endswith("Write::write_fmt")]
    if len(ws) != 1:
        r.bad("JsonProcess::process/one-write", "expected one write per row, found %d" % len(ws), b.where())
        return
    site = fmt_site(lib, ws[0])
    if not site or [("ph" in p and p["ph"]) for p in site["pieces"]] != ["Display", "Display"]:
        r.bad("JsonProcess::process/template", "the row template is not `{}{}` (row text, row separator): %s"
              % (site and site["pieces"]), ws[0].where())
        return
    r.ok("JsonProcess::process/template", "`{}{}`", ws[0].where())
    args = [c for c in b.calls if is_fmt_arg(c)]
    pr = Prov(b, common.LOOK + ("Deref>::deref",))
    adt = lib.adts.get("output_style::JsonProcess")
    fields = [f["name"] for f in adt["variants"][0]["fields"]] if adt else []
    if len(args) != 2 or "line_seperator" not in fields or "printer" not in fields:
        r.bad("JsonProcess::process/args", "cannot identify the two arguments of the row template", ws[0].where())
        return
    a0 = pr.origins(args[0].args[0])
    a1 = pr.origins(args[1].args[0])
    sep = "f%d" % fields.index("line_seperator")
    is_sep = lambda at: any(a[0] == "arg" and a[1] == 1 and sep in a[2] for a in at)
    # the buffer: a local String filled by print_something (outparam)
    ps = [c for c in b.calls if (c.callee or "").endswith("Print::print_something")]
    filled = any(a[0] == "outparam" and ps and a[1] == ps[0].bb for a in a0) or \
        any(a[0] == "call" and (b.call_at[a[1]].name or "").endswith("String::new") for a in a0)
    if is_sep(a1) and not is_sep(a0) and filled and len(ps) == 1:
        r.ok("JsonProcess::process/args", "(buffer printed by print_something, self.line_seperator)", ws[0].where())
    else:
        r.bad("JsonProcess::process/args", "the row is not written as (printed text, then self.line_seperator)",
              ws[0].where())
        return
    p = ps[0]
    recv = pr.origins(p.args[0])
    val = pr.origins(p.args[2])
    pf = "f%d" % fields.index("printer")
    from_build = any(a[0] == "call" and (b.call_at[a[1]].name or "").endswith("Context::build") for a in val)
    if any(a[0] == "arg" and a[1] == 1 and pf in a[2] for a in recv) and from_build:
        r.ok("JsonProcess::process/value", "self.printer.print_something(&mut buffer, &context.build())", p.where())
    else:
        r.bad("JsonProcess::process/value", "the text is not self.printer's rendering of context.build()", p.where())

"""C15 — csv/text rows have one field per selection and csv is machine-readable."""
from rules import printer_rules as PR
from rules import number_rules as NR
from rules import common

INFO = {
    "decided": "The structural conditions for an RFC 4180 reader to recover the fields: (a) the csv preset is comma "
               "separated, quotes strings with one and the same `\"` on both sides, escapes exactly that character by "
               "doubling, writes a header, True/False/null and an empty field for an absent value; (b) the text "
               "string writer emits prefix, then per character the escape-table entry looked up by that character "
               "or the character itself, then postfix, and the table is first-character -> rest of each entry; "
               "(c) nested arrays/objects are rendered as concise UTF-8 JSON and passed through that string writer; "
               "null/true/false/absent use their own configured keywords; numbers are written with a plain `{}`; the "
               "value dispatch is by the value's own variant; (d) a row is field (separator field)* line-end for 1..6 (1..12 in the thorough tier) "
               "fields, every field being the printer's rendering of the iterated element, header and rows share "
               "print_list, nothing reaches the output without passing the printer, the header-less error precedes "
               "any write; (e) every --select stage adds one title and forwards a context extended by exactly one "
               "result on every path, so the number of fields equals the number of titles. with_result appends exactly one entry to the results on every path. One title per selection (a repeated name is a column of its own); the JSON structure rules for nested values; Clone impls field-wise; Context::build shape. No byte of option or input text becomes a character of a kept string by a bare `as char` cast (names are decoded as UTF-8).",
    "not_decided": "That every row has exactly N fields as a run-time count for arbitrary N (the separator guard is "
                   "decided for 1..6 fields, 1..12 in the thorough tier), text-mode behaviour under arbitrary user-supplied separator / escape "
                   "options, and what an external csv reader does.",
    "trusted": ["RFC 4180 quoting rules as encoded in printer_rules.csv_preset",
                "core::fmt `{}` of a String/char writes it verbatim"],
}


def run(ctx, rep):
    lib = ctx.lib
    PR.csv_preset(rep, lib)
    PR.text_escape_table(rep, lib)
    PR.text_string_writer(rep, lib)
    PR.text_keywords(rep, lib)
    PR.text_nested(rep, lib)
    # the text of a nested array / object is the JSON printer's concise text: member names written by the string
    # writer, separators and brackets in place (shared with C02)
    PR.json_structure(rep, lib)
    from rules import common as _common
    _common.clone_faithful(rep, lib)
    titles_push(rep, lib)
    from rules import c12 as _c12
    _c12.build_shape(rep, lib)
    PR.dispatch(rep, lib, rid="C15-DISPATCH")
    NR.print_direct(rep, lib, rid="C15-NUMFMT")
    PR.text_rows(rep, lib)
    PR.selection_width(rep, lib)
    PR.byte_text(rep, lib)
    # the row itself: with_result appends exactly one entry and changes nothing else
    from rules import c12
    common.share(c12, ctx, rep, {"C12-FRAME", "C12-EXTEND"}, key_prefixes=["with_result.results"], floors={"C12-FRAME": 0, "C12-EXTEND": 0})


def titles_push(rep, lib):
    """One title per selection, in order."""
    from lib.prov import Prov
    from rules import pipeline_rules as _P
    r = rep.rule("C15-TITLES", "Titles::with_title appends the new title on every path (a repeated name is a column "
                 "of its own): the header and the width of the rows have one entry per selection", floor=1,
                 analysis="A4 provenance of the appended value + A2 must-pass-through")
    b = lib.bodies.get("processor::Titles::with_title")
    if b is None:
        r.missing("Titles::with_title")
        return r
    pr = Prov(b, common.LOOK)
    adds = []
    for c in b.calls:
        t = (c.name or "").rsplit("::", 1)[-1]
        if t in ("push", "once", "push_back", "extend_one", "insert") or (c.name or "").endswith("iter::once"):
            for i in range(len(c.args)):
                if any(a[0] == "arg" and a[1] == 2 for a in pr.call_arg_origins(c, i)):
                    adds.append(c)
                    break
    if not adds:
        r.bad("with_title#append", "the new title is never appended", b.where())
        return r
    esc = b.must_pass({c.bb for c in adds}, b.returns(), start=0)
    if esc:
        r.bad("with_title#append", "the new title is not appended on every path: a selection can lose its column",
              adds[0].where(), witness=_P.witness(b, 0, esc[0], [c.bb for c in adds]))
    elif any(b.in_loop(c.bb) for c in adds):
        r.bad("with_title#append", "the new title is appended in a loop", adds[0].where())
    else:
        r.ok("with_title#append", "appended once on every path", adds[0].where())
    return r

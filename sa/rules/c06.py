"""C06 — noise between values never changes them; --on-error policies do what they say."""
from lib.peval import PE, ok as OK, some, NONE
from lib.prov import Prov
from rules import common
from rules import c06_shared
from rules import parser_rules as PR

INFO = {
    "decided": "The routing of diagnostics and the fatal/recoverable split in read_input, per policy: an "
               "unrecoverable (I/O) error returns before the policy is consulted; ignore writes nothing; panic "
               "returns the error; stdout / stderr write exactly one `error:` line to their own stream and nowhere "
               "else, propagate a failed write, and continue; a successfully parsed value and end of input produce no "
               "diagnostic; the `error:` template exists nowhere else; after a recoverable error exactly the offending "
               "byte has been consumed (every byte that cannot start a value is consumed once, a malformed reserved "
               "word stops at the mismatching byte); the insignificant-whitespace set is exactly RFC 8259's, so "
               "whitespace-delimited noise is delimited the same way values are; a turn of the read loop that ends in a "
               "recoverable error moves neither the per-file nor the run-wide counter (so &index of the values does "
               "not depend on the noise), and next_json_value has consumed at least one byte before any return while "
               "input remains (the retry loop advances). Each of the 235 byte values that can neither start a value nor are blank costs exactly one byte of input; both sinks write every row before process() returns; every malformed-input error without an io::Error is recoverable. No io::Error is made up in the crate (malformed input never becomes the fatal IoError).",
    "not_decided": "That the values around the noise come out as the same values (C01's run-time remainder) and the "
                   "number of error lines per region.",
    "trusted": ["sa/tables/rfc8259.toml"],
}


def run(ctx, rep):
    lib = ctx.lib
    c06_shared.route(rep, lib)
    c06_shared.recover(rep, lib, rid="C16-RECOVER", require_recoverable=True)
    PR.io_origin(rep, lib)
    # ------------------------------------------------------------ CLEAN
    r = rep.rule("C06-CLEAN", "a parsed value and end of input produce no diagnostic; the `error:` template and the "
                 "stderr parameter are used only in read_input's error arm", floor=4,
                 analysis="A5 partial evaluation with next_json_value()=Ok(..) + format-template census + field-use census")
    ri = common.read_input_body(lib)
    mf, cf = c06_shared.master_fields(lib)
    if ri is None or mf is None:
        r.missing("Master::read_input")
    else:
        njv = [c for c in ri.calls if (c.callee or "").endswith("next_json_value")]
        hdrs = [h for h, blocks in ri.loops().items() if njv and njv[0].bb in blocks]
        if not njv:
            r.missing("the next_json_value call of read_input (the read loop is not written as a loop that calls the "
                      "parser: unrecognised idiom)")
        for label, val in (() if not njv else (("Ok(Some(value))", OK(some(None))), ("Ok(None)", OK(NONE)))):
            def model(c, av, env, pe, val=val):
                if c.bb == njv[0].bb:
                    return (True, val)
                return None
            res = PE(ri, model, eq_ok=common.derived_eq_ok(lib)).run(start=njv[0].bb, stop=hdrs)
            w = [c for _, c, _ in res.calls if "Write::write" in (c.callee or "")
                 or (c.name or "").endswith("RefCell::<T>::borrow_mut")]
            key = "read_input[%s]" % label
            if w:
                r.bad(key, "a diagnostic can be written although the value was parsed successfully / the input ended",
                      w[0].where())
            else:
                r.ok(key, "no write reachable", njv[0].where())
        # template census
        n_err = 0
        for cr_name, cr in (("lib", lib), ("bin", ctx.bin)):
            for site in cr.fmt:
                lits = [p["lit"] for p in site["pieces"] if "lit" in p]
                if lits and lits[0].startswith("error:"):
                    fn = cr.fn_at(site["loc"]["file"], site["loc"]["line"])
                    n_err += 1
                    if lib.roots_of(fn) == {ri.name} if cr is lib else fn == ri.name:
                        r.ok("template error:@%s#%d" % (fn, n_err), "inside read_input", "%s:%d" % (site["loc"]["file"], site["loc"]["line"]),
                             nontrivial=False)
                    else:
                        r.bad("template error:@%s" % fn, "an `error:` line is produced outside read_input's policy dispatch",
                              "%s:%d" % (site["loc"]["file"], site["loc"]["line"]))
        if n_err == 0:
            r.ok("template error:", "no literal `error:` template in the crate (the prefix is not a template literal any "
                 "more): where diagnostics are written is decided by C06-ROUTE and the stderr census below", ri.where(),
                 nontrivial=False)
        # stderr field use census across Master methods
        if "stderr" not in mf:
            r.missing("the stderr field of Master (the diagnostics stream is not a field of Master any more: "
                      "unrecognised idiom)")
        fs = "f%d" % (mf.index("stderr") if "stderr" in mf else 10 ** 6)
        for name, b in lib.bodies.items():
            if not name.startswith("Master::<S>::") or name.endswith("::new"):
                continue
            if lib.roots_of(name) and lib.roots_of(name) != {name}:
                continue      # a function new to the rules: judged where it is inlined
            uses = 0
            for bb, idx, place, rv, _ in b.assignments():
                pl = rv.get("place") if rv["k"] in ("ref", "discr") else (rv.get("op", {}).get("place") if rv["k"] in ("use", "cast") else None)
                if pl and pl["l"] == 1:
                    fld = [x for x in pl["p"] if x.startswith("f") and x[1:].isdigit()]
                    if fld and fld[0] == fs:
                        uses += 1
            if uses and name != ri.name:
                r.bad("Master.stderr@" + name, "the stderr parameter is used outside read_input", b.where())
            elif uses:
                r.ok("Master.stderr@" + name, "%d use(s), all in read_input (routing decided by C06-ROUTE)" % uses, b.where(),
                     nontrivial=False)
    # ------------------------------------------------------------ resynchronisation
    PR.resync(rep, lib)
    PR.dispatch(rep, lib)
    PR.ws(rep, lib)
    # noise must not move the ordinals the values are given, and must be stepped over one byte at a time
    from rules import c17
    from rules import progress_rules as PG
    c17.counters(rep, lib)
    from rules import pipeline_rules as _P
    _P.sink_immediate(rep, lib)
    PG.recover_consumes(rep, ctx)
    PG.resync_one_byte(rep, ctx)

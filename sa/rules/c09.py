"""C09 — --group-by / --merge emit exactly one complete collection at end of input."""
from lib.peval import PE, ok as OK
from lib.prov import Prov
from rules import common
from rules import pipeline_rules as P
from rules.common import LOOK

INFO = {
    "decided": "In the collecting stages (GrouperProcess, Merger): process() never calls the successor and always "
               "answers Continue; complete() calls next.process exactly once, outside any loop and on every "
               "non-error path (so an empty collection is still emitted); start() hands the successor fresh Titles; "
               "the collected rows are produced by the same Context::build the JSON sink uses; every stage in front "
               "of them forwards start and complete, complete is signalled exactly once, and Master::go reaches "
               "complete on every non-error path. Per-row scenarios decided by partial evaluation: a row is stored exactly when the group key is a string (once, as Context::build(row), under that key, in an insertion-ordered map read front to back); merge stores every row. For text output the group object / merged array is spelled as the top-level printer spells nested values (concise UTF-8 JSON through the string writer). Clone impls are field-wise; Context::build is the object of the selections whenever there are selections.",
    "not_decided": "Key order, membership and which rows survive (run-time values of the maps and vectors).",
    "trusted": ["sa/tables/pipeline_order.toml"],
}

COLLECT = ["grouper::GrouperProcess", "merger::Merger"]


def run(ctx, rep):
    lib = ctx.lib
    r1 = rep.rule("C09-EMIT-ONCE", "complete() of a collecting stage calls self.next.process exactly once, not in a "
                  "loop, and every non-error return passes it", floor=2, analysis="A2 must-pass + natural loops")
    r2 = rep.rule("C09-NO-EARLY-EMIT", "process() of a collecting stage never calls through self.next and every "
                  "return is Ok(Continue)", floor=2, analysis="A4 receiver provenance + A5 partial evaluation")
    r3 = rep.rule("C09-TITLES", "start() of a collecting stage hands the successor Titles::default()", floor=2,
                  analysis="A4 provenance")
    r4 = rep.rule("C09-BUILD", "the collected row is Context::build of the incoming context (the same row the JSON "
                  "sink prints)", floor=2, analysis="A1/A4")
    names = [v["name"] for v in lib.adts["processor::ProcessDesision"]["variants"]]
    cont = OK(("adt", names.index("Continue"), ()))
    sts = {s.struct: s for s in common.stages(lib)}
    for sname in COLLECT:
        st = sts.get(sname)
        if st is None:
            r1.missing(sname)
            continue
        cb, pb, sb = st.bodies.get("complete"), st.bodies.get("process"), st.bodies.get("start")
        # EMIT-ONCE
        sites = st.next_calls(cb, "process") if cb else []
        key = st.short + "::complete"
        if len(sites) != 1:
            r1.bad(key, "expected exactly one self.next.process call in complete(), found %d" % len(sites),
                   cb.where() if cb else "")
        elif cb.in_loop(sites[0].bb):
            r1.bad(key, "the collection is emitted inside a loop (one row per key/element instead of one collection)",
                   sites[0].where())
        else:
            esc = P.non_error_escape(cb, [sites[0].bb])
            if esc:
                r1.bad(key, "a non-error return of complete() skips the emission: an empty collection (or some "
                       "other case) is never printed", cb.where(), witness=P.witness(cb, 0, esc[0], [sites[0].bb]))
            else:
                r1.ok(key, "single unconditional emission", sites[0].where())
        # NO-EARLY-EMIT
        key = st.short + "::process"
        if pb is None:
            r2.missing(key)
        else:
            early = st.next_calls(pb)
            res = PE(pb, eq_ok=common.derived_eq_ok(lib)).run()
            badret = [(bb, v) for bb, v in res.returns if v != cont]
            if early:
                r2.bad(key, "process() calls the successor (%s): rows are emitted before the end of input"
                       % early[0].method(), early[0].where())
            elif badret:
                r2.bad(key, "process() may return something other than Ok(Continue): %s" % (badret[0][1],),
                       pb.where(badret[0][0]))
            else:
                r2.ok(key, "%d return(s), all Ok(Continue)" % len(res.returns), pb.where())
        # TITLES
        key = st.short + "::start"
        if sb is None:
            r3.missing(key)
        else:
            ss = st.next_calls(sb, "start")
            pr = Prov(sb, LOOK)
            good = bool(ss)
            for c in ss:
                srcs = [sb.call_at[a[1]] for a in pr.call_arg_origins(c, 1) if a[0] == "call"]
                if not srcs or not all((x.full or "").startswith("<processor::Titles as std::default::Default>::default")
                                       for x in srcs):
                    good = False
                    r3.bad(key, "the successor is started with titles that are not Titles::default(): the printer "
                           "would expect one column per selection instead of a single value", c.where())
            if good:
                r3.ok(key, "Titles::default()", ss[0].where())
            elif not ss:
                r3.bad(key, "start() does not start the successor", sb.where())
        # BUILD
        key = st.short + "::process#row"
        if pb is not None:
            pr = Prov(pb, LOOK)
            builds = [c for c in pb.calls if c.name == "processor::Context::build"]
            okb = [c for c in builds if any(a[0] == "arg" and a[1] == 2 for a in pr.origins(c.args[0]))]
            others = [c for c in pb.calls if (c.name or "").startswith("processor::Context::")
                      and c.name.rsplit("::", 1)[-1] in ("input", "to_list", "key", "parent_input")]
            if not okb:
                r4.bad(key, "process() does not collect Context::build() of the incoming row", pb.where())
            elif others:
                r4.bad(key, "process() also reads %s of the context: the collected row may differ from the printed row"
                       % others[0].name, others[0].where())
            else:
                r4.ok(key, "Context::build(context)", okb[0].where())
    # everything in front must forward the protocol
    # the collecting stage sits behind the limiter (it collects the retained rows) and in front of the sink only
    P.order(rep, lib)
    P.start_forward(rep, lib)
    P.complete_forward(rep, lib)
    P.complete_once(rep, lib)
    P.go_protocol(rep, lib)
    collect_scenarios(rep, lib)
    P.limiter_machine(rep, lib, rid="C09-LIMITER-MACHINE")
    # "the grouped rows are the same rows the ungrouped pipeline would print", text output: the group object / the
    # merged array reach the text printer as a nested value, which must spell strings as the top-level printer does
    # (concise UTF-8 JSON through the string writer) - shared with C15
    from rules import printer_rules as _PR
    _PR.text_nested(rep, lib)
    # rows are cloned when they are stored and again when the collection is emitted
    common.clone_faithful(rep, lib)
    from rules import c12 as _c12
    _c12.build_shape(rep, lib)


def collect_scenarios(rep, lib):
    """What the collecting stages store per row, by partial evaluation with the key lookup seeded."""
    from lib.machine import run_method
    from lib.peval import some, NONE
    r = rep.rule("C09-COLLECT", "GrouperProcess::process stores a row exactly when the group key is a string: once, as "
                 "Context::build(row), appended to the entry of that very key in an insertion-ordered map; rows whose "
                 "key is absent, null, a number, a boolean, an array or an object are dropped and nothing is stored; "
                 "Merger::process stores every row once; both always answer Continue; complete() reads the stored "
                 "collection front to back", floor=9,
                 analysis="A5 partial evaluation of process() (following local &self helpers) with the key getter's "
                          "answer seeded to each JSON kind; A1 callee census of the container operations")
    jv = lib.adts.get("json_value::JsonValue")
    dec = lib.adts.get("processor::ProcessDesision")
    if not jv or not dec:
        r.missing("JsonValue / ProcessDesision")
        return
    vn = [v["name"] for v in jv["variants"]]
    CONT = OK(("adt", [v["name"] for v in dec["variants"]].index("Continue"), ()))
    BUILT = ("tok", "built-row")
    KEY = ("tok", "the-key-string")
    for struct in COLLECT:
        st = [s for s in common.stages(lib) if s.struct == struct]
        if not st or "process" not in st[0].bodies:
            r.missing(struct + "::process")
            continue
        st = st[0]
        b = st.bodies["process"]
        nfields = len(st.fields)
        kinds = [("absent", NONE)]
        for name in vn:
            payload = () if name == "Null" else ((KEY,) if name == "String" else (None,))
            kinds.append((name, some(("adt", vn.index(name), payload))))
        if struct.endswith("Merger"):
            kinds = [("any row", None)]
        for label, answer in kinds:
            ev = []

            def model(c, av, envv, pe, answer=answer):
                n = c.name or ""
                if c.trait == common.GET_TRAIT:
                    return (True, answer)
                if n == "processor::Context::build":
                    ev.append(("build",))
                    return (True, BUILT)
                if "IndexMap" in n and n.endswith("::entry"):
                    ev.append(("entry", pe._deref_all(envv, av[1]) if len(av) > 1 else None))
                    return (True, ("tok", "entry"))
                if n.endswith("Entry::<'a, K, V>::or_default") or n.endswith("::or_default") or n.endswith("::or_insert_with"):
                    return (True, ("tok", "bucket"))
                if n.endswith("Vec::<T, A>::push") or n.endswith("Vec::<T>::push"):
                    ev.append(("push", pe._deref_all(envv, av[1]) if len(av) > 1 else None))
                    return (True, ("adt", 0, ()))
                if "IndexMap" in n and n.endswith("::insert"):
                    ev.append(("insert", pe._deref_all(envv, av[1]) if len(av) > 1 else None))
                    return (True, NONE)
                return None
            try:
                outs = run_method(lib, b, ("adt", 0, tuple([None] * nfields)), model, eq_ok=common.derived_eq_ok(lib))
            except RuntimeError:
                outs = []
            key = "%s::process[key %s]" % (st.short, label) if struct.endswith("GrouperProcess") else \
                "%s::process[%s]" % (st.short, label)
            rets = {rv for _, rv in outs}
            stores = [e for e in ev if e[0] in ("push", "insert")]
            want_store = struct.endswith("Merger") or label == "String"
            problem = None
            if not outs or rets != {CONT}:
                problem = "does not always answer Ok(Continue) (%s)" % sorted(map(str, rets))[:2]
            elif want_store:
                if len(stores) != 1 or stores[0][1] != BUILT or ev.count(("build",)) != 1:
                    problem = "the row is not stored exactly once as Context::build(row): events %s" % ev
                elif struct.endswith("GrouperProcess"):
                    ents = [e for e in ev if e[0] == "entry"]
                    if len(ents) != 1 or ents[0][1] != KEY:
                        problem = "the row is not appended to the entry of its own key string: events %s" % ev
            elif stores or any(e[0] == "entry" for e in ev):
                problem = "a row whose key is %s is stored (it must be dropped)" % label
            if problem:
                r.bad(key, problem, b.where())
            else:
                r.ok(key, "stored once under its key" if want_store and struct.endswith("GrouperProcess")
                     else ("stored once" if want_store else "dropped"), b.where())
        # complete() walks the stored collection front to back
        cb = st.bodies.get("complete")
        if cb is not None:
            from rules.progress_rules import loop_driver, iter_type
            tys = []
            for h, blocks in cb.loops().items():
                tys += [iter_type(c) for c in loop_driver(cb, blocks, h)]
            # whatever the shape (a loop, or iter().map(..).collect()): nothing in complete() may reverse, sort or
            # otherwise permute what it reads, and the collection is read through a forward iterator
            PERMUTE = ("::rev", "Rev<", "sort", "reverse", "rotate_", "swap", "next_back", "rfold", "rposition",
                       "::pop", "last", "shuffle", "retain", "dedup", "remove")
            perm = [c for c in cb.calls if any(x in (c.full or c.name or "") or x in c.dest.get("ty", "") for x in PERMUTE)]
            fwd = [c for c in cb.calls if any(x in c.dest.get("ty", "") for x in
                                              ("indexmap::map::Iter<", "std::slice::Iter<", "indexmap::map::IntoIter<",
                                               "std::vec::IntoIter<"))]
            loops_ok = all(t and "Rev<" not in t and ("indexmap::map::Iter" in t or "std::slice::Iter" in t) for t in tys)
            if perm:
                r.bad(st.short + "::complete#order", "the stored rows are reversed / reordered on their way out (%s)"
                      % (perm[0].full or perm[0].name), perm[0].where())
            else:
                # a loop over a forward iterator, an iterator chain, drain(..), into_iter() or the collection moved
                # out as a whole (mem::take): none of them reorders
                r.ok(st.short + "::complete#order", "no reversing / permuting call on the way out (%s)" % (
                    (tys or [c.dest.get("ty", "") for c in fwd] or ["moved as a whole"])[0][:60]),
                    cb.where(), nontrivial=False)

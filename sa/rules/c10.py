"""C10 — --unique removes exactly the later duplicates, by the same equality as `=`."""
from lib.peval import PE, ok as OK
from lib.prov import Prov
from rules import common
from rules import number_rules as NR
from rules.common import LOOK

INFO = {
    "decided": "Hash/equality coherence of the hand-written Hash for JsonValue rests on one invariant - an integral "
               "value in range is never represented as Float - and that invariant holds structurally: "
               "NumberValue::Float is constructed only in From<f64> for JsonValue, whose normalisation window is "
               "exact on every region its constants define; `=`/`!=` and the HashSet<ContextKey> use the same "
               "equality (ContextKey's PartialEq/Eq/Hash are derived over JsonValue's, `=` resolves to JsonValue's "
               "PartialEq); Uniquness::process forwards the row exactly when HashSet::insert answered true, returns "
               "the successor's answer, answers Continue otherwise, and inserts the key of the very row it "
               "forwards; Context::key chooses between the input and the selected values only by whether any "
               "selection exists. NumberValue::eq, evaluated by partial evaluation on all pairs of the interoperable universe, equals exact rational equality; Hash::hash feeds equal canonical numbers the same sequence; every return of Uniquness::process has consulted the key set and the stage holds no other state.",
    "not_decided": "The value logic of NumberValue::eq on run-time numbers; -0 and member-order permutations are "
                   "outside the property's own quantifier.",
    "trusted": ["std HashSet: insert returns true iff the value was not present (by Eq + Hash)"],
}


def run(ctx, rep):
    lib = ctx.lib
    NR.float_ctor(rep, lib)
    NR.float_window(rep, lib)
    NR.num_eq(rep, ctx)
    NR.num_hash(rep, ctx)
    # ------------------------------------------------------------ EQ-SAME
    r = rep.rule("C10-EQ-SAME", "`=` and `!=` resolve to PartialEq for JsonValue; ContextKey's PartialEq, Eq and Hash "
                 "are derived; the duplicate set is a HashSet<ContextKey>", floor=6, analysis="A1 resolved callees + impl facts")
    for fn in ("eq", "neq"):
        bs = [b for n, b in lib.bodies.items() if n.startswith("<functions::boolean::compare::%s::" % fn)
              and n.endswith("as selection::Get>::get")]
        key = "compare::%s" % fn
        if not bs:
            r.missing(key)
            continue
        cs = [c for c in bs[0].calls if (c.callee or "").startswith("std::cmp::PartialEq::")]
        if len(cs) == 1 and (cs[0].full or "").startswith("<json_value::JsonValue as std::cmp::PartialEq>::"):
            r.ok(key, cs[0].full, cs[0].where())
        else:
            r.bad(key, "`%s` does not compare with PartialEq for JsonValue: %s" % (fn, [c.full for c in cs]), bs[0].where())
    for tr in ("std::cmp::PartialEq", "std::cmp::Eq", "std::hash::Hash"):
        imps = [i for i in lib.impls if i.get("trait") == tr and i["self"] == "processor::ContextKey"]
        key = "ContextKey:%s" % tr.rsplit("::", 1)[-1]
        if len(imps) == 1 and imps[0]["derived"]:
            r.ok(key, "derived", "", nontrivial=False)
        elif tr == "std::cmp::PartialEq" and len(imps) == 1 and common.eq_structural(lib, "processor::ContextKey") is None:
            r.ok(key, "hand-written, structural for every pair of variants", "")
        else:
            r.bad(key, "ContextKey's %s is not the derived one: row keys may compare differently from `=`" % tr, "")
    u = lib.adts.get("duplication_remover::Uniquness")
    if u and any(f["ty"].startswith("std::collections::HashSet<processor::ContextKey") for f in u["variants"][0]["fields"]):
        r.ok("Uniquness.knwon_lines", "HashSet<ContextKey>", "", nontrivial=False)
    else:
        r.bad("Uniquness.knwon_lines", "the duplicate set is not a HashSet<ContextKey>", "")
    # JsonValue equality itself must be the derived structural one over NumberValue::eq
    je = [i for i in lib.impls if i.get("trait") == "std::cmp::PartialEq" and i["self"] == "json_value::JsonValue"]
    if len(je) == 1 and je[0]["derived"]:
        r.ok("JsonValue:PartialEq", "derived (structural over NumberValue::eq)", "", nontrivial=False)
    elif len(je) == 1 and common.eq_structural(lib, "json_value::JsonValue") is None:
        r.ok("JsonValue:PartialEq", "hand-written, evaluated for all 36 pairs of variants: structural (different "
             "variants unequal, equal variants compared field by field with ==)", "", nontrivial=True)
    else:
        r.bad("JsonValue:PartialEq", "PartialEq for JsonValue is hand-written: coherence with Hash is no longer "
              "given by the Float invariant alone", "")
    # ------------------------------------------------------------ FIRST-ONLY
    r = rep.rule("C10-FIRST-ONLY", "Uniquness::process forwards the row iff HashSet::insert answered true, returns "
                 "the successor's decision, answers Ok(Continue) for a duplicate, and the inserted key is the key "
                 "of the row it forwards", floor=3, analysis="A5 partial evaluation with insert() seeded + A4 provenance")
    st = [s for s in common.stages(lib) if s.struct == "duplication_remover::Uniquness"]
    if not st:
        r.missing("duplication_remover::Uniquness")
    else:
        st = st[0]
        pb = st.bodies.get("process")
        ins = [c for c in pb.calls if (c.name or "").endswith("HashSet::<T, S>::insert")
               or (c.name or "").endswith("HashSet::<T, S, A>::insert")] if pb else []
        names = [v["name"] for v in lib.adts["processor::ProcessDesision"]["variants"]]
        cont = OK(("adt", names.index("Continue"), ()))
        if len(ins) != 1:
            r.missing("single HashSet::insert in Uniquness::process")
        else:
            ins = ins[0]
            nxt = st.next_calls(pb, "process")
            # nothing but the set decides: every return of process() has consulted HashSet::insert
            esc = pb.must_pass([ins.bb], pb.returns())
            if esc:
                r.bad("Uniquness::process#only-the-set-decides", "a row can be dropped or forwarded without the "
                      "set of row keys being consulted (a return is reachable that has not passed HashSet::insert)",
                      pb.where(esc[0]))
            else:
                r.ok("Uniquness::process#only-the-set-decides", "every return has passed HashSet::insert", ins.where())
            extra = [f["name"] for f in st.fields if not common.is_box_process(f["ty"]) and "HashSet<" not in f["ty"]]
            if extra:
                r.bad("Uniquness#state", "the stage keeps state besides the set of row keys: %s" % extra, pb.where())
            else:
                r.ok("Uniquness#state", "fields: the key set and the successor only", pb.where(), nontrivial=False)
            for flag in (True, False):
                def model(c, av, env, pe, flag=flag):
                    if c.bb == ins.bb:
                        return (True, ("b", flag))
                    return None
                res = PE(pb, model).run(start=ins.bb)
                fw = [c for _, c, _ in res.calls if c in nxt]
                key = "Uniquness::process[insert=%s]" % str(flag).lower()
                if flag:
                    direct = [c for c in fw if c.dest["l"] == 0]
                    if len(fw) != 1:
                        r.bad(key, "a first occurrence is forwarded %d times" % len(fw), ins.where())
                    elif not direct and any(v is None or v == cont for _, v in res.returns):
                        r.bad(key, "the successor's decision is not what process() returns", ins.where())
                    else:
                        r.ok(key, "forwarded once, decision returned", fw[0].where())
                else:
                    if fw:
                        r.bad(key, "a duplicate row is forwarded", fw[0].where())
                    elif any(v != cont for _, v in res.returns) or not res.returns:
                        r.bad(key, "a duplicate does not answer Ok(Continue)", ins.where())
                    else:
                        r.ok(key, "dropped, Ok(Continue)", ins.where())
            pr = Prov(pb, LOOK)
            keysrc = [pb.call_at[a[1]] for a in pr.call_arg_origins(ins, 1) if a[0] == "call"]
            good = len(keysrc) == 1 and keysrc[0].name == "processor::Context::key" and \
                any(a[0] == "arg" and a[1] == 2 for a in pr.call_arg_origins(keysrc[0], 0))
            fwd_ok = all(any(a[0] == "arg" and a[1] == 2 for a in pr.call_arg_origins(c, 1)) for c in nxt)
            if good and fwd_ok:
                r.ok("Uniquness::process#key", "insert(context.key()) and forward(context) use the same row", ins.where())
            else:
                r.bad("Uniquness::process#key", "the key inserted is not Context::key() of the row that is forwarded",
                      ins.where())
    # ------------------------------------------------------------ KEY-SHAPE
    r = rep.rule("C10-KEY-SHAPE", "Context::key compares rows on the input exactly when no selection exists "
                 "(results is empty), otherwise on the list of all selected values", floor=3,
                 analysis="A5 partial evaluation of Context::key with self.results seeded as a vector of 0, 1, 2 entries")
    kb = lib.body("processor::Context::key")
    if kb is None:
        r.missing("processor::Context::key")
        return
    ck = lib.adts.get("processor::ContextKey")
    vn = [v["name"] for v in ck["variants"]] if ck else []
    if "Value" not in vn or "Results" not in vn:
        # fail closed: the rule decides the key through its two shapes (the input / the list of selected values,
        # one Option per selection); a key of another shape - a digest, a string - is not something it can judge
        r.bad("Context::key#shape", "the key of a row is not the two-variant ContextKey (the input when nothing is "
              "selected, otherwise one Option per selection, so that an absent value is told from a present one in "
              "another column): variants %s (unrecognised idiom)" % vn, kb.where())
        return
    cadt = lib.adts.get("processor::Context")
    fields = [f["name"] for f in cadt["variants"][0]["fields"]]
    if "results" not in fields:
        r.missing("Context.results")
        return
    # the choice is evaluated for a Context whose `results` holds 0, 1 and 2 entries (everything else unknown):
    # however the emptiness is tested (is_empty, len() == 0, a slice pattern), it is the only thing that decides
    for n_sel, want in ((0, "Value"), (1, "Results"), (2, "Results")):
        selfv = [None] * len(fields)
        selfv[fields.index("results")] = ("arr", (None,) * n_sel)
        key = "Context::key[%d selection(s)]" % n_sel
        try:
            res = PE(kb, None).run(env={1: ("rv", ("adt", 0, tuple(selfv)))})
        except RuntimeError as e:
            r.bad(key, "not evaluated: %s" % e, kb.where())
            continue
        got = {v[1] if v is not None and v[0] == "adt" else None for _, v in res.returns}
        if got == {vn.index(want)}:
            r.ok(key, "ContextKey::%s" % want, kb.where())
        elif len(got) > 1 or None in got:
            r.bad(key, "the choice between the input and the selected values is not decided by whether a selection "
                  "exists (self.results empty or not): variants %s are reachable" % sorted(str(x) for x in got),
                  kb.where())
        else:
            r.bad(key, "expected ContextKey::%s, returns variants %s" % (want, got), kb.where())
    # payloads
    tl = [c for c in kb.calls if c.name == "processor::Context::to_list"]
    if len(tl) != 1:
        r.bad("Context::key#results", "the selected-values key is not Context::to_list()", kb.where())
    else:
        r.ok("Context::key#results", "to_list()", tl[0].where(), nontrivial=False)

"""C05-PANIC-CENSUS: every edge of the MIR that can start a panic, classified.

Sources (per body, cleanup blocks excluded):
  A  `Assert` terminators (overflow, bounds, division, compiler UB checks)
  B  diverging calls (no return target: core::panicking::*, unwrap_failed ...)
  C  calls of APIs documented to panic on some argument (sa/tables/panicking_apis.toml)

Every site gets a key `<body>#<kind>[ordinal]` and must be
  * discharged by a structural argument re-verified on every run (the D_* functions below), or
  * listed in sa/tables/panic_sites.toml with a tag and a reason, or
  * it is reported.
A tabled key that no longer exists is reported as stale (the table must describe the tree).
"""
import re

from lib.peval import PE, ok as OK, some, NONE
from lib.prov import Prov
from rules import common

LOOKX = common.LOOK + ("Deref>::deref", "DerefMut>::deref_mut")

FINDLOOK = LOOKX + ("Option::<T>::ok_or_else", "Option::<T>::ok_or")

SCOPE_EXCLUDE = (
    (re.compile(r"^<.* as clap::"), "clap derive output: runs while parsing the command line (configuration)"),
    (re.compile(r"^(build_docs|selection_help)::"), "documentation generator, compiled only with the create-docs "
                                                   "feature and reached only through --additional-help mk-book"),
)


def in_scope(name):
    for rx, _ in SCOPE_EXCLUDE:
        if rx.search(name):
            return False
    return True


def short(name):
    return name


# ------------------------------------------------------------------ small helpers over one body

def copies(b, l):
    """Locals holding the same value as local l through whole-local copy/move chains."""
    cache = b.__dict__.setdefault("_copies_cache", {})
    if l in cache:
        return cache[l]
    same = {l}
    changed = True
    pairs = []
    for bb, idx, place, rv, _ in b.assignments():
        if rv["k"] == "use" and rv["op"].get("k") in ("copy", "move") and not place["p"] and not rv["op"]["place"]["p"]:
            pairs.append((place["l"], rv["op"]["place"]["l"]))
    ndefs = {}
    for bb, idx, place, rv, _ in b.assignments():
        if not place["p"]:
            ndefs[place["l"]] = ndefs.get(place["l"], 0) + 1
    for c in b.calls:
        if not c.dest["p"]:
            ndefs[c.dest["l"]] = ndefs.get(c.dest["l"], 0) + 1
    while changed:
        changed = False
        for a, c in pairs:
            # only single-assignment temporaries may be merged
            if ndefs.get(a, 0) > 1:
                continue
            if (a in same) != (c in same):
                same.update((a, c))
                changed = True
    cache[l] = same
    return same


def op_local(o):
    if o and o.get("k") in ("copy", "move") and not o["place"]["p"]:
        return o["place"]["l"]
    return None


def op_place_key(o):
    if o and o.get("k") in ("copy", "move"):
        return (o["place"]["l"], tuple(o["place"]["p"]))
    return None


def bool_switches(b):
    """[(bb, discr_local, true_target, false_target)] for switches on a bool local."""
    out = []
    for i in range(b.n):
        t = b.term(i)
        if t["k"] != "switch" or b.blocks[i]["cleanup"]:
            continue
        l = op_local(t["discr"])
        if l is None or b.local_ty(l) != "bool":
            continue
        ft = [tg for v, tg in t["arms"] if v == 0]
        if len(t["arms"]) == 1 and ft:
            out.append((i, l, t["otherwise"], ft[0]))
        elif len(t["arms"]) == 1 and t["arms"][0][0] == 1:
            out.append((i, l, t["arms"][0][1], t["otherwise"]))
    return out


def def_of(b, l):
    """The single defining rvalue / call of a temp: ("rv", bb, idx, rv) | ("call", Call) | None."""
    ds = [(bb, idx, rv) for bb, idx, place, rv, _ in b.assignments() if place["l"] == l and not place["p"]]
    cs = [c for c in b.calls if c.dest["l"] == l and not c.dest["p"]]
    if len(ds) == 1 and not cs:
        return ("rv",) + ds[0]
    if len(cs) == 1 and not ds:
        return ("call", cs[0])
    return None


def through_copies(b, l, depth=0):
    """Follow `x = copy y` / `x = move y` back to the defining local."""
    while depth < 12:
        d = def_of(b, l)
        if d and d[0] == "rv" and d[3]["k"] == "use" and op_local(d[3]["op"]) is not None:
            l = op_local(d[3]["op"])
            depth += 1
            continue
        return l
    return l


def nonzero_edges(b, xs):
    """CFG edges on which some local in `xs` (same value) is known to be >= 1."""
    out = []
    for bb, dl, tt, ft in bool_switches(b):
        d = def_of(b, through_copies(b, dl))
        if not d:
            continue
        if d[0] == "rv" and d[3]["k"] == "binop":
            rv = d[3]
            a, c = rv["a"], rv["b"]
            la, lc = op_local(a), op_local(c)
            ia = a.get("int") if a.get("k") == "const" else None
            ic = c.get("int") if c.get("k") == "const" else None
            la = through_copies(b, la) if la is not None else None
            lc = through_copies(b, lc) if lc is not None else None
            xin = lambda l: l is not None and (l in xs or through_copies(b, l) in xs)
            op = rv["op"]
            if xin(la) and ic is not None:
                if op == "Eq" and ic == 0:
                    out.append((bb, ft))
                elif op == "Ne" and ic == 0:
                    out.append((bb, tt))
                elif op == "Gt" and ic >= 0:
                    out.append((bb, tt))
                elif op == "Ge" and ic >= 1:
                    out.append((bb, tt))
                elif op == "Le" and ic == 0:
                    out.append((bb, ft))
                elif op == "Lt" and ic in (0, 1):
                    out.append((bb, ft))
            elif xin(lc) and ia is not None:
                if op == "Eq" and ia == 0:
                    out.append((bb, ft))
                elif op == "Ne" and ia == 0:
                    out.append((bb, tt))
                elif op == "Lt" and ia >= 0:
                    out.append((bb, tt))
                elif op == "Le" and ia >= 1:
                    out.append((bb, tt))
    return out


def call_result_edges(b, pred):
    """[(Call, true_edge, false_edge)] for calls satisfying pred whose bool result is switched on."""
    out = []
    sw = bool_switches(b)
    for c in b.calls:
        if not pred(c) or c.dest["p"]:
            continue
        same = copies(b, c.dest["l"])
        for bb, dl, tt, ft in sw:
            if dl in same or through_copies(b, dl) in same:
                out.append((c, (bb, tt), (bb, ft)))
    return out


def same_origin(pr, a, b_):
    """Two operands denote (a reference to) the same object: identical non-empty provenance."""
    x = {t for t in pr.origins(a) if t[0] in ("arg", "call", "local")}
    y = {t for t in pr.origins(b_) if t[0] in ("arg", "call", "local")}
    return bool(x) and x == y


# ------------------------------------------------------------------ site collection

class Site:
    __slots__ = ("body", "bb", "kind", "key", "where", "call", "term", "detail", "_cap_depth")

    def __init__(self, body, bb, kind, where, call=None, term=None):
        self.body, self.bb, self.kind, self.where, self.call, self.term = body, bb, kind, where, call, term
        self.key = None
        self.detail = ""


def api_table():
    return common.table("panicking_apis.toml")["api"]


def collect(crate, apis):
    sites = []
    bodies = getattr(crate, "raw_bodies", None) or crate.bodies   # the functions as written: keys are body names
    for name in sorted(bodies):
        if not in_scope(name):
            continue
        b = bodies[name]
        found = []
        for i, blk in enumerate(b.blocks):
            if blk["cleanup"]:
                continue
            t = blk["term"]
            if t["k"] == "assert":
                found.append(Site(b, i, "assert:" + t["msg_kind"].split(" ")[0].split("{")[0].strip(),
                                  "%s:%d" % (t["loc"]["file"], t["loc"]["line"]), term=t))
        for c in b.calls:
            if c.target is None:
                found.append(Site(b, c.bb, "diverge:" + (c.name or "?").rsplit("::", 1)[-1], c.where(), call=c))
                continue
            if c.t.get("resolved_local"):
                continue
            for api in apis:
                cal = c.callee or ""
                nm = c.name or ""
                hit = False
                if "callee" in api and cal == api["callee"]:
                    hit = True
                if "name_suffix" in api and (nm.endswith(api["name_suffix"]) or cal.endswith(api["name_suffix"])):
                    hit = True
                if "name_contains" in api and (api["name_contains"] in nm or api["name_contains"] in (c.full or "")):
                    hit = True
                if hit and any(x in (c.full or "") for x in api.get("except_contains", [])):
                    hit = False
                if hit:
                    found.append(Site(b, c.bb, "call:" + api["id"], c.where(), call=c))
                    break
        found.sort(key=lambda s: (s.kind, s.bb))
        counts = {}
        for s in found:
            n = counts.get(s.kind, 0)
            counts[s.kind] = n + 1
            s.key = "%s#%s[%d]" % (name, s.kind, n)
        sites.extend(found)
    return sites


# ------------------------------------------------------------------ dischargers: return a reason string or None

def overflow_binop(s):
    """The checked binop statement an overflow assert belongs to."""
    l = s.term["cond"]["place"]["l"]
    for st in reversed(s.body.stmts(s.bb)):
        if st["k"] == "assign" and st["place"]["l"] == l and st["rv"]["k"] == "binop":
            return st["rv"]
    return None


def D_ubcheck(s, ctx):
    if s.kind in ("assert:other:MisalignedPointerDereference", "assert:other:NullPointerDereference") or \
            s.kind.startswith("assert:other:Misaligned") or s.kind.startswith("assert:other:NullPointer"):
        exp = s.term["loc"].get("exp", [])
        if any(e in ("macro:vec", "macro:$crate::vec") or e.endswith(":vec") for e in exp):
            return "compiler-inserted pointer check on the Box the vec! macro itself just allocated (never fails)"
    return None


def D_constant(s, ctx):
    """The assert condition is decided by constants alone."""
    if not s.term:
        return None
    try:
        res = PE(s.body, None, max_states=5000).run(start=s.bb, stop=set(range(s.body.n)) - {s.bb})
    except RuntimeError:
        return None
    if s.bb not in res.panics and s.bb not in res.assert_unknown and s.bb in res.visited:
        return "condition is constant-true (decided by partial evaluation with no assumptions)"
    return None


def D_byte_domain(s, ctx):
    """Inside a byte reader: for every value of the dominating Reader::next()/peek() result the assert holds."""
    if not s.term:
        return None
    b = s.body
    from rules.parser_rules import is_next, is_peek, table_for
    sites = [c for c in b.calls if (is_next(c) or is_peek(c)) and c.target is not None and b.dominates(c.bb, s.bb)
             and c.bb != s.bb]
    for site in sorted(sites, key=lambda c: -c.bb):
        stops = {c.bb for c in b.calls if is_next(c) or is_peek(c)}
        try:
            tab = table_for(b, site, ctx.lib, stop=stops)
        except RuntimeError:
            continue
        reached = False
        okk = True
        for v, res in tab.items():
            if s.bb in res.visited:
                reached = True
            if s.bb in res.panics or s.bb in res.assert_unknown:
                okk = False
                break
        if okk and reached:
            return "holds for each of the 256 byte values (and EOF) of the dominating %s at bb%d (partial evaluation)" \
                   % ("next()" if is_next(site) else "peek()", site.bb)
    return None


def D_counter(s, ctx):
    """`P = P + c` with small constant c on a 64-bit counter whose other definitions are constants."""
    if s.kind != "assert:overflow:Add":
        return None
    rv = overflow_binop(s)
    if not rv:
        return None
    b = s.body
    a, c = rv["a"], rv["b"]
    if c.get("k") != "const" or not (0 < c.get("int", 0) <= 16):
        if a.get("k") == "const" and 0 < a.get("int", 0) <= 16:
            a, c = c, a
        else:
            return None
    ty = (a.get("place") or {}).get("ty", "")
    if ty not in ("usize", "u64", "i64"):
        return None
    src = op_place_key(a)
    if src is None:
        return None
    # where does the sum go? the target block stores tmp.f0 somewhere
    tl = s.term["cond"]["place"]["l"]
    dest = None
    for st in b.stmts(s.term["t"]):
        if st["k"] == "assign" and st["rv"]["k"] == "use" and op_place_key(st["rv"]["op"]) == (tl, ("f0",)):
            dest = (st["place"]["l"], tuple(st["place"]["p"]))
    if dest is None:
        return None
    # source is a copy of the destination place (directly or via one temp)
    sl, sp = src
    if (sl, sp) != dest:
        d = def_of(b, sl) if not sp else None
        if not (d and d[0] == "rv" and d[3]["k"] == "use" and op_place_key(d[3]["op"]) == dest):
            return None
    dl, dp = dest
    # other definitions of the destination
    if not dp:
        others = [rvx for bb, idx, place, rvx, _ in b.assignments() if place["l"] == dl and not place["p"]
                  and not (bb == s.term["t"])]
        if any(not (rvx["k"] == "use" and rvx["op"].get("k") == "const") for rvx in others):
            return None
        if any(cc.dest["l"] == dl for cc in b.calls):
            return None
        if 1 <= dl <= b.arg_count:
            return None
        return "local 64-bit counter initialised by a constant and only ever incremented by %d: needs 2^63 steps" % c["int"]
    # a field behind self / a &mut parameter: every other write to that field in the crate is a constant or += c
    base_ty = b.local_ty(dl)
    return _field_counter(ctx, b, dl, dp, c["int"], base_ty)


def _field_counter(ctx, b, dl, dp, inc, base_ty):
    lib = ctx.lib
    fields = [p for p in dp if p != "deref"]
    if not fields or not (1 <= dl <= b.arg_count):
        return None
    # find the struct that owns the last field
    owner = base_ty.replace("&mut ", "").replace("&", "").strip()
    path = owner
    for f in fields[:-1]:
        adt = lib.adts.get(path.split("<")[0])
        if not adt:
            return None
        fi = int(f[1:])
        path = adt["variants"][0]["fields"][fi]["ty"]
    adt_name = path.split("<")[0]
    adt = lib.adts.get(adt_name)
    if not adt:
        if base_ty in ("&mut u64", "&mut usize") and not fields:
            return None
        return None
    last = int(fields[-1][1:])
    fname = adt["variants"][0]["fields"][last]["name"]
    # census of writes to <adt>.<field> in the crate
    for name, ob in lib.bodies.items():
        for bb, idx, place, rv, st in ob.assignments():
            if rv["k"] == "agg" and rv.get("adt") == adt_name:
                o = rv["ops"][last] if last < len(rv["ops"]) else None
                if o is None:
                    return None
                if o.get("k") != "const":
                    # `location.clone()`-style copies of an existing counter are fine; anything else is not
                    pr = Prov(ob, LOOKX + ("Clone>::clone",))
                    at = pr.origins(o)
                    if not all(a[0] in ("const", "op") or (a[0] in ("arg", "call") and True) for a in at):
                        return None
                    if any(a[0] == "op" and not a[1].startswith(("binop:Add", "cast")) for a in at):
                        return None
            elif place["p"] and [p for p in place["p"] if p != "deref"][-1:] == ["f%d" % last]:
                oty = ob.local_ty(place["l"]).replace("&mut ", "").replace("&", "").strip().split("<")[0]
                owner_of_write = oty
                ff = [p for p in place["p"] if p != "deref"]
                for f in ff[:-1]:
                    a2 = lib.adts.get(owner_of_write)
                    if not a2:
                        owner_of_write = None
                        break
                    owner_of_write = a2["variants"][0]["fields"][int(f[1:])]["ty"].split("<")[0]
                if owner_of_write != adt_name:
                    continue
                if rv["k"] == "use" and rv["op"].get("k") == "const":
                    continue
                if rv["k"] == "use" and op_place_key(rv["op"]) and op_place_key(rv["op"])[1] == ("f0",):
                    # result of a checked add: accept when that add is by a small constant
                    tl = op_place_key(rv["op"])[0]
                    d = [r2 for b2, i2, p2, r2, _ in ob.assignments() if p2["l"] == tl and not p2["p"]]
                    if len(d) == 1 and d[0]["k"] == "binop" and d[0]["op"].startswith("Add") and \
                            d[0]["b"].get("k") == "const" and 0 < d[0]["b"].get("int", 99) <= 16:
                        continue
                return None
    return "64-bit counter field %s.%s: every write in the crate is a constant or `+= small constant`: needs 2^63 " \
           "steps" % (adt_name.rsplit("::", 1)[-1], fname)


def D_len_plus(s, ctx):
    if s.kind != "assert:overflow:Add":
        return None
    rv = overflow_binop(s)
    if not rv:
        return None
    a_, b_ = rv["a"], rv["b"]
    if b_.get("k") != "const" and a_.get("k") == "const":
        a_, b_ = b_, a_           # `1 + len`
    if b_.get("k") != "const" or not (0 < b_.get("int", 0) <= 16):
        return None
    l = op_local(a_)
    if l is None:
        return None
    d = def_of(s.body, through_copies(s.body, l))
    if d and d[0] == "call" and ((d[1].name or "").endswith("::len") or (d[1].name or "").endswith("::capacity")):
        return "length of an existing collection plus %d (a collection cannot hold usize::MAX elements)" % b_["int"]
    # the index handed out by Iterator::enumerate() is below the length of what is iterated
    pr = Prov(s.body, LOOKX)
    at = [x for x in pr.origins(a_) if x[0] not in ("via", "op")]
    if at and all(x[0] == "call" and "Enumerate<" in (s.body.call_at[x[1]].full or s.body.call_at[x[1]].name or "")
                  and (s.body.call_at[x[1]].callee or "").endswith("Iterator::next")
                  and [p_ for p_ in x[2] if p_.startswith("f")][-1:] == ["f0"] for x in at):
        return "index of Iterator::enumerate() plus %d (it counts the elements of an existing collection)" % b_["int"]
    return None


def D_full_range(s, ctx):
    """`drain(..)` / `[..]`: the full range is in bounds and on character boundaries for every collection."""
    if s.kind not in ("call:drain",):
        return None
    c = s.call
    g = " ".join(c.gargs or []) + " " + (c.full or "")
    if "RangeFull" in g:
        return "drain(..) over the full range"
    return None


def _find_payload(b, l):
    """Local l is the Some payload of `<str>.find(<char or str literal>)`; returns the find Call."""
    pr = Prov(b, FINDLOOK)
    for a in pr.place_origins(l, ()):
        if a[0] == "call":
            c = b.call_at[a[1]]
            if (c.name or "").endswith("<impl str>::find") or (c.name or "").endswith("<impl str>::rfind"):
                return c
    return None


def D_find_plus(s, ctx):
    if s.kind != "assert:overflow:Add":
        return None
    rv = overflow_binop(s)
    if not rv or rv["b"].get("k") != "const" or rv["b"].get("int") != 1:
        return None
    l = op_local(rv["a"])
    if l is not None and _find_payload(s.body, l):
        return "byte offset returned by str::find plus 1 (an offset inside a string is below isize::MAX)"
    return None


def D_sub_guard(s, ctx):
    """`x - 1` where x >= 1 is established by a dominating comparison edge."""
    if s.kind != "assert:overflow:Sub":
        return None
    rv = overflow_binop(s)
    if not rv or rv["b"].get("k") != "const" or rv["b"].get("int") != 1:
        return None
    b = s.body
    l = op_local(rv["a"])
    if l is None:
        return None
    root = through_copies(b, l)
    xs = copies(b, root) | {root, l}
    for e in nonzero_edges(b, xs):
        if b.edge_dominates(e, s.bb):
            return "dominated by the edge bb%d->bb%d on which the operand is known to be at least 1" % e
    return None


def D_sub_nonempty(s, ctx):
    """`X.len() - 1` dominated by the false edge of `X.is_empty()`."""
    if s.kind != "assert:overflow:Sub":
        return None
    rv = overflow_binop(s)
    if not rv or rv["b"].get("k") != "const" or rv["b"].get("int") != 1:
        return None
    b = s.body
    l = op_local(rv["a"])
    if l is None:
        return None
    d = def_of(b, through_copies(b, l))
    if not (d and d[0] == "call" and (d[1].name or "").endswith("::len")):
        return None
    lenc = d[1]
    pr = Prov(b, LOOKX)
    for c, te, fe in call_result_edges(b, lambda c: (c.name or "").endswith("::is_empty")):
        if same_origin(pr, c.args[0], lenc.args[0]) and b.edge_dominates(fe, s.bb):
            return "length of a collection whose is_empty() was false on the dominating edge bb%d->bb%d" % fe
    return None


def D_countdown(s, ctx):
    """`index -= 1` once per element of the collection whose len() initialised index."""
    if s.kind != "assert:overflow:Sub":
        return None
    rv = overflow_binop(s)
    if not rv or rv["b"].get("k") != "const" or rv["b"].get("int") != 1:
        return None
    b = s.body
    src = op_local(rv["a"])
    if src is None:
        return None
    tl = s.term["cond"]["place"]["l"]
    dest = None
    for st in b.stmts(s.term["t"]):
        if st["k"] == "assign" and st["rv"]["k"] == "use" and op_place_key(st["rv"]["op"]) == (tl, ("f0",)) \
                and not st["place"]["p"]:
            dest = st["place"]["l"]
    if dest is None or (src != dest and through_copies(b, src) != dest):
        return None
    defs = [(bb, rvx) for bb, idx, place, rvx, _ in b.assignments() if place["l"] == dest and not place["p"]]
    cdefs = [c for c in b.calls if c.dest["l"] == dest and not c.dest["p"]]
    inits = [c for c in cdefs if (c.name or "").endswith("::len")]
    if len(cdefs) != 1 or len(inits) != 1 or len(defs) != 1 or defs[0][0] != s.term["t"]:
        return None
    lenc = inits[0]
    loops = b.loops()
    pr = Prov(b, LOOKX + ("IntoIterator>::into_iter", "::iter", "::into_iter"))
    for h, blocks in loops.items():
        if s.bb not in blocks:
            continue
        # innermost loop containing the decrement, driven by an iterator over the same collection
        drivers = [c for c in b.calls if c.bb in blocks and (c.callee or "") == "std::iter::Iterator::next"]
        for dcall in drivers:
            if not b.dominates(dcall.bb, s.bb):
                continue
            if any(s.bb in bl2 and bl2 < blocks for bl2 in loops.values()):
                continue
            it = {a for a in pr.origins(dcall.args[0]) if a[0] in ("arg", "call", "local")}
            col = {a for a in pr.origins(lenc.args[0]) if a[0] in ("arg", "call", "local")}
            if col and col <= it:
                return "count-down from X.len() decremented once per element of X inside `for .. in X` " \
                       "(loop at bb%d): never below zero" % h
    return None


def D_caller_nonzero(s, ctx):
    """`self.f - 1` in a method whose every caller is guarded by a test that self.f != 0 (decided by partial
    evaluation of each caller with the field seeded to 0)."""
    if s.kind != "assert:overflow:Sub":
        return None
    rv = overflow_binop(s)
    if not rv or rv["b"].get("k") != "const" or rv["b"].get("int") != 1:
        return None
    b = s.body
    key = op_place_key(rv["a"])
    if key is None:
        return None
    l, proj = key
    if proj == () and def_of(b, l) and def_of(b, l)[0] == "rv" and def_of(b, l)[3]["k"] == "use":
        key = op_place_key(def_of(b, l)[3]["op"])
        if key is None:
            return None
        l, proj = key
    fields = [p for p in proj if p != "deref"]
    if l != 1 or len(fields) != 1:
        return None
    fi = int(fields[0][1:])
    lib = ctx.lib
    bodies = getattr(lib, "raw_bodies", None) or lib.bodies
    owner = b.local_ty(1).replace("&mut ", "").replace("&", "").strip()
    adt = lib.adts.get(owner)
    if not adt:
        return None
    nf = len(adt["variants"][0]["fields"])
    fname = adt["variants"][0]["fields"][fi]["name"]
    total = [0]

    def guarded(name, depth, seen):
        """Every caller of `name` skips the call when the field is 0, or is itself only called that way."""
        callers = [(n, ob, c) for n, ob in bodies.items() for c in ob.calls if (c.name or "") == name]
        if not callers or depth > 3 or name in seen:
            return False
        for n, ob, c in callers:
            if ob.arg_count < 1 or not (ob.local_ty(1).replace("&mut ", "").replace("&", "").strip() == owner):
                return False
            selfv = [None] * nf
            selfv[fi] = ("i", 0)

            def model(cc, av, envv, pe):
                # any call that yields the value later stored into the field: unknown -> try 0 for `len`-like
                if (cc.name or "").endswith("::len"):
                    return (True, ("i", 0))
                return None
            res = PE(ob, model, eq_ok=common.derived_eq_ok(lib)).run(env={1: ("rv", ("adt", 0, tuple(selfv)))})
            total[0] += 1
            if any(cc.bb == c.bb for _, cc, _ in res.calls):
                # the receiver must be the caller's own self for the field to be the same field
                if not guarded(n, depth + 1, seen | {name}):
                    return False
        return True
    if not guarded(b.name, 0, frozenset()):
        return None
    return "self.%s is at least 1 whenever this method is called: each of its caller(s) skips the call when the " \
           "field is 0, directly or through its own callers (partial evaluation of %d caller bodies)" % (fname, total[0])


def D_depth(s, ctx):
    """`param + 1` handed down a (mutually) recursive call chain whose outside callers start it from a constant:
    one increment per recursion level, so it cannot overflow before the stack does."""
    if s.kind != "assert:overflow:Add":
        return None
    rv = overflow_binop(s)
    if not rv or rv["b"].get("k") != "const" or rv["b"].get("int") != 1:
        return None
    b = s.body
    l = op_local(rv["a"])
    if l is None:
        return None
    root = through_copies(b, l)
    if not (1 <= root <= b.arg_count) or b.local_ty(root) not in ("usize", "u64"):
        return None
    if any(place["l"] == root and not place["p"] for _, _, place, _, _ in b.assignments()):
        return None
    cg = ctx.cg
    down = cg.reachable([b.name])
    scc = {n for n in down if b.name in cg.reachable([n])}
    if b.name not in scc or not any(b.name in cg.local.get(n, ()) for n in scc):
        return None
    # callers outside the cycle start from a constant
    argi = root - 1
    for n, ob in ctx.lib.bodies.items():
        if n in scc:
            continue
        for c in ob.calls:
            if (c.name or "") in scc and (c.name or "") == b.name or ((c.name or "") in scc and len(c.args) > argi):
                if (c.name or "") not in scc:
                    continue
                tgt = ctx.lib.bodies.get(c.name)
                if tgt is None or len(c.args) <= argi:
                    continue
                a = c.args[argi]
                if a.get("k") != "const":
                    return None
    return "recursion depth counter: parameter + 1 passed down a recursive cycle of %d function(s) that outside " \
           "callers enter with a constant" % len(scc)


def _param_chain_ok(ctx, b, l):
    """Every caller chain hands, for the `&mut` parameter `l` of `b`, a local that starts from a constant and is only
    incremented."""
    visiting = set()

    def chain_ok(body, argl, depth):
        if (body.name, argl) in visiting:
            return True     # a recursive hand-down adds no new source
        if depth > 8:
            return False
        visiting.add((body.name, argl))
        callers = [(ob, c) for n, ob in ctx.lib.bodies.items() for c in ob.calls if (c.name or "") == body.name]
        if not callers:
            return False
        for ob, c in callers:
            if len(c.args) < argl:
                return False
            pr = Prov(ob, LOOKX)
            at = [a for a in pr.origins(c.args[argl - 1]) if a[0] != "outparam"]
            for a in at:
                if a[0] == "const":
                    continue
                if a[0] == "op" and a[1].startswith("binop:Add"):
                    continue
                if a[0] == "arg" and not [p for p in a[2] if p != "deref"]:
                    if not chain_ok(ob, a[1], depth + 1):
                        return False
                    continue
                return False
        return True
    return chain_ok(b, l, 0)


def D_checked_counter(s, ctx):
    """`c = c.checked_add(1).expect(..)` / `.unwrap()` on a 64-bit counter that starts from a constant."""
    if s.kind not in ("call:expect", "call:unwrap") or s.call is None or "Option" not in (s.call.full or ""):
        return None
    b = s.body
    c = s.call
    key = op_place_key(c.args[0])
    if key is None or key[1]:
        return None
    adds = [x for x in b.calls if x.dest["l"] == key[0] and not x.dest["p"]]
    if len(adds) != 1 or not (adds[0].name or "").startswith("core::num::<impl ") or \
            (adds[0].name or "").rsplit("::", 1)[-1] != "checked_add":
        return None
    add = adds[0]
    if (add.name or "").split("<impl ")[1].split(">")[0] not in ("u64", "usize", "i64"):
        return None
    if len(add.args) != 2 or add.args[1].get("k") != "const" or not (0 < add.args[1].get("int", 0) <= 16):
        return None
    src = op_place_key(add.args[0])
    if src is None:
        return None
    if not src[1]:
        d = def_of(b, src[0])
        if d and d[0] == "rv" and d[3]["k"] == "use" and op_place_key(d[3]["op"]):
            src = op_place_key(d[3]["op"])
    # where the unwrapped sum goes
    dest = (c.dest["l"], tuple(c.dest["p"]))
    if not dest[1]:
        for st in (b.stmts(c.target) if c.target is not None else []):
            if st["k"] == "assign" and st["rv"]["k"] == "use" and op_place_key(st["rv"]["op"]) == (dest[0], ()):
                dest = (st["place"]["l"], tuple(st["place"]["p"]))
                break
    if src != dest:
        return None
    dl, dp = dest
    if not dp:
        others = [rvx for bb, idx, place, rvx, _ in b.assignments() if place["l"] == dl and not place["p"]]
        others = [rvx for rvx in others if not (rvx["k"] == "use" and op_place_key(rvx["op"]) == (c.dest["l"], ()))]
        if any(not (rvx["k"] == "use" and rvx["op"].get("k") == "const") for rvx in others):
            return None
        if any(cc.dest["l"] == dl and cc is not c for cc in b.calls) or 1 <= dl <= b.arg_count:
            return None
        return "local 64-bit counter initialised by a constant, only ever advanced by checked_add(%d): the None " \
               "case needs 2^63 steps" % add.args[1]["int"]
    if dp == ("deref",) and 1 <= dl <= b.arg_count and b.local_ty(dl) in ("&mut u64", "&mut usize") \
            and _param_chain_ok(ctx, b, dl):
        return "64-bit counter behind a &mut parameter, advanced by checked_add(%d); every caller chain passes a " \
               "local that starts from a constant: the None case needs 2^63 steps" % add.args[1]["int"]
    return None


def D_radix(s, ctx):
    """char::to_digit / from_digit / is_digit with a constant radix of at most 36."""
    if s.kind not in ("call:to_digit", "call:from_digit", "call:is_digit") or s.call is None or len(s.call.args) < 2:
        return None
    o = s.call.args[1]
    if o.get("k") == "const" and 2 <= o.get("int", 99) <= 36:
        return "constant radix %d (the call panics only for a radix above 36)" % o["int"]
    return None


def D_param_counter(s, ctx):
    """`*p += 1` through a `&mut u64/usize` parameter: every caller chain ends in a local initialised by a constant."""
    if s.kind != "assert:overflow:Add":
        return None
    rv = overflow_binop(s)
    if not rv or rv["b"].get("k") != "const" or not (0 < rv["b"].get("int", 0) <= 16):
        return None
    b = s.body
    key = op_place_key(rv["a"])
    if key is None:
        return None
    l, proj = key
    if proj == ():
        d = def_of(b, l)
        if d and d[0] == "rv" and d[3]["k"] == "use":
            key = op_place_key(d[3]["op"])
            if key is None:
                return None
            l, proj = key
    if proj != ("deref",) or not (1 <= l <= b.arg_count) or b.local_ty(l) not in ("&mut u64", "&mut usize"):
        return None
    # the sum is stored back through the same reference
    tl = s.term["cond"]["place"]["l"]
    stored = any(st["k"] == "assign" and st["rv"]["k"] == "use" and op_place_key(st["rv"]["op"]) == (tl, ("f0",))
                 and (st["place"]["l"], tuple(st["place"]["p"])) == (l, ("deref",)) for st in b.stmts(s.term["t"]))
    if not stored:
        return None

    if _param_chain_ok(ctx, b, l):
        return "64-bit counter behind a &mut parameter: every caller chain passes a local that starts from a " \
               "constant and is only incremented: needs 2^63 steps"
    return None


_UW = {"u8": 8, "u16": 16, "u32": 32, "u64": 64, "usize": 64}


def _interval(b, l, at_bb, depth=0):
    """[lo, hi] of unsigned local l at block at_bb, from dominating comparison / switch edges on l (or on a local it
    was copied from) against constants, and through `y +- const` definitions; None if unknown."""
    ty = b.local_ty(l)
    if ty not in _UW:
        return None
    lo, hi = 0, (1 << _UW[ty]) - 1
    root = through_copies(b, l)
    xs = copies(b, root) | {root, l}
    # x = y - k / y + k (checked): shift y's interval
    d = def_of(b, root)
    if d and d[0] == "rv" and d[3]["k"] == "use" and op_place_key(d[3]["op"]) and op_place_key(d[3]["op"])[1] == ("f0",) \
            and depth < 3:
        tl = op_place_key(d[3]["op"])[0]
        dd = def_of(b, tl)
        if dd and dd[0] == "rv" and dd[3]["k"] == "binop" and dd[3]["op"] in ("AddWithOverflow", "SubWithOverflow") \
                and dd[3]["b"].get("k") == "const" and op_local(dd[3]["a"]) is not None:
            inner = _interval(b, op_local(dd[3]["a"]), dd[1], depth + 1)
            k = dd[3]["b"]["int"]
            if inner:
                if dd[3]["op"].startswith("Add"):
                    lo, hi = max(lo, inner[0] + k), min(hi, inner[1] + k)
                else:
                    lo, hi = max(lo, inner[0] - k), min(hi, inner[1] - k)
    src_key = None
    d0 = def_of(b, root)
    if d0 and d0[0] == "rv" and d0[3]["k"] == "use" and d0[3]["op"].get("k") in ("copy", "move") and d0[3]["op"]["place"]["p"]:
        src_key = op_place_key(d0[3]["op"])
    for i in range(b.n):
        t = b.term(i)
        if t["k"] != "switch" or b.blocks[i]["cleanup"]:
            continue
        dl = op_local(t["discr"])
        # (1) switch on the integer itself (a local, or the very place the local was copied from)
        if dl is None and src_key is not None and op_place_key(t["discr"]) == src_key:
            dl = root
        if dl is None:
            continue
        if dl in xs or through_copies(b, dl) in xs:
            vals = [v for v, _ in t["arms"]]
            for v, tg in t["arms"]:
                if b.edge_dominates((i, tg), at_bb) and tg != t["otherwise"]:
                    lo, hi = max(lo, v), min(hi, v)
            if b.edge_dominates((i, t["otherwise"]), at_bb) and t["otherwise"] not in [tg for _, tg in t["arms"]]:
                if 0 in vals:
                    lo = max(lo, 1)
            continue
        # (2) switch on a bool computed by comparing with a constant
        if b.local_ty(dl) != "bool":
            continue
        dd = def_of(b, through_copies(b, dl))
        if not (dd and dd[0] == "rv" and dd[3]["k"] == "binop"):
            continue
        rv = dd[3]
        ft = [tg for v, tg in t["arms"] if v == 0]
        if len(t["arms"]) != 1 or not ft:
            continue
        tt, ff = t["otherwise"], ft[0]
        a, c = rv["a"], rv["b"]
        la, lc = op_local(a), op_local(c)
        ia = a.get("int") if a.get("k") == "const" else None
        ic = c.get("int") if c.get("k") == "const" else None
        xin = lambda q: q is not None and (q in xs or through_copies(b, q) in xs)
        for edge, truth in (((i, tt), True), ((i, ff), False)):
            if not b.edge_dominates(edge, at_bb):
                continue
            op = rv["op"]
            if xin(la) and ic is not None:          # x op c
                rel = op if truth else {"Lt": "Ge", "Le": "Gt", "Gt": "Le", "Ge": "Lt", "Eq": "Ne", "Ne": "Eq"}.get(op)
                k = ic
            elif xin(lc) and ia is not None:        # c op x  ==  x op' c
                flip = {"Lt": "Gt", "Le": "Ge", "Gt": "Lt", "Ge": "Le", "Eq": "Eq", "Ne": "Ne"}.get(op)
                rel = flip if truth else {"Lt": "Ge", "Le": "Gt", "Gt": "Le", "Ge": "Lt", "Eq": "Ne", "Ne": "Eq"}.get(flip)
                k = ia
            else:
                continue
            if rel == "Lt":
                hi = min(hi, k - 1)
            elif rel == "Le":
                hi = min(hi, k)
            elif rel == "Gt":
                lo = max(lo, k + 1)
            elif rel == "Ge":
                lo = max(lo, k)
            elif rel == "Eq":
                lo, hi = max(lo, k), min(hi, k)
            elif rel == "Ne" and k == 0:
                lo = max(lo, 1)
    return (lo, hi) if lo <= hi else None


def D_interval(s, ctx):
    """`x + k` / `x - k` on an unsigned integer whose range, established by dominating comparisons with constants
    (match arms with ranges, `if x < N`), makes the operation safe."""
    if s.kind not in ("assert:overflow:Add", "assert:overflow:Sub"):
        return None
    rv = overflow_binop(s)
    if not rv or rv["b"].get("k") != "const":
        return None
    l = op_local(rv["a"])
    if l is None:
        return None
    b = s.body
    ty = b.local_ty(l)
    iv = _interval(b, l, s.bb)
    if iv is None or ty not in _UW:
        return None
    k = rv["b"]["int"]
    lo, hi = iv
    if rv["op"].startswith("Sub") and lo - k >= 0:
        return "operand in [%d, %d] on every path here (dominating comparisons), so `- %d` cannot underflow" % (lo, hi, k)
    if rv["op"].startswith("Add") and hi + k <= (1 << _UW[ty]) - 1 and hi < (1 << _UW[ty]) - 1:
        if (lo, hi) != (0, (1 << _UW[ty]) - 1):
            return "operand in [%d, %d] on every path here (dominating comparisons), so `+ %d` cannot overflow %s" % (
                lo, hi, k, ty)
    return None


def D_index_find(s, ctx):
    """str slicing at an offset returned by find() of an ASCII pattern on the same string, or after starts_with."""
    if s.kind != "call:index":
        return None
    c = s.call
    full = c.full or ""
    if "for str>::index" not in full and "std::string::String as std::ops::Index" not in full:
        return None
    b = s.body
    pr = Prov(b, FINDLOOK)
    rng = c.args[1]
    # the range aggregate
    aggs = [a for a in pr.origins(rng) if a[0] == "agg"]
    vals = []
    if aggs:
        rvx = b.stmts(aggs[0][1])[aggs[0][2]]["rv"]
        vals = rvx["ops"]
    elif rng.get("k") == "const":
        vals = []
    else:
        l = op_local(rng)
        d = def_of(b, l) if l is not None else None
        if d and d[0] == "rv" and d[3]["k"] == "agg":
            vals = d[3]["ops"]
    if not vals and rng.get("k") != "const":
        d = def_of(b, through_copies(b, op_local(rng))) if op_local(rng) is not None else None
        if d and d[0] == "rv" and d[3]["k"] == "agg":
            vals = d[3]["ops"]
    # (a) constant 1.. after starts_with(ascii char) on the same string
    consts = [o.get("int") for o in vals if o.get("k") == "const"]
    if vals and len(vals) == len(consts) and consts == [1]:
        for sc, te, fe in call_result_edges(b, lambda x: (x.name or "").endswith("<impl str>::starts_with")):
            pat = sc.args[1]
            ascii_pat = pat.get("k") == "const" and pat.get("ty") == "char" and pat.get("int", 999) < 128
            if ascii_pat and same_origin(pr, sc.args[0], c.args[0]) and b.edge_dominates(te, s.bb):
                return "`[1..]` of a string that starts with a one-byte ASCII character (starts_with true edge " \
                       "bb%d->bb%d)" % te
        return None
    # (b) offsets derived from find() of an ASCII char / literal on the same string
    okk = bool(vals)
    for o in vals:
        if o.get("k") == "const":
            continue
        l = op_local(o)
        if l is None:
            return None
        at = pr.place_origins(l, ())
        finds = [b.call_at[a[1]] for a in at if a[0] == "call" and
                 ((b.call_at[a[1]].name or "").endswith("<impl str>::find"))]
        other = [a for a in at if a[0] in ("arg", "local") or (a[0] == "call" and b.call_at[a[1]] not in finds)]
        adds = [a for a in at if a[0] == "op" and a[1].startswith("binop") and not a[1].startswith("binop:Add")]
        if not finds or other or adds:
            return None
        for f in finds:
            pat = f.args[1]
            if not (pat.get("k") == "const" and ((pat.get("ty") == "char" and pat.get("int", 999) < 128)
                                                 or (pat.get("ty") == "&str" and all(ord(ch) < 128 for ch in pat.get("s", ""))))):
                return None
            if not same_origin(pr, f.args[0], c.args[0]):
                return None
            # +1 only allowed for a one-byte pattern
    return "slice bounds are the offset str::find returned for an ASCII pattern on the same string (+ its one-byte " \
           "length): always a character boundary within the string" if okk else None


def D_unwrap_some(s, ctx):
    if s.kind != "call:unwrap":
        return None
    b = s.body
    c = s.call
    if "Option" not in (c.full or ""):
        return None
    src = op_place_key(c.args[0])
    if src is None:
        return None
    l = through_copies(b, src[0]) if not src[1] else src[0]
    same = copies(b, src[0]) | {l}
    for i in range(b.n):
        t = b.term(i)
        if t["k"] != "switch":
            continue
        dl = op_local(t["discr"])
        if dl is None:
            continue
        d = def_of(b, dl)
        if d and d[0] == "rv" and d[3]["k"] == "discr" and d[3]["place"]["l"] in same and not d[3]["place"]["p"]:
            somes = [tg for v, tg in t["arms"] if v == 1]
            for tg in somes:
                if b.edge_dominates((i, tg), s.bb):
                    return "the same Option was matched as Some on the dominating edge bb%d->bb%d" % (i, tg)
    return None


BORROW_OK_CALLEES = ("write_fmt", "flush", "write_all", "deref_mut", "deref", "cache_get_or_set_with", "cache_get",
                     "cache_set", "Arguments", "Argument")


def D_borrow(s, ctx):
    """RefCell::borrow_mut whose guard is a temporary: while it is alive no call can reach another borrow of a RefCell."""
    if s.kind not in ("call:borrow_mut", "call:borrow"):
        return None
    b = s.body
    c = s.call
    guard = c.dest["l"]
    # live range: from the call's target to the drop of the guard local
    drops = [i for i in range(b.n) if b.term(i)["k"] == "drop" and b.term(i)["place"]["l"] == guard
             and not b.blocks[i]["cleanup"]]
    if not drops or c.target is None:
        return None
    live = b.reachable(c.target, avoid=set(drops)) | set(drops)
    cg = ctx.cg
    borrowers = getattr(ctx, "_borrowers", None)
    if borrowers is None:
        borrowers = set()
        for n, ob in ctx.lib.bodies.items():
            if any((x.name or "").endswith("RefCell::<T>::borrow_mut") or (x.name or "").endswith("RefCell::<T>::borrow")
                   for x in ob.calls):
                borrowers.add(n)
        ctx._borrowers = borrowers
    for x in b.calls:
        if x.bb not in live or x.bb == c.bb:
            continue
        for t in cg.targets(x):
            if t in ctx.lib.bodies:
                reach = cg.reachable([t])
                if reach & borrowers:
                    return None
            elif t == "<indirect>":
                return None
        if x.is_dyn() and x.trait in (common.GET_TRAIT, common.PROCESS_TRAIT):
            return None
    return "the guard is a temporary; while it lives only foreign calls / local code that cannot reach another " \
           "RefCell borrow run (%d calls checked)" % len([x for x in b.calls if x.bb in live])


def D_const_index(s, ctx):
    if s.kind != "call:vec_insert":
        return None
    idx = s.call.args[1]
    if idx.get("k") == "const" and idx.get("int") == 0:
        return "insert at constant index 0 (always <= len)"
    return None


class _ArgView:
    """A call seen as if its k-th argument were argument 0 (to judge a value handed to a helper as a capacity)."""

    def __init__(self, c, k):
        self._c = c
        self.args = [c.args[k]] + [a for i, a in enumerate(c.args) if i != k]
        self.bb = c.bb
        self.name = c.name
        self.full = c.full
        self.callee = c.callee
        self.dest = c.dest
        self.target = c.target
        self.loc = c.loc
        self.gargs = c.gargs
        self.t = c.t

    def where(self):
        return self._c.where()


def D_capacity(s, ctx):
    """with_capacity(x): x is bounded by the size of an existing collection or a small constant."""
    if s.kind != "call:with_capacity":
        return None
    b = s.body
    c = s.call
    arg = c.args[0]
    if arg.get("k") == "const":
        return "constant capacity %s" % arg.get("int") if arg.get("int", 1 << 40) <= 1 << 20 else None
    pr = Prov(b, LOOKX)
    at = pr.call_arg_origins(c, 0)
    # a field of self that is a bounded capacity hint (every value ever stored is a constant or min(.., constant))
    fa = [a for a in at if a[0] == "arg" and a[1] == 1]
    if fa and len(fa) == len([a for a in at if a[0] not in ("via", "op")]) and b.arg_count >= 1:
        owner = common._strip_ty(b.local_ty(1))
        hf = common.hint_fields(ctx.lib, owner)
        fl = {tuple(p for p in a[2] if p != "deref") for a in fa}
        if all(len(x) == 1 and int(x[0][1:]) in hf and hf[int(x[0][1:])][0] for x in fl):
            return "capacity is a field that only ever holds a constant or min(.., constant) (a bounded size hint)"
    # a plain parameter of a local helper: every caller hands over an acceptable capacity
    pa = [a for a in at if a[0] not in ("via", "op")]
    if pa and all(a[0] == "arg" and not a[2] for a in pa) and getattr(s, "_cap_depth", 0) < 2:
        bodies = getattr(ctx.lib, "raw_bodies", None) or ctx.lib.bodies
        callers = [(ob, cc) for ob in bodies.values() for cc in ob.calls if (cc.name or "") == b.name]
        if callers:
            reasons = []
            for ob, cc in callers:
                okc = True
                for a in pa:
                    k = a[1] - 1
                    if k >= len(cc.args):
                        okc = False
                        break
                    fake = Site(ob, cc.bb, "call:with_capacity", cc.where(), call=_ArgView(cc, k))
                    fake._cap_depth = getattr(s, "_cap_depth", 0) + 1
                    why = D_capacity(fake, ctx)
                    if not why:
                        okc = False
                        break
                    reasons.append(why)
                if not okc:
                    reasons = None
                    break
            if reasons:
                return "a parameter; every caller passes: %s" % reasons[0]
    sized = ("::len", "::capacity", "::count", "::min")

    def is_size_call(a, depth=0):
        n = (b.call_at[a[1]].name or "")
        if any(n.endswith(x) for x in sized):
            return True
        if (b.call_at[a[1]].callee or "") == "std::iter::Iterator::size_hint":
            # the lower bound of an iterator that is finite (by its type, or a generic parameter every caller
            # instantiates with a finite collection) is at most the number of elements it will yield
            from rules import progress_rules as _PG
            o = b.call_at[a[1]].args[0]
            ty = ((o.get("place") or {}).get("ty") or "").replace("&mut ", "").replace("&", "").strip()
            if _PG.finite_iterator(ty):
                return True
            t2 = "<%s as std::iter::IntoIterator>::IntoIter" % ty if re.match(r"^\w+$", ty) else ty
            return _PG._generic_param_finite(ctx.lib, b.name, t2)
        # len().saturating_add(1) and friends: integer arithmetic on a size and constants
        if re.match(r"^(core|std)::num::<impl ", n) and n.rsplit("::", 1)[-1] in (
                "saturating_add", "saturating_sub", "wrapping_add", "wrapping_sub", "max", "saturating_mul") \
                and depth < 3:
            seen_size = False
            for o in b.call_at[a[1]].args:
                if o.get("k") == "const":
                    if not (0 <= o.get("int", 1 << 40) <= 1 << 20):
                        return False
                    continue
                for t in pr.origins(o):
                    if t[0] in ("via", "op", "const"):
                        continue
                    if t[0] == "call" and is_size_call(t, depth + 1):
                        seen_size = True
                    else:
                        return False
            return seen_size
        return False
    core = [a for a in at if a[0] in ("arg", "call", "local", "agg", "unknown")]
    ops = [a for a in at if a[0] == "op"]
    mins = [a for a in at if a[0] == "via" and str(a[1]).endswith("::min")]
    if core and all(a[0] == "call" and is_size_call(a) for a in core) and \
            all(a[1].startswith("binop:Add") or a[1].startswith("binop:Sub") or a[1].startswith("cast") for a in ops):
        return "capacity is the size of an existing collection (plus/minus a constant)"
    # min(x, len): look through min explicitly
    for a in at:
        if a[0] == "call" and (b.call_at[a[1]].name or "").endswith("::min"):
            m = b.call_at[a[1]]
            for o in m.args:
                if o.get("k") == "const" and 0 <= o.get("int", 1 << 40) <= 1 << 20:
                    return "capacity is min(.., %d)" % o["int"]
                oc = [t for t in pr.origins(o) if t[0] not in ("via", "op")]
                if oc and all(t[0] == "const" for t in oc):
                    return "capacity is min(.., a constant)"
            for o in m.args:
                oa = [t for t in pr.origins(o) if t[0] in ("arg", "call", "local")]
                if oa and all(t[0] == "call" and is_size_call(t) for t in oa):
                    return "capacity is min(.., size of an existing collection)"
    # dominated by `x > len` false edge / `x <= len` true edge
    l = op_local(arg)
    if l is not None:
        root = through_copies(b, l)
        xs = copies(b, root) | {root, l}
        for bb, dl, tt, ft in bool_switches(b):
            d = def_of(b, through_copies(b, dl))
            if not (d and d[0] == "rv" and d[3]["k"] == "binop"):
                continue
            rvx = d[3]
            la, lc = op_local(rvx["a"]), op_local(rvx["b"])
            if la is None or lc is None:
                continue
            ra, rc = through_copies(b, la), through_copies(b, lc)

            def is_len(l2):
                dd = def_of(b, l2)
                return bool(dd and dd[0] == "call" and any((dd[1].name or "").endswith(x) for x in sized))
            edge = None
            if (la in xs or ra in xs) and is_len(rc):
                edge = {"Gt": (bb, ft), "Le": (bb, tt), "Lt": (bb, tt), "Ge": None}.get(rvx["op"])
                if rvx["op"] == "Ge":
                    edge = None
            elif (lc in xs or rc in xs) and is_len(ra):
                edge = {"Lt": (bb, ft), "Ge": (bb, tt), "Gt": (bb, tt)}.get(rvx["op"])
            if edge and b.edge_dominates(edge, s.bb):
                return "dominated by the edge bb%d->bb%d on which the requested capacity does not exceed the size of " \
                       "an existing collection" % edge
    return None


def D_cache_size(s, ctx):
    """SizedCache::with_size(n): n >= 1 on every path to the call (dominating comparisons, through +- constants)."""
    if s.kind != "call:cache_with_size":
        return None
    arg = s.call.args[0]
    if arg.get("k") == "const":
        return "constant size %s" % arg.get("int") if arg.get("int", 0) >= 1 else None
    l = op_local(arg)
    if l is None:
        return None
    iv = _interval(s.body, l, s.bb)
    if iv and iv[0] >= 1:
        return "the size is in [%d, %d] on every path to the call (dominating comparisons), never 0" % iv
    return None


FMT_DENY = ("chrono::format::DelayedFormat",)


def D_fmt(s, ctx):
    """format!/to_string panic only if a Display impl fails: no formatted type may be a fallible foreign Display."""
    if s.kind not in ("call:format", "call:to_string"):
        return None
    b = s.body
    c = s.call
    if s.kind == "call:to_string":
        g = " ".join(c.gargs or [])
        if any(d in g for d in FMT_DENY):
            return None
        return "to_string of %s (its Display does not fail by itself)" % (g[:60] or "?")
    # format!: the Argument::new_* calls of the same macro expansion
    args = [x for x in b.calls if (x.name or "").startswith("core::fmt::rt::Argument::<'_>::new_")
            and x.loc.get("line") == c.loc.get("line") and x.loc.get("col") == c.loc.get("col")]
    tys = [" ".join(x.gargs or []) for x in args]
    if any(any(d in t for d in FMT_DENY) for t in tys):
        return None
    return "format! of %s (none of these Display impls fails by itself)" % (tys or ["literals only"])


def D_div_zero_guard(s, ctx):
    """BigDecimal `/` and `%`: dominated by the false edge of `divisor == zero` / `is_zero()`."""
    if s.kind not in ("call:bigdecimal_div", "call:bigdecimal_rem"):
        return None
    b = s.body
    c = s.call
    pr = Prov(b, LOOKX + ("Clone>::clone",))
    div = c.args[1]
    for x, te, fe in call_result_edges(b, lambda x: (x.callee or "") in ("std::cmp::PartialEq::eq", "std::cmp::PartialEq::ne")
                                       or (x.name or "").endswith("::is_zero")):
        if (x.name or "").endswith("::is_zero"):
            if same_origin(pr, x.args[0], div) and b.edge_dominates(fe, s.bb):
                return "divisor.is_zero() was false on the dominating edge bb%d->bb%d" % fe
            continue
        sides = [x.args[0], x.args[1]]
        for me, other in ((sides[0], sides[1]), (sides[1], sides[0])):
            if not same_origin(pr, me, div):
                continue
            zero = any(a[0] == "call" and ((b.call_at[a[1]].name or "").endswith("Zero>::zero") or
                                           (b.call_at[a[1]].callee or "").endswith("Zero::zero"))
                       for a in pr.origins(other))
            if zero:
                edge = fe if (x.callee or "").endswith("::eq") else te
                if b.edge_dominates(edge, s.bb):
                    return "the divisor was compared with BigDecimal::zero() and differs on the dominating edge " \
                           "bb%d->bb%d" % edge
    return None


DISCHARGERS = [D_ubcheck, D_counter, D_param_counter, D_depth, D_interval, D_len_plus, D_find_plus, D_sub_guard, D_sub_nonempty, D_countdown,
               D_caller_nonzero, D_byte_domain, D_constant, D_index_find, D_unwrap_some, D_borrow, D_const_index,
               D_capacity, D_cache_size, D_full_range, D_fmt, D_div_zero_guard, D_checked_counter, D_radix]


def _debug_assertion(s):
    loc = (s.term or {}).get("loc") if s.term else None
    if loc is None and s.call is not None:
        loc = s.call.t.get("loc")
    exp = (loc or {}).get("exp", [])
    return any(e in ("macro:debug_assert", "macro:debug_assert_eq", "macro:debug_assert_ne") for e in exp)


def census(rep, ctx, rid="C05-PANIC-CENSUS", crates=("lib", "bin")):
    r = rep.rule(rid, "every MIR edge that can start a panic (Assert terminators, diverging calls, calls of APIs "
                 "documented to panic) in the lib and bin crates is discharged by a structural argument re-verified "
                 "on this run, or is listed with a reason in sa/tables/panic_sites.toml; anything else is reported",
                 floor=60, analysis="A7 census over all bodies (clap derive output excluded) + per-kind dischargers "
                                    "(A2 guard-edge dominance, A4 provenance, A5 partial evaluation over byte domains) "
                                    "+ frozen table")
    apis = api_table()
    tab = {t["key"]: t for t in common.table("panic_sites.toml").get("site", [])}
    seen = set()
    by_class = {}
    pending = []          # sites neither discharged nor tabled under their own key
    for which in crates:
        crate = ctx.lib if which == "lib" else ctx.bin

        class C2:
            pass
        sub = C2()
        crate = crate.raw_view()
        sub.lib = crate
        sub.cg = ctx.cgraw if which == "lib" else ctx.cgbinraw
        for s in collect(crate, apis):
            key = s.key if which == "lib" else "bin:" + s.key
            seen.add(key)
            reason = None
            how = None
            for d in DISCHARGERS:
                try:
                    reason = d(s, sub)
                except Exception as e:   # a discharger must never take the check down; the site is then not discharged
                    reason = None
                    s.detail = "discharger %s failed: %r" % (d.__name__, e)
                if reason:
                    how = d.__name__[2:]
                    break
            if reason:
                r.ok(key, "discharged[%s]: %s" % (how, reason), s.where)
                by_class[how] = by_class.get(how, 0) + 1
            elif _debug_assertion(s):
                # an assertion the author wrote with debug_assert!: compiled only under cfg(debug_assertions), it
                # states an invariant the author believes; whether it can fire is a value statement this census does
                # not decide (DESIGN section 8) - counted, not reported
                r.ok(key, "stated[debug_assert]: an author-written debug assertion (absent from release builds); "
                     "its condition is not decided here", s.where, nontrivial=False)
                by_class["stated:debug_assert"] = by_class.get("stated:debug_assert", 0) + 1
            elif key in tab:
                t = tab[key]
                r.ok(key, "tabled[%s]: %s" % (t.get("tag", "?"), t.get("reason", "")), s.where, nontrivial=False)
                by_class["tabled:" + t.get("tag", "?")] = by_class.get("tabled:" + t.get("tag", "?"), 0) + 1
            else:
                pending.append((key, s))
    # a tabled site whose function was renamed / split keeps its table entry: an entry whose key no longer exists is
    # matched with an otherwise unexplained site of the same kind in the same source file (one entry, one site)
    pool = {}
    for key, t in sorted(tab.items()):
        if key not in seen and t.get("file"):
            kind = key.rsplit("#", 1)[1].rsplit("[", 1)[0] if "#" in key else ""
            pool.setdefault((t["file"], kind), []).append(t)
    moved = set()
    for key, s in pending:
        pk = (s.where.rsplit(":", 1)[0], s.kind)
        if pool.get(pk):
            t = pool[pk].pop(0)
            moved.add(t["key"])
            r.ok(key, "tabled[%s] (the entry for %s, whose function no longer exists, matched by source file and kind): "
                 "%s" % (t.get("tag", "?"), t["key"], t.get("reason", "")), s.where, nontrivial=False)
            continue
        what = s.kind
        if s.call is not None:
            what += " (%s)" % (s.call.full or s.call.name)
        r.bad(key, "a possible panic that no structural argument discharges and the table does not list: %s%s"
              % (what, ("; " + s.detail) if s.detail else ""), s.where)
    for key, t in sorted(tab.items()):
        if getattr(ctx, "config", "dev") != "dev":
            break    # release builds have no overflow asserts, the docs feature adds bodies: staleness is judged on dev
        if key not in seen and key not in moved and not t.get("only_with_feature"):
            r.note("sa/tables/panic_sites.toml lists %s, which no longer exists in the tree (the entry is unused)" % key)
    r.note("classes: %s" % sorted(by_class.items()))
    return r

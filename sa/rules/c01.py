"""C01 — stream fidelity (clause: the tokenizer's byte tables are RFC 8259's)."""
from rules import parser_rules as PR
from rules import number_rules as NR

INFO = {
    "decided": "The byte-level decision tables of the hand-written parser equal the RFC 8259 tables, for every one of "
               "the 256 byte values and end of input: which bytes start a value and which reader each selects; "
               "which bytes are insignificant whitespace; which bytes introduce fraction / exponent / sign in a "
               "number and which are digits; that string bytes are appended verbatim, which escape letters exist "
               "and what they decode to, the hex-digit values and the four-digit loop of \\u; that whitespace is "
               "accepted around every structural character of arrays and objects; that no byte comparison is an "
               "integer OR of two literals; that an integer literal becomes an integer payload by a direct integer "
               "parse of the right width and a double goes through the one f64->JSON normalisation whose "
               "integrality window is exact (signed zeros included); input is pulled one byte at a time through io::Bytes "
               "and a short read is never taken for the end of input. No stage but the limiter can stop the read loop (Break origin). No parse error is built under a test of the reader's own state (only of bytes read); parse_to_double accepts every finite double unchanged (zeros, subnormals, f64::MAX) and rejects inf / NaN; for representative non-surrogate values a \\u escape appends exactly char::from_u32(value) and reads nothing more. Every digit read_digits consumes is appended to the number's text; numbers are written with a plain `{}` of their own type; every Clone impl of the data types is field-wise.",
    "not_decided": "That values come out unchanged as a whole (UTF-8 decoding by String::from_utf8, str::parse, one "
                   "row per value at run time): those are run-time value statements.",
    "trusted": ["sa/tables/rfc8259.toml (transcribed from RFC 8259)", "std: str::parse::<u64|i64|f64>, String::from_utf8"],
}


def run(ctx, rep):
    lib = ctx.lib
    PR.byteor(rep, ctx)
    PR.dispatch(rep, lib)
    PR.ws(rep, lib)
    PR.number(rep, lib)
    PR.escapes(rep, lib)
    PR.ws_struct(rep, lib)
    PR.input_decides(rep, lib)
    PR.digits(rep, lib)
    PR.reader_state(rep, lib)
    NR.parse_direct(rep, lib)
    NR.int_ctor(rep, lib)
    NR.float_window(rep, lib)
    NR.float_ctor(rep, lib)
    NR.double_accept(rep, lib)
    # each row denotes the same value: numbers are written with a plain `{}` of their own type (shared with C19)
    NR.print_direct(rep, lib)
    from rules import common as _common
    _common.clone_faithful(rep, lib)
    # nothing but the limiter may stop the read loop: a Break from anywhere else silently drops the values that follow
    from rules import pipeline_rules as _PL
    _PL.break_origin(rep, lib)
    # the bytes reach the tokenizer one at a time and end of input is only the exhausted source; every parsed value
    # is handed to the pipeline once, in the turn that parsed it (shared with C16 / C17)
    from rules import c16, c17
    c16.raw_io(rep, lib, side="input")
    c16.eof_distinct(rep, lib)

#!/bin/sh
# every registered quick check on the unchanged tree; prints one line per check and fails if any is not clean
cd "$(dirname "$0")/../.."
rc=0
for i in 01 02 03 04 05 06 07 08 09 10 11 12 13 14 15 16 17 18 19 20; do
  out=$(./check C$i --tier quick 2>&1) || rc=1
  echo "$out" | grep -E "VIOLATION|tier=" 
done
exit $rc

#!/usr/bin/env python3
"""Confirm a seeded change independently, in a scratch worktree of /repo (never in /repo itself):

  confirm_seed.py <slot> <seeded/ID> [<seeded/ID> ...]

For each: demo on unmodified HEAD must pass; with patch.diff applied the unedited suite must still pass
(157 unit + 1 integration = 158) and the demo must fail. Writes <seeded/ID>/confirm.json. The scratch worktree
/tmp/jawk-confirm-<slot> is created on demand and removed (with its build output) at the end.
"""
import json
import os
import re
import shutil
import subprocess
import sys
import time

REPO = "/repo"


def sh(cmd, cwd, timeout=1800):
    env = dict(os.environ, CARGO_NET_OFFLINE="true", CARGO_BUILD_JOBS="4", CARGO_TERM_COLOR="never")
    r = subprocess.run(cmd, cwd=cwd, env=env, shell=True, stdout=subprocess.PIPE, stderr=subprocess.STDOUT, text=True,
                       timeout=timeout)
    return r.returncode, r.stdout


def results(out):
    """[(binary label, passed, failed)] from cargo test output."""
    res = []
    label = None
    for line in out.splitlines():
        m = re.match(r"\s*Running (\S+)", line)
        if m:
            label = m.group(1)
        m = re.match(r"\s*Doc-tests (\S+)", line)
        if m:
            label = "doc:" + m.group(1)
        m = re.match(r"test result: (\w+)\. (\d+) passed; (\d+) failed", line)
        if m:
            res.append((label, int(m.group(2)), int(m.group(3))))
    return res


def main():
    slot = sys.argv[1]
    w = "/tmp/jawk-confirm-" + slot
    if not os.path.isdir(w):
        subprocess.check_call(["git", "-C", REPO, "worktree", "add", "-q", "--detach", w, "HEAD"])
    shutil.copy(os.path.join(REPO, "Cargo.lock"), w)
    head = subprocess.check_output(["git", "-C", REPO, "rev-parse", "HEAD"], text=True).strip()
    for sd in sys.argv[2:]:
        sd = os.path.abspath(sd)
        t0 = time.time()
        subprocess.check_call("git checkout -q --detach %s && git reset -q --hard && rm -f tests/seed_demo.rs" % head,
                              cwd=w, shell=True)
        shutil.copy(os.path.join(sd, "seed_demo.rs"), os.path.join(w, "tests", "seed_demo.rs"))
        out = {"seed": os.path.basename(sd), "repo_head": head}
        rc, o = sh("cargo test --offline --test seed_demo 2>&1", w)
        rs = results(o)
        out["demo_on_head"] = {"rc": rc, "results": rs, "tail": o[-600:]}
        rc, o = sh("git apply %s/patch.diff 2>&1" % sd, w)
        out["patch_applies"] = rc == 0
        if rc == 0:
            rc, o = sh("cargo test --offline --no-fail-fast 2>&1", w)
            rs = results(o)
            suite = [r for r in rs if r[0] and "seed_demo" not in r[0]]
            demo = [r for r in rs if r[0] and "seed_demo" in r[0]]
            out["with_patch"] = {
                "suite_passed": sum(r[1] for r in suite), "suite_failed": sum(r[2] for r in suite),
                "demo_passed": sum(r[1] for r in demo), "demo_failed": sum(r[2] for r in demo),
                "compiled": "error: could not compile" not in o,
                "demo_tail": "\n".join(l for l in o.splitlines() if "panicked" in l or "FAILED" in l)[:1500],
            }
        ok = (out["demo_on_head"]["rc"] == 0 and out.get("patch_applies")
              and out.get("with_patch", {}).get("suite_passed") == 158
              and out.get("with_patch", {}).get("suite_failed") == 0
              and out.get("with_patch", {}).get("demo_failed", 0) > 0)
        out["confirmed"] = bool(ok)
        out["wall_s"] = round(time.time() - t0, 1)
        out["commands"] = ["cargo test --offline --test seed_demo   (HEAD: must pass)",
                           "git apply patch.diff && cargo test --offline --no-fail-fast   (158 suite tests pass, seed_demo fails)"]
        with open(os.path.join(sd, "confirm.json"), "w") as f:
            json.dump(out, f, indent=1)
        print(os.path.basename(sd), "CONFIRMED" if ok else "NOT-CONFIRMED", out["wall_s"], flush=True)
    subprocess.call(["git", "-C", REPO, "worktree", "remove", "--force", w])


if __name__ == "__main__":
    main()

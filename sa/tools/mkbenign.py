#!/usr/bin/env python3
"""Apply each benign edit of sa/benign/specs.py to a scratch worktree of /repo HEAD, check that it still compiles and
that the repository's own tests pass (so the edit really is behaviour-preserving as far as the suite can tell), run
every property's rules on it and print any report (each report is a false alarm to be fixed in the checker)."""
import os, subprocess, sys
sys.path.insert(0, os.path.join(os.path.dirname(os.path.abspath(__file__)), ".."))
from benign.specs import B
W = os.environ.get("JAWK_SCRATCH", "/tmp/jawk-mut2")
if not os.path.isdir(W):
    subprocess.check_call(["git", "-C", "/repo", "worktree", "add", "-q", "--detach", W, "HEAD"])
head = subprocess.check_output(["git", "-C", "/repo", "rev-parse", "HEAD"], text=True).strip()
only = set(a for a in sys.argv[1:] if not a.startswith("--"))
run_tests = "--tests" in sys.argv
sys.path.insert(0, os.path.join(os.path.dirname(os.path.abspath(__file__))))
import seedscan
base = seedscan.evaluate(None, "")
basekeys = {(p, rid, key) for p, bad in base.items() for rid, key, _ in bad}
for spec in B:
    if only and spec["name"] not in only:
        continue
    subprocess.check_call("git checkout -q --detach %s && git reset -q --hard" % head, cwd=W, shell=True)
    subprocess.check_call(["cp", "/repo/Cargo.lock", W])
    p = os.path.join(W, spec["file"])
    s = open(p).read()
    n = s.count(spec["old"])
    if n == 0 or (n > 1 and spec["nth"] is None):
        print("!! %s: pattern occurs %d times in %s" % (spec["name"], n, spec["file"]))
        continue
    if spec["nth"] is None:
        s = s.replace(spec["old"], spec["new"])
    else:
        parts = s.split(spec["old"]); k = spec["nth"]
        s = spec["old"].join(parts[:k]) + spec["new"] + spec["old"].join(parts[k:])
    open(p, "w").write(s)
    if run_tests:
        r = subprocess.run("CARGO_NET_OFFLINE=true cargo test --offline 2>&1 | grep -E 'test result|error' | head -5", cwd=W,
                           shell=True, stdout=subprocess.PIPE, text=True)
        print("   tests:", " | ".join(r.stdout.split("\n"))[:300])
    try:
        res = seedscan.evaluate(W, "-benign")
    except Exception as e:
        print("%-34s DOES-NOT-COMPILE %s" % (spec["name"], str(e)[-300:]))
        continue
    alarms = []
    for prop, bad in res.items():
        for rid, key, text in bad:
            if (prop, rid, key) not in basekeys:
                alarms.append("%s %s %s" % (prop, rid, text[:200]))
    print("%-34s %s" % (spec["name"], "silent" if not alarms else "FALSE ALARMS (%d)" % len(alarms)), flush=True)
    for a in alarms[:8]:
        print("      ", a)
subprocess.check_call("git reset -q --hard", cwd=W, shell=True)

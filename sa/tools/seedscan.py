#!/usr/bin/env python3
"""Run the registered checks against seeded changes (scratch worktree, never /repo):

  seedscan.py [seeded/ID ...]        (default: all)

Writes seeded/<ID>/detect.json: which checks reported which rule instances. A seed counts as caught when the check
of the property it was written against reports a violation.
"""
import json
import os
import re
import subprocess
import sys

VERIF = os.path.dirname(os.path.dirname(os.path.dirname(os.path.abspath(__file__))))
W = os.environ.get("JAWK_SCRATCH", "/tmp/jawk-mut")


def props():
    m = json.load(open(os.path.join(VERIF, "MANIFEST.json")))
    reg = [c["property_id"] for c in m["checks"]]
    # also rule modules not yet registered
    for f in sorted(os.listdir(os.path.join(VERIF, "sa", "rules"))):
        mm = re.match(r"c(\d\d)\.py$", f)
        if mm and "C" + mm.group(1) not in reg:
            reg.append("C" + mm.group(1))
    return sorted(reg)


def main():
    seeds = sys.argv[1:] or sorted(os.path.join("seeded", d) for d in os.listdir(os.path.join(VERIF, "seeded")))
    if not os.path.isdir(W):
        subprocess.check_call(["git", "-C", "/repo", "worktree", "add", "-q", "--detach", W, "HEAD"])
    head = subprocess.check_output(["git", "-C", "/repo", "rev-parse", "HEAD"], text=True).strip()
    summary = []
    for sd in seeds:
        sd = os.path.join(VERIF, sd) if not os.path.isabs(sd) else sd
        sid = os.path.basename(sd.rstrip("/"))
        own = sid.split("-")[0]
        subprocess.check_call("git checkout -q --detach %s && git reset -q --hard && git clean -fdq tests" % head,
                              cwd=W, shell=True)
        subprocess.check_call(["cp", "/repo/Cargo.lock", W])
        r = subprocess.run(["git", "apply", os.path.join(sd, "patch.diff")], cwd=W)
        if r.returncode != 0:
            print(sid, "PATCH-DOES-NOT-APPLY")
            continue
        det = {}
        for p in props():
            r = subprocess.run([os.path.join(VERIF, "check"), p, "--repo", W], cwd=VERIF, stdout=subprocess.PIPE,
                               stderr=subprocess.STDOUT, text=True)
            hits = []
            lines = r.stdout.splitlines()
            for i, l in enumerate(lines):
                if l.startswith("VIOLATION"):
                    nxt = lines[i + 1].strip() if i + 1 < len(lines) else ""
                    hits.append(nxt[:400])
            if hits or r.returncode != 0:
                det[p] = hits or ["exit %d without VIOLATION line" % r.returncode]
        caught = own in det
        json.dump({"seed": sid, "property": own, "caught_by_own_check": caught, "reports": det, "repo_head": head},
                  open(os.path.join(sd, "detect.json"), "w"), indent=1)
        rules = sorted({h.split(" ")[0] for hs in det.values() for h in hs})
        print("%-8s %-7s own=%s others=%s rules=%s" % (sid, "CAUGHT" if caught else ("other" if det else "MISSED"),
                                                   caught, sorted(k for k in det if k != own), rules), flush=True)
        summary.append((sid, caught, sorted(det)))
    subprocess.check_call("git reset -q --hard && git clean -fdq tests", cwd=W, shell=True)


if __name__ == "__main__":
    main()

#!/usr/bin/env python3
"""Run the rules of every registered check against seeded changes (scratch worktree, never /repo):

  seedscan.py [seeded/ID ...]        (default: all)

One fact extraction per seed; every property's rule module is evaluated in-process on the patched scratch tree
(the same code path as `./check <id> --repo <tree>`, which writes no evidence). Reports of the unpatched tree
(known findings) are not credited to the seed. Writes seeded/<ID>/detect.json.
"""
import importlib
import json
import os
import re
import subprocess
import sys
import traceback

VERIF = os.path.dirname(os.path.dirname(os.path.dirname(os.path.abspath(__file__))))
sys.path.insert(0, os.path.join(VERIF, "sa"))
W = os.environ.get("JAWK_SCRATCH", "/tmp/jawk-mut")

from lib import extract as ex          # noqa: E402
from lib.ctx import Ctx                # noqa: E402
from lib.report import Report          # noqa: E402


def props():
    out = []
    for f in sorted(os.listdir(os.path.join(VERIF, "sa", "rules"))):
        mm = re.match(r"c(\d\d)\.py$", f)
        if mm:
            out.append("C" + mm.group(1))
    only = os.environ.get("JAWK_ONLY_PROPS")
    if only:
        out = [p for p in out if p in only.split(",")]
    return out


def evaluate(repo, tag):
    d, sha, dt, cached = ex.extract("dev", repo=repo, tag=tag)
    ctx = Ctx("dev", d, sha, repo)
    out = {}
    for p in props():
        rep = Report(p, "quick", 0)
        try:
            importlib.import_module("rules." + p.lower()).run(ctx, rep)
            for r in rep.rules:
                r.finish()
        except Exception:
            out[p] = [("INFRA", "internal-error", "internal-error: " + traceback.format_exc()[-400:])]
            continue
        bad = []
        for r in rep.rules:
            for i in r.instances:
                if i["verdict"] != "ok":
                    bad.append((r.id, i["key"], "%s @ %s: %s" % (i["key"], i.get("where", ""),
                                                                 i["detail"].split("\n")[0][:300])))
        if bad:
            out[p] = bad
    return out


def main():
    seeds = sys.argv[1:] or sorted(os.path.join("seeded", d) for d in os.listdir(os.path.join(VERIF, "seeded"))
                                   if os.path.isdir(os.path.join(VERIF, "seeded", d)))
    if not os.path.isdir(W):
        subprocess.check_call(["git", "-C", "/repo", "worktree", "add", "-q", "--detach", W, "HEAD"])
    head = subprocess.check_output(["git", "-C", "/repo", "rev-parse", "HEAD"], text=True).strip()
    base = evaluate(None, "")
    basekeys = {(p, rid, key) for p, bad in base.items() for rid, key, _ in bad}
    for sd in seeds:
        sd = os.path.join(VERIF, sd) if not os.path.isabs(sd) else sd
        sid = os.path.basename(sd.rstrip("/"))
        own = sid.split("-")[0]
        subprocess.check_call("git checkout -q --detach %s && git reset -q --hard && git clean -fdq tests src" % head,
                              cwd=W, shell=True)
        subprocess.check_call(["cp", "/repo/Cargo.lock", W])
        r = subprocess.run(["git", "apply", os.path.join(sd, "patch.diff")], cwd=W)
        if r.returncode != 0:
            print(sid, "PATCH-DOES-NOT-APPLY", flush=True)
            continue
        try:
            res = evaluate(W, "-seedscan" + os.path.basename(W).replace("jawk-mut", ""))
        except ex.ExtractError as e:
            print(sid, "EXTRACT-FAILED", str(e)[-200:], flush=True)
            continue
        det = {}
        for p, bad in res.items():
            new = ["%s %s" % (rid, text) for rid, key, text in bad if (p, rid, key) not in basekeys]
            if new:
                det[p] = new
        caught = own in det
        json.dump({"seed": sid, "property": own, "caught_by_own_check": caught, "reports": det, "repo_head": head},
                  open(os.path.join(sd, "detect.json" if not os.environ.get("JAWK_ONLY_PROPS") else "detect-only.json"), "w"), indent=1)
        rules = sorted({h.split(" ")[0] for h in det.get(own, [])})
        print("%-10s %-7s own-rules=%s others=%s" % (sid, "CAUGHT" if caught else ("other" if det else "MISSED"), rules,
                                                     sorted(k for k in det if k != own)), flush=True)
    subprocess.check_call("git reset -q --hard && git clean -fdq tests src", cwd=W, shell=True)


if __name__ == "__main__":
    main()

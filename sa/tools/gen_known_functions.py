#!/usr/bin/env python3
"""Freeze the set of function bodies of the pinned tree (all three configurations, lib and bin) into
sa/tables/known_functions.txt. Run only when the rules have been (re)confirmed against the current /repo HEAD."""
import json, glob, os, subprocess, sys
VERIF = os.path.dirname(os.path.dirname(os.path.dirname(os.path.abspath(__file__))))
sys.path.insert(0, os.path.join(VERIF, "sa"))
from lib import extract as ex
names = set()
for cfg in ("dev", "rel", "docs"):
    d, sha, dt, cached = ex.extract(cfg)
    for f in glob.glob(os.path.join(d, "*.json")):
        names |= set(json.load(open(f))["mir"].keys())
head = subprocess.check_output(["git", "-C", "/repo", "rev-parse", "HEAD"], text=True).strip()
with open(os.path.join(VERIF, "sa", "tables", "known_functions.txt"), "w") as f:
    f.write("# function bodies of /repo at %s (dev, rel, docs configurations; lib and bin)\n" % head)
    f.write("# a local function that is NOT listed here is new to the rules and is inlined into its callers (sa/lib/inline.py)\n")
    for n in sorted(names):
        f.write(n + "\n")
print(len(names), "functions")

fields = set()
for cfg in ("dev", "rel", "docs"):
    d, sha, dt, cached = ex.extract(cfg)
    for f in glob.glob(os.path.join(d, "*.json")):
        for a in json.load(open(f))["adts"]:
            for v in a["variants"]:
                for fl in v["fields"]:
                    fields.add("%s::%s" % (a["path"], fl["name"]))
with open(os.path.join(VERIF, "sa", "tables", "known_fields.txt"), "w") as f:
    f.write("# fields of the data types of /repo at %s: a field of a clap argument struct that is NOT listed here is an\n" % head)
    f.write("# option the rules do not know; Option<_> / bool ones are taken at their default (sa/lib/specialize.py)\n")
    for n in sorted(fields):
        f.write(n + "\n")
print(len(fields), "fields")

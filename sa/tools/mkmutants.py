#!/usr/bin/env python3
"""Regenerate sa/mutants/*.patch from sa/mutants/specs.py against /repo HEAD (scratch worktree, never /repo itself)."""
import os, subprocess, sys
sys.path.insert(0, os.path.join(os.path.dirname(os.path.abspath(__file__)), ".."))
from mutants.specs import M
W = os.environ.get("JAWK_SCRATCH", "/tmp/jawk-mut2")
OUT = os.path.join(os.path.dirname(os.path.abspath(__file__)), "..", "mutants")
if not os.path.isdir(W):
    subprocess.check_call(["git", "-C", "/repo", "worktree", "add", "-q", "--detach", W, "HEAD"])
head = subprocess.check_output(["git", "-C", "/repo", "rev-parse", "HEAD"], text=True).strip()
only = set(sys.argv[1:])
for spec in M:
    if only and spec["name"] not in only:
        continue
    subprocess.check_call("git checkout -q --detach %s && git reset -q --hard" % head, cwd=W, shell=True)
    p = os.path.join(W, spec["file"])
    s = open(p).read()
    n = s.count(spec["old"])
    if n == 0 or (n > 1 and spec["nth"] is None):
        print("!! %s: pattern occurs %d times in %s" % (spec["name"], n, spec["file"]))
        continue
    if spec["nth"] is None:
        s = s.replace(spec["old"], spec["new"])
    else:
        parts = s.split(spec["old"])
        k = spec["nth"]
        s = spec["old"].join(parts[:k]) + spec["new"] + spec["old"].join(parts[k:])
    open(p, "w").write(s)
    d = subprocess.check_output(["git", "diff"], cwd=W, text=True)
    open(os.path.join(OUT, spec["name"] + ".patch"), "w").write(d)
    print(spec["name"], len(d.splitlines()), "lines")
subprocess.check_call("git reset -q --hard", cwd=W, shell=True)

#!/bin/sh
# usage: try_patch.sh <patch.diff> <prop> [<prop>...]  — apply to a scratch worktree of /repo HEAD and run checks on it
set -e
P="$1"; shift
W=${JAWK_SCRATCH:-/tmp/jawk-mut}
if [ ! -d "$W" ]; then git -C /repo worktree add -q --detach "$W" HEAD; fi
git -C "$W" checkout -q --detach "$(git -C /repo rev-parse HEAD)"
git -C "$W" reset -q --hard
cp /repo/Cargo.lock "$W"/
git -C "$W" apply --3way "$P" >/dev/null 2>&1 || { echo "PATCH DOES NOT APPLY: $P"; exit 3; }
rc=0
for prop in "$@"; do
  /verif/check "$prop" --repo "$W" || rc=1
done
git -C "$W" reset -q --hard
exit $rc

#!/usr/bin/env python3
"""Freeze the *shape* of the named items of the pinned tree into sa/tables/reference_shape.json: for every data type
its kind, variants and fields (names and types); for every function its signature, block count and the multiset of
its callees; traits with the methods their impls define; statics with their types. sa/lib/rename.py uses it to
recognise an item of a later tree that is a known item under a new name or in a new module (a rename / move is no
change of behaviour, and the rules are anchored in names). Run only together with gen_known_functions.py, when the
rules have been (re)confirmed against the current /repo HEAD."""
import glob
import json
import os
import subprocess
import sys

VERIF = os.path.dirname(os.path.dirname(os.path.dirname(os.path.abspath(__file__))))
sys.path.insert(0, os.path.join(VERIF, "sa"))
from lib import extract as ex      # noqa: E402
from lib import rename             # noqa: E402

ref = {"adts": {}, "fns": {}, "traits": {}, "statics": {}, "files": {}}
for cfg in ("dev", "docs", "rel"):
    d, sha, dt, cached = ex.extract(cfg)
    for f in sorted(glob.glob(os.path.join(d, "*.json"))):
        raw = json.load(open(f))
        kind = raw["kind"]
        sh = rename.shapes(raw)
        for sect in ("adts", "fns", "traits", "statics"):
            for k, v in sh[sect].items():
                ref[sect].setdefault(kind + ":" + k, v)
head = subprocess.check_output(["git", "-C", "/repo", "rev-parse", "HEAD"], text=True).strip()
ref["head"] = head
with open(os.path.join(VERIF, "sa", "tables", "reference_shape.json"), "w") as f:
    json.dump(ref, f, indent=0, sort_keys=True)
print({k: len(v) for k, v in ref.items() if isinstance(v, dict)})

#!/usr/bin/env python3
"""Write seeded/<id>/meta.json and seeded/INDEX.md from each seed's README.md (the author's description),
confirm.json (my own confirmation in a scratch worktree) and detect.json (which checks report it)."""
import json
import os
import re

VERIF = os.path.dirname(os.path.dirname(os.path.dirname(os.path.abspath(__file__))))
SD = os.path.join(VERIF, "seeded")


def section(text, *names):
    """Body of the first markdown section whose heading contains one of `names` (case-insensitive)."""
    lines = text.split("\n")
    for i, l in enumerate(lines):
        if l.startswith("#") and any(n in l.lower() for n in names):
            out = []
            for m in lines[i + 1:]:
                if m.startswith("#"):
                    break
                out.append(m)
            return " ".join(x.strip() for x in out if x.strip())[:900]
    for l in lines:
        if any(n in l.lower() for n in names) and len(l) > 40:
            return l.strip()[:900]
    return ""


rows = []
for sid in sorted(os.listdir(SD)):
    d = os.path.join(SD, sid)
    if not os.path.isdir(d) or not os.path.exists(os.path.join(d, "patch.diff")):
        continue
    readme = open(os.path.join(d, "README.md"), errors="replace").read() if os.path.exists(os.path.join(d, "README.md")) else ""
    conf = json.load(open(os.path.join(d, "confirm.json"))) if os.path.exists(os.path.join(d, "confirm.json")) else {}
    det = json.load(open(os.path.join(d, "detect.json"))) if os.path.exists(os.path.join(d, "detect.json")) else {}
    title = next((l.lstrip("# ").strip() for l in readme.split("\n") if l.startswith("#")), sid)
    files = sorted(set(re.findall(r"^\+\+\+ b/(\S+)", open(os.path.join(d, "patch.diff")).read(), re.M)))
    prop = sid.split("-")[0]
    reports = det.get("reports", {})
    rules = sorted({h.split(" ")[0] for hs in reports.values() for h in hs if h})
    meta = {
        "id": sid,
        "property": prop,
        "round": 10 if "-r10-" in sid else 9 if "-r9-" in sid else 8 if "-r8-" in sid else 7 if "-r7-" in sid else 6 if "-r6-" in sid else 5 if "-r5-" in sid else 4 if "-r4-" in sid else 3 if "-r3-" in sid else (2 if "-r2-" in sid else 1),
        "title": title,
        "files_changed": files,
        "breaks": section(readme, "clause", "breaks", "broken"),
        "needs_to_manifest": section(readme, "needed", "needs", "manifest", "trigger"),
        "author": "fresh sub-agent given only the text of %s and its own scratch worktree" % prop,
        "what_i_ran": conf.get("commands", []),
        "confirmed": conf.get("confirmed"),
        "confirmation": {
            "repo_head": conf.get("repo_head"),
            "demo_on_head": conf.get("demo_on_head", {}).get("results"),
            "with_patch": {k: conf.get("with_patch", {}).get(k) for k in
                           ("suite_passed", "suite_failed", "demo_passed", "demo_failed")},
        },
        "detected_by_own_check": det.get("caught_by_own_check"),
        "checks_reporting": sorted(reports),
        "rules_reporting": rules,
        "first_report_of_own_check": (reports.get(prop) or [""])[0][:400],
    }
    json.dump(meta, open(os.path.join(d, "meta.json"), "w"), indent=1)
    rows.append(meta)

with open(os.path.join(SD, "INDEX.md"), "w") as f:
    f.write("# Seeded changes (independently written; each re-confirmed; none is ever committed to /repo)\n\n")
    f.write("Per directory: `patch.diff`, `seed_demo.rs` (fails with the patch, passes without), `README.md` (the "
            "author's account), `confirm.json` (my confirmation run), `detect.json` (what every check reported on the "
            "patched scratch tree), `meta.json` (summary).\n\n")
    n = len(rows)
    own = sum(1 for r in rows if r["detected_by_own_check"])
    anyc = sum(1 for r in rows if r["checks_reporting"])
    f.write("%d changes; %d confirmed; %d reported by the check of the property they were written against; %d reported "
            "by at least one check.\n\n" % (n, sum(1 for r in rows if r["confirmed"]), own, anyc))
    f.write("| id | files | what it is | own check | rules of the own check / others |\n|---|---|---|---|---|\n")
    for r in rows:
        ownrules = sorted({h.split(" ")[0] for h in (json.load(open(os.path.join(SD, r["id"], "detect.json")))["reports"].get(r["property"], [])
                                                      if os.path.exists(os.path.join(SD, r["id"], "detect.json")) else [])})
        others = [c for c in r["checks_reporting"] if c != r["property"]]
        f.write("| %s | %s | %s | %s | %s%s |\n" % (
            r["id"], ", ".join(x.replace("src/", "") for x in r["files_changed"]), r["title"][:110].replace("|", "/"),
            "caught" if r["detected_by_own_check"] else ("**missed**" if r["detected_by_own_check"] is False else "?"),
            ", ".join(ownrules) or "-", (" (also " + ", ".join(others) + ")") if others else ""))
print(len(rows), "seeds")

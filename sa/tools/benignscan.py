#!/usr/bin/env python3
"""Run every registered check's rules against independently written *behaviour-preserving* refactorings
(benign_ext/<ID>/patch.diff), in a scratch worktree (never /repo):

  benignscan.py [--tests] [benign_ext/ID ...]        (default: all)

Every report is a false alarm to be corrected in the checker (or evidence that the edit is not behaviour-preserving
after all, which is then recorded in the directory's verdict.json by hand). With --tests the repository's own suite is
run on the patched tree first (the edit must keep 158 passed). Writes benign_ext/<ID>/detect.json.
"""
import json
import os
import re
import subprocess
import sys

VERIF = os.path.dirname(os.path.dirname(os.path.dirname(os.path.abspath(__file__))))
sys.path.insert(0, os.path.join(VERIF, "sa"))
sys.path.insert(0, os.path.join(VERIF, "sa", "tools"))
W = os.environ.get("JAWK_SCRATCH", "/tmp/jawk-mut")

import seedscan          # noqa: E402
from lib import extract as ex   # noqa: E402


def main():
    args = [a for a in sys.argv[1:] if not a.startswith("--")]
    run_tests = "--tests" in sys.argv
    root = os.path.join(VERIF, "benign_ext")
    dirs = args or sorted(os.path.join("benign_ext", d) for d in os.listdir(root) if os.path.isdir(os.path.join(root, d)))
    if not os.path.isdir(W):
        subprocess.check_call(["git", "-C", "/repo", "worktree", "add", "-q", "--detach", W, "HEAD"])
    head = subprocess.check_output(["git", "-C", "/repo", "rev-parse", "HEAD"], text=True).strip()
    base = seedscan.evaluate(None, "")
    basekeys = {(p, rid, key) for p, bad in base.items() for rid, key, _ in bad}
    for sd in dirs:
        sd = os.path.join(VERIF, sd) if not os.path.isabs(sd) else sd
        sid = os.path.basename(sd.rstrip("/"))
        subprocess.check_call("git checkout -q --detach %s && git reset -q --hard && git clean -fdq tests src" % head,
                              cwd=W, shell=True)
        subprocess.check_call(["cp", "/repo/Cargo.lock", W])
        r = subprocess.run(["git", "apply", os.path.join(sd, "patch.diff")], cwd=W)
        if r.returncode != 0:
            print(sid, "PATCH-DOES-NOT-APPLY", flush=True)
            continue
        out = {"id": sid, "repo_head": head}
        if run_tests:
            t = subprocess.run("CARGO_NET_OFFLINE=true cargo test --workspace --no-fail-fast --offline 2>&1",
                               cwd=W, shell=True, stdout=subprocess.PIPE, text=True)
            res = re.findall(r"test result: (\w+)\. (\d+) passed; (\d+) failed", t.stdout)
            out["suite"] = {"passed": sum(int(x[1]) for x in res), "failed": sum(int(x[2]) for x in res),
                            "compiled": bool(res)}
        try:
            res = seedscan.evaluate(W, "-benignext" + os.path.basename(W).replace("jawk-mut", ""))
        except ex.ExtractError as e:
            print(sid, "EXTRACT-FAILED", str(e)[-300:], flush=True)
            continue
        det = {}
        for p, bad in res.items():
            new = ["%s %s" % (rid, text) for rid, key, text in bad if (p, rid, key) not in basekeys]
            if new:
                det[p] = new
        out["silent"] = not det
        out["reports"] = det
        json.dump(out, open(os.path.join(sd, "detect.json" if not os.environ.get("JAWK_ONLY_PROPS") else "detect-only.json"), "w"), indent=1)
        print("%-12s %-8s %s %s" % (sid, "silent" if not det else "ALARM", out.get("suite", ""),
                                    {p: sorted({h.split(" ")[0] for h in v}) for p, v in det.items()}), flush=True)
        for p, v in det.items():
            for h in v[:3]:
                print("      ", p, h[:260])
    subprocess.check_call("git reset -q --hard && git clean -fdq tests src", cwd=W, shell=True)


if __name__ == "__main__":
    main()

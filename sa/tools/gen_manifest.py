#!/usr/bin/env python3
"""Regenerate /verif/MANIFEST.json from the rule modules that exist (rules/cXX.py with INFO)."""
import importlib
import json
import os
import sys

HERE = os.path.dirname(os.path.dirname(os.path.abspath(__file__)))
VERIF = os.path.dirname(HERE)
sys.path.insert(0, HERE)

NOT_APPLICABLE = {}

props = [json.loads(l) for l in open(os.path.join(VERIF, "properties.jsonl"))]
checks = []
na = []
for p in props:
    pid = p["id"]
    modpath = os.path.join(HERE, "rules", pid.lower() + ".py")
    if pid in NOT_APPLICABLE:
        na.append({"property_id": pid, "reason": NOT_APPLICABLE[pid]})
        continue
    if not os.path.exists(modpath):
        na.append({"property_id": pid, "reason": "check under construction (DESIGN.md section 4); not yet registered"})
        continue
    mod = importlib.import_module("rules." + pid.lower())
    info = mod.INFO
    checks.append({
        "property_id": pid,
        "quick_cmd": "./check %s --tier quick" % pid,
        "thorough_cmd": "./check %s --tier thorough" % pid,
        "evidence_file": "/verif/evidence/%s.json" % pid,
        "replay_cmd_template": "./check %s --tier quick --replay {path}" % pid,
        "engine": "jawk-facts+rules",
        "level_claimed": {
            "category": "other",
            "text": "Static decision of a structural clause, for all executions of the analysed bodies: "
                    + info["decided"] + " NOT decided (declined, no runtime test stands in for it): "
                    + info["not_decided"],
            "design_ref": "DESIGN.md section 4, " + pid,
        },
        "level_note": "Trusted base: rustc nightly MIR at opt-level 0 with Instance::try_resolve callee resolution; "
                      "closed-world dispatch for the private traits Get and Process; the frozen std/dependency "
                      "tables under sa/tables; " + "; ".join(info.get("trusted", [])),
        "technique": info.get("technique", "static analysis over rustc MIR facts (custom rustc_private driver + rule evaluators)"),
    })

m = {
    "version": 1,
    "setup_cmd": "./setup.sh",
    "hooks": {
        "guard": "yift_jawk_verif",
        "enable": "none needed: the analysis reads the unmodified build (cfg yift_jawk_verif is reserved and unused)",
        "baseline_off_cmd": "cd /repo && cargo test --workspace --no-fail-fast --offline",
        "source_commits": [],
        "add_only": True,
    },
    "engines": [{
        "name": "jawk-facts+rules",
        "path": "sa/",
        "serves_properties": [c["property_id"] for c in checks],
        "kind_free_text": "static analysis: a rustc_private driver (sa/driver) dumps type-checked MIR with resolved "
                          "callees, ADTs, impls and format_args templates of /repo's current tree; python rule "
                          "evaluators (sa/rules) decide per-property structural rules over CFG dominance, "
                          "provenance, call-graph censuses and guard-partition partial evaluation (sa/lib)",
    }],
    "checks": checks,
    "not_applicable": na,
    "notes": "Every check is static analysis of /repo's current working tree; nothing of jawk is executed. "
             "known_findings.json lists genuine defects that are recorded rather than repaired.",
}
json.dump(m, open(os.path.join(VERIF, "MANIFEST.json"), "w"), indent=1)
print("checks:", [c["property_id"] for c in checks])
print("not_applicable:", [n["property_id"] for n in na])

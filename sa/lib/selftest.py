"""Thorough-tier self tests (mutants, cross references). Filled in later."""


def run_mutants(prop, seed):
    return []


def crossrefs(prop):
    return []

"""Thorough-tier self tests: the checker is tested both ways.

run_mutants(prop, seed): every mutant of sa/mutants/specs.py that names `prop` is applied (git apply) to a scratch
copy of the *current* /repo tree (under $TMPDIR, removed afterwards together with its facts), the property's rules are
evaluated on it, and the mutant counts as killed iff the expected rule reports a violation. A patch that no longer
applies is `skipped` (never a pass); a mutant that is not reported `survived` and fails the run.

crossrefs(prop): independent cross-references where one exists.
"""
import importlib
import os
import random
import shutil
import subprocess
import sys
import tempfile

HERE = os.path.dirname(os.path.dirname(os.path.abspath(__file__)))
VERIF = os.path.dirname(HERE)
sys.path.insert(0, HERE)


def _copy_tree(dst):
    """Working-tree copy of /repo (tracked + untracked sources, no build output)."""
    from lib import extract as ex
    repo = ex.REPO
    os.makedirs(dst, exist_ok=True)
    for item in ("src", "Cargo.toml", "Cargo.lock", "build.rs", "tests", "book", "README.md"):
        s = os.path.join(repo, item)
        if os.path.isdir(s):
            shutil.copytree(s, os.path.join(dst, item), symlinks=True)
        elif os.path.exists(s):
            shutil.copy(s, os.path.join(dst, item))
    subprocess.run(["git", "init", "-q"], cwd=dst, stdout=subprocess.DEVNULL, stderr=subprocess.DEVNULL)


def evaluate(prop, repo, tag):
    """Run prop's rules on an alternate tree; returns (violating rule ids, report)."""
    from lib import extract as ex
    from lib.report import Report
    from lib.ctx import Ctx
    d, sha, dt, cached = ex.extract("dev", repo=repo, tag=tag)
    ctx = Ctx("dev", d, sha, repo)
    rep = Report(prop, "quick", 0)
    mod = importlib.import_module("rules." + prop.lower())
    mod.run(ctx, rep)
    for r in rep.rules:
        r.finish()
    bad = {}
    for r in rep.rules:
        for i in r.instances:
            if i["verdict"] != "ok":
                bad.setdefault(r.id, []).append(i["key"])
    return bad, d


def run_mutants(prop, seed=0, only=None):
    from mutants.specs import M
    specs = [m for m in M if prop in m["props"] and (only is None or m["name"] in only)]
    rnd = random.Random(seed)
    rnd.shuffle(specs)
    out = []
    if not specs:
        return out
    base = tempfile.mkdtemp(prefix="jawk-selftest-")
    try:
        # what the unmutated tree reports (known findings etc.) is not credited to a mutant
        baseline, d0 = evaluate(prop, None, "")
        for m in specs:
            patch = os.path.join(HERE, "mutants", m["name"] + ".patch")
            w = os.path.join(base, "tree")
            shutil.rmtree(w, ignore_errors=True)
            _copy_tree(w)
            rec = {"name": m["name"], "expect": m["rule"], "file": m["file"]}
            ok = os.path.exists(patch) and subprocess.run(["git", "apply", patch], cwd=w,
                                                           stdout=subprocess.DEVNULL, stderr=subprocess.DEVNULL).returncode == 0
            if not ok:
                # fall back to the textual spec on the current tree
                p = os.path.join(w, m["file"])
                s = open(p).read() if os.path.exists(p) else ""
                if s.count(m["old"]) == 1 or (m["nth"] is not None and s.count(m["old"]) >= m["nth"]):
                    if m["nth"] is None:
                        s = s.replace(m["old"], m["new"])
                    else:
                        parts = s.split(m["old"])
                        s = m["old"].join(parts[:m["nth"]]) + m["new"] + m["old"].join(parts[m["nth"]:])
                    open(p, "w").write(s)
                    ok = True
            if not ok:
                rec["status"] = "skipped"
                rec["why"] = "patch does not apply to the current tree"
                out.append(rec)
                continue
            try:
                bad, d = evaluate(prop, w, "-mut")
                new = {rid: [k for k in keys if k not in baseline.get(rid, [])] for rid, keys in bad.items()}
                new = {rid: ks for rid, ks in new.items() if ks}
                rec["reported"] = {rid: ks[:3] for rid, ks in new.items()}
                if m["rule"] in new:
                    rec["status"] = "killed"
                elif new:
                    rec["status"] = "killed-by-other-rule"
                else:
                    rec["status"] = "survived"
            except Exception as e:   # extraction failure = the mutant does not compile
                rec["status"] = "skipped"
                rec["why"] = "mutated tree could not be analysed: %s" % str(e)[-300:]
            out.append(rec)
    finally:
        shutil.rmtree(base, ignore_errors=True)
        from lib import extract as ex
        shutil.rmtree(os.path.join(ex.CACHE, "facts", "dev-mut"), ignore_errors=True)
    return out


def run_seeds(prop):
    """The independently written breaking changes kept under /verif/seeded/<prop>-*/patch.diff (see DESIGN.md section
    9) are replayed like the mutants: applied to a scratch copy of the current tree, the property's rules evaluated,
    `killed` iff some rule of this property reports something the unpatched tree does not."""
    sd = os.path.join(VERIF, "seeded")
    ids = sorted(d for d in os.listdir(sd) if d.startswith(prop + "-") and os.path.exists(os.path.join(sd, d, "patch.diff"))) \
        if os.path.isdir(sd) else []
    out = []
    if not ids:
        return out
    base = tempfile.mkdtemp(prefix="jawk-selftest-")
    try:
        baseline, d0 = evaluate(prop, None, "")
        for sid in ids:
            w = os.path.join(base, "tree")
            shutil.rmtree(w, ignore_errors=True)
            _copy_tree(w)
            rec = {"name": sid, "kind": "seeded change"}
            ok = subprocess.run(["git", "apply", os.path.join(sd, sid, "patch.diff")], cwd=w,
                                stdout=subprocess.DEVNULL, stderr=subprocess.DEVNULL).returncode == 0
            if not ok:
                rec["status"] = "skipped"
                rec["why"] = "patch does not apply to the current tree"
                out.append(rec)
                continue
            try:
                bad, d = evaluate(prop, w, "-mut")
                new = {rid: [k for k in keys if k not in baseline.get(rid, [])] for rid, keys in bad.items()}
                new = {rid: ks for rid, ks in new.items() if ks}
                rec["reported"] = {rid: ks[:3] for rid, ks in new.items()}
                rec["status"] = "killed" if new else "survived"
                rec["expect"] = "any rule of " + prop
            except Exception as e:
                rec["status"] = "skipped"
                rec["why"] = "patched tree could not be analysed: %s" % str(e)[-300:]
            out.append(rec)
    finally:
        shutil.rmtree(base, ignore_errors=True)
        from lib import extract as ex
        shutil.rmtree(os.path.join(ex.CACHE, "facts", "dev-mut"), ignore_errors=True)
    return out


def crossrefs(prop):
    """Independent cross-references (thorough tier). C05: clippy's restriction lints, computed by a different tool from
    the type-checked HIR, must count the same unwrap/expect/str-slice/panic! sites as the MIR census."""
    if prop != "C05":
        return []
    from lib import extract as ex
    import json
    target = os.path.join(ex.CACHE, "clippy-target")
    env = dict(os.environ, CARGO_TARGET_DIR=target, CARGO_NET_OFFLINE="true")
    cmd = ["cargo", "+nightly", "clippy", "--offline", "--lib", "--bins", "--message-format=json", "--",
           "-A", "clippy::all", "-W", "clippy::unwrap_used", "-W", "clippy::expect_used", "-W", "clippy::string_slice",
           "-W", "clippy::panic"]
    # cargo replays cached diagnostics for a fresh unit, so no fingerprint surgery is needed here
    r = subprocess.run(cmd, cwd=ex.REPO, env=env, stdout=subprocess.PIPE, stderr=subprocess.PIPE, text=True)
    if r.returncode != 0:
        return [{"name": "clippy restriction lints", "status": "unavailable", "why": r.stderr[-300:]}]
    counts = {}
    for l in r.stdout.splitlines():
        try:
            m = json.loads(l)
        except ValueError:
            continue
        if m.get("reason") != "compiler-message":
            continue
        code = ((m.get("message") or {}).get("code") or {}).get("code") or ""
        if code.startswith("clippy::"):
            counts[code] = counts.get(code, 0) + 1
    # the census of this run
    from rules import panic_rules as PN
    from lib.ctx import Ctx
    d, sha, dt, cached = ex.extract("dev")
    ctx = Ctx("dev", d, sha, None)
    sites = PN.collect(ctx.lib, PN.api_table()) + PN.collect(ctx.bin, PN.api_table())
    mine = {
        "clippy::unwrap_used": len([s for s in sites if s.kind == "call:unwrap"]),
        "clippy::expect_used": len([s for s in sites if s.kind == "call:expect"]),
        "clippy::string_slice": len([s for s in sites if s.kind == "call:index" and
                                     ("for str>::index" in (s.call.full or "") or
                                      "std::string::String as std::ops::Index" in (s.call.full or ""))]),
        "clippy::panic": len([s for s in sites if s.kind == "diverge:panic_fmt" and
                              any(e == "macro:panic" for e in s.call.exp)]),
    }
    out = []
    for k, v in sorted(mine.items()):
        c = counts.get(k, 0)
        out.append({"name": k, "clippy": c, "census": v, "status": "agree" if c == v else "disagree"})
    return out


if __name__ == "__main__":
    prop = sys.argv[1]
    only = set(sys.argv[2:]) or None
    for r in run_mutants(prop, 0, only):
        print(r["status"], r["name"], r.get("reported") or r.get("why", ""))


# ---------------------------------------------------------------------------------------------------------------
# Composed mutants: an independently written *rename / move* (benign_ext/<id>/patch.diff, which every check must
# ignore) followed by one semantic slip in the renamed code. The rename layer (lib/rename.py) gives the pinned names
# back; the slip must still be reported - by the rule that reads the body now found under the old name.

COMPOSED = [
    # (name, properties, rename patch, file, old, new, expected rule)
    ("renamed-limiter-drops-complete", ["C03", "C08", "C09"], "C08-b5-1", "src/limits.rs",
     "    fn complete(&mut self) -> ProcessResult<()> {\n        self.next.complete()\n    }",
     "    fn complete(&mut self) -> ProcessResult<()> {\n        Ok(())\n    }", "C03-COMPLETE"),
    ("renamed-unique-inverted", ["C10", "C03"], "C03-b5-1", "src/duplication_remover.rs",
     "if self.known_lines.insert(context.key()) {", "if !self.known_lines.insert(context.key()) {", "C10-FIRST-ONLY"),
    ("dissolved-trait-exponent", ["C01"], "C19-b5-2", "src/json_parser.rs",
     "Some(b'e' | b'E')", "Some(b'e')", "C01-NUMBER"),
    ("moved-read-loop-counter", ["C17", "C06"], "C17-b5-1", "src/input.rs",
     "                            in_file_index += 1;\n", "", "C17-COUNTERS"),
    ("renamed-evict-oldest", ["C07", "C08"], "C07-b5-1", "src/sorters.rs",
     "v.pop_front();", "v.pop_back();", "C07-EVICT"),
]


def run_composed(prop):
    specs = [c for c in COMPOSED if prop in c[1]]
    out = []
    if not specs:
        return out
    base = tempfile.mkdtemp(prefix="jawk-selftest-")
    try:
        baseline, d0 = evaluate(prop, None, "")
        for name, props, ren, file, old, new, rule in specs:
            w = os.path.join(base, "tree")
            shutil.rmtree(w, ignore_errors=True)
            _copy_tree(w)
            rec = {"name": name, "kind": "rename + slip", "rename": "benign_ext/" + ren, "expect": rule, "file": file}
            ok = subprocess.run(["git", "apply", os.path.join(VERIF, "benign_ext", ren, "patch.diff")], cwd=w,
                                stdout=subprocess.DEVNULL, stderr=subprocess.DEVNULL).returncode == 0
            p = os.path.join(w, file)
            s = open(p).read() if ok and os.path.exists(p) else ""
            if not ok or s.count(old) < 1:
                rec["status"] = "skipped"
                rec["why"] = "the rename patch or the slip does not apply to the current tree"
                out.append(rec)
                continue
            open(p, "w").write(s.replace(old, new))
            try:
                bad, d = evaluate(prop, w, "-mut")
                newr = {rid: [k for k in keys if k not in baseline.get(rid, [])] for rid, keys in bad.items()}
                newr = {rid: ks for rid, ks in newr.items() if ks}
                rec["reported"] = {rid: ks[:3] for rid, ks in newr.items()}
                anchors = [k for ks in newr.values() for k in ks if k.startswith("anchor-missing")]
                if rule in newr and not anchors:
                    rec["status"] = "killed"
                elif newr:
                    # reported, but through a missing anchor: the rename was not recognised
                    rec["status"] = "killed-by-other-rule" if not anchors else "survived"
                    if anchors:
                        rec["why"] = "reported only through missing anchors: the rename was not recognised"
                else:
                    rec["status"] = "survived"
            except Exception as e:
                rec["status"] = "skipped"
                rec["why"] = "mutated tree could not be analysed: %s" % str(e)[-300:]
            out.append(rec)
    finally:
        shutil.rmtree(base, ignore_errors=True)
        from lib import extract as ex
        shutil.rmtree(os.path.join(ex.CACHE, "facts", "dev-mut"), ignore_errors=True)
    return out

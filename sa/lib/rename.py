"""Rename / move normalisation of the fact files.

The rules are anchored in the *names* of the pinned tree (`limits::Limiter`, `<reader::Reader<R> as
json_parser::JsonParserUtils>::read_digits`, field `skipped`, variant `Break`). Renaming an item, or moving it to
another module, changes no behaviour, but every anchor would be reported missing. Before the program model is built
the items of the analysed tree are therefore compared with the frozen shapes of the pinned tree
(sa/tables/reference_shape.json, sa/tools/gen_reference_shape.py): an item of the pinned tree that is *gone* and an
item that is *new* are taken for the same item when their shapes agree -

  data types   same kind, same variants, same field types position by position (names of other renamed items masked)
  traits       same method set (or the same set after the function pass), implemented for the same types
  functions    same signature, same owner (renamed in place) or same name (moved), similar body: the multisets of
               callees overlap (Jaccard >= 0.5 when the pinned body makes three calls or more)
  fields       same type at the same position of the same data type (or the only unmatched field of that type)
  variants     same payload types at the same position

- and the pairing is unique and mutual (the best candidate of each other, strictly better than the runner-up).
Anything ambiguous is left alone: the rules then report the missing anchor as before (fail closed). The recognised
pairs are substituted back to the pinned names in the facts - in every path, type and callee string - so the rules
judge the *body* they find under the old name. A recognised pair is a statement about names only: whatever the new
body does is analysed exactly as if it had been written under the old name.

Nothing here looks at behaviour, and nothing is executed.
"""
import json
import os
import re

TABLE = os.path.join(os.path.dirname(os.path.dirname(os.path.abspath(__file__))), "tables", "reference_shape.json")
ID = r"[A-Za-z0-9_]"
# a generic argument list without quotes, nested up to three levels: <A, B<C<D>>>
BAL = r'[^<>"]*(?:<[^<>"]*(?:<[^<>"]*(?:<[^<>"]*>[^<>"]*)*>[^<>"]*)*>[^<>"]*)*'

_REF = None


def reference():
    global _REF
    if _REF is None:
        if not os.path.exists(TABLE):
            _REF = {}
        else:
            with open(TABLE) as f:
                _REF = json.load(f)
    return _REF


# ------------------------------------------------------------------------------------------------ shapes

def shapes(raw):
    adts = {}
    for a in raw["adts"]:
        adts[a["path"]] = {"kind": a["kind"], "file": a["loc"]["file"],
                           "variants": [{"name": v["name"], "fields": [[f["name"], f["ty"]] for f in v["fields"]]}
                                        for v in a["variants"]]}
    fninfo = {f["path"]: f for f in raw["fns"]}
    fns = {}
    for name, b in raw["mir"].items():
        if "{closure#" in name or "{constant#" in name:
            continue
        ac = b["arg_count"]
        locs = b["locals"]
        callees = []
        for blk in b["blocks"]:
            t = blk["term"]
            if t["k"] == "call":
                callees.append(t.get("resolved") or t.get("callee") or "?")
        fns[name] = {"args": [l["ty"] for l in locs[1:1 + ac]], "ret": locs[0]["ty"], "nblocks": len(b["blocks"]),
                     "callees": sorted(callees), "file": (fninfo.get(name) or {}).get("body_file")}
    traits = {t["path"]: {"methods": set(), "impls": set()} for t in raw["traits"]}
    for i in raw["impls"]:
        t = i.get("trait")
        if t in traits:
            traits[t]["impls"].add(i["self"])
            for it in i["items"]:
                traits[t]["methods"].add(last(it))
    traits = {k: {"methods": sorted(v["methods"]), "impls": sorted(v["impls"])} for k, v in traits.items()}
    statics = {s["path"]: s["ty"] for s in raw["statics"]}
    return {"adts": adts, "fns": fns, "traits": traits, "statics": statics}


def last(path):
    return path.rsplit("::", 1)[-1]


def owner(path):
    """('trait', self type text, trait path) / ('inherent', adt path) / ('free', module path) and the last segment."""
    if path.startswith("<"):
        depth = 0
        for i, c in enumerate(path):
            if c == "<":
                depth += 1
            elif c == ">":
                depth -= 1
                if depth == 0:
                    inner = path[1:i]
                    rest = path[i + 1:]
                    if " as " in inner:
                        st, tr = inner.rsplit(" as ", 1)
                        tr = re.sub(r"<.*$", "", tr)
                        return ("trait", st, tr), rest[2:] if rest.startswith("::") else rest
                    return ("inherent", re.sub(r"<.*$", "", inner)), rest[2:] if rest.startswith("::") else rest
        return ("free", ""), path
    if "::" not in path:
        return ("free", ""), path
    left, seg = path.rsplit("::", 1)
    if left.endswith(">"):
        # reader::Reader::<R>::peek
        adt = re.sub(r"::<.*>$", "", left)
        return ("inherent", adt), seg
    return ("free", left), seg


def module_of(path):
    return path.rsplit("::", 1)[0] if "::" in path else ""


def _jaccard_multi(a, b):
    from collections import Counter
    ca, cb = Counter(a), Counter(b)
    inter = sum((ca & cb).values())
    union = sum((ca | cb).values())
    return 1.0 if union == 0 else inter / union


def _jaccard(a, b):
    a, b = set(a), set(b)
    return 1.0 if not (a | b) else len(a & b) / len(a | b)


def _mask_re(tokens):
    toks = sorted({t for t in tokens if t}, key=len, reverse=True)
    if not toks:
        return None
    return re.compile(r"(?<![A-Za-z0-9_:])(?:%s)(?!%s)" % ("|".join(re.escape(t) for t in toks), ID))


def _mask(rx, s):
    return rx.sub("§", s) if rx else s


def _pair(missing, new, score, minimum):
    """Unique mutual best pairs. score(m, n) -> float or None (not a candidate)."""
    sc = {}
    for m in missing:
        for n in new:
            s = score(m, n)
            if s is not None and s >= minimum:
                sc[(m, n)] = s
    pairs = {}
    ambiguous = []
    for m in missing:
        cands = sorted(((s, n) for (mm, n), s in sc.items() if mm == m), reverse=True)
        if not cands:
            continue
        if len(cands) > 1 and cands[0][0] - cands[1][0] < 0.5:
            ambiguous.append((m, [c[1] for c in cands[:3]]))
            continue
        n = cands[0][1]
        back = sorted(((s, mm) for (mm, nn), s in sc.items() if nn == n), reverse=True)
        if back[0][1] != m or (len(back) > 1 and back[0][0] - back[1][0] < 0.5):
            ambiguous.append((m, [n]))
            continue
        pairs[m] = n
    return pairs, ambiguous


# ------------------------------------------------------------------------------------------------ substitutions

def _p1(new, old):
    """Qualified path token `new` -> `old` wherever it stands as a whole path prefix."""
    return (re.compile(r"(?<![A-Za-z0-9_:])%s(?!%s)" % (re.escape(new), ID)), old)


def _p2_inherent(adt, newseg, oldseg):
    return (re.compile(r"(?<![A-Za-z0-9_:])(%s(?:::<%s>)?)::%s(?!%s)" % (re.escape(adt), BAL, re.escape(newseg), ID)),
            r"\1::" + oldseg)


def _p2_trait(trait, newseg, oldseg):
    # `<X as tr::Trait>::seg`, `<X as tr::Trait<A>>::seg`, `tr::Trait::seg`
    return (re.compile(r"(?<![A-Za-z0-9_:])(%s(?:<%s>)?>?)::%s(?!%s)" % (re.escape(trait), BAL, re.escape(newseg), ID)),
            r"\1::" + oldseg)


def _apply_text(text, subs):
    for rx, rp in subs:
        text = rx.sub(rp, text)
    return text


# ------------------------------------------------------------------------------------------------ impl blocks

def _match_angle(text, i):
    """text[i] == '<' -> index of the matching '>' (a `->` is not a bracket), or -1."""
    depth = 0
    j = i
    n = len(text)
    while j < n:
        c = text[j]
        if c == "<":
            depth += 1
        elif c == ">" and text[j - 1] != "-":
            depth -= 1
            if depth == 0:
                return j
        elif c == '"':
            return -1
        j += 1
    return -1


def _split_for(content):
    """`Trait<A> for Type<B>` -> (trait text, type text); `Type<B>` -> (None, type text)."""
    depth = 0
    i = 0
    while i < len(content):
        c = content[i]
        if c == "<":
            depth += 1
        elif c == ">" and content[i - 1] != "-":
            depth -= 1
        elif depth == 0 and content.startswith(" for ", i):
            return content[:i], content[i + 5:]
        i += 1
    return None, content


def _strip_generics(t):
    return re.sub(r"<.*$", "", t.lstrip("&").replace("mut ", "").strip())


def impl_occurrences(text):
    """Every `MOD::<impl ...>` in text: (start, end, module, trait text or None, type text)."""
    out = []
    pos = 0
    while True:
        i = text.find("::<impl ", pos)
        if i < 0:
            break
        lt = i + 2
        j = _match_angle(text, lt)
        if j < 0:
            pos = i + 8
            continue
        k = i
        while k > 0 and (text[k - 1].isalnum() or text[k - 1] in "_:"):
            k -= 1
        mod = text[k:i]
        tr, ty = _split_for(text[lt + 6:j])
        out.append((k, j + 1, mod, tr, ty))
        pos = j + 1
    return out


def _qualified(tr, ty):
    """The path prefix rustc prints for an impl block written next to its type or trait."""
    if tr is not None:
        return "<%s as %s>" % (ty, tr)
    m = re.match(r"^([A-Za-z0-9_:]+)(<.*>)?$", ty)
    if not m:
        return "<%s>" % ty
    return m.group(1) + ("::" + m.group(2) if m.group(2) else "")


def canon_impl_form(name):
    """A function path with every `MOD::<impl T for X>` written as `<X as T>` (for comparison only)."""
    occ = impl_occurrences(name)
    if not occ:
        return name
    out = []
    last = 0
    for (a, b, mod, tr, ty) in occ:
        out.append(name[last:a])
        out.append(_qualified(tr, ty))
        last = b
    out.append(name[last:])
    return "".join(out)


def _phase_impl_blocks(raw, ref, kind, report):
    """Impl blocks that moved to another module change the *form* of the paths of their items:
    `<X as T>::m` <-> `MOD::<impl T for X>::m`, `X::<G>::m` <-> `MOD::<impl X<G>>::m`. Returns a block mapping
    (module, trait path, type path) -> how the pinned tree writes that block."""
    rfns = _ref_section(ref, "fns", kind)
    rtraits = _ref_section(ref, "traits", kind)
    cur_names = [n for n in raw["mir"] if "{closure#" not in n]
    missing = set(rfns) - set(cur_names)
    if not missing:
        return {}
    canon_missing = {}
    for m in missing:
        canon_missing.setdefault(canon_impl_form(m), []).append(m)
    cur_traits = {t["path"] for t in raw["traits"]}
    gone_traits = {t: v for t, v in rtraits.items() if t not in cur_traits}
    mapping = {}
    for n in cur_names:
        if n in rfns:
            continue
        occ = impl_occurrences(n)
        if len(occ) != 1:
            continue
        a, b, mod, tr, ty = occ[0]
        key = (mod, _strip_generics(tr) if tr else None, _strip_generics(ty))
        c = canon_impl_form(n)
        if c in rfns and c in missing:
            mapping.setdefault(key, ("qualified",))
            report["functions"].append({"pinned": c, "now": n, "how": "impl block written in another module"})
            continue
        for m in canon_missing.get(c, []):
            mo = impl_occurrences(m)
            if len(mo) == 1 and mo[0][2] != mod:
                mapping.setdefault(key, ("impl", mo[0][2]))
                report["functions"].append({"pinned": m, "now": n, "how": "impl block moved between modules"})
        if tr is None:
            # an inherent method that used to be the method of a private trait which no longer exists
            seg = n[b:]
            for t, v in gone_traits.items():
                cand = "<%s as %s>%s" % (ty, t, seg)
                if cand in missing and len(v["impls"]) == 1:
                    mapping.setdefault(key, ("astrait", t))
                    report["functions"].append({"pinned": cand, "now": n, "how": "trait dissolved into an inherent impl"})
    return mapping


def _reform_text(text, mapping):
    occ = impl_occurrences(text)
    if not occ:
        return text
    out = []
    last = 0
    for (a, b, mod, tr, ty) in occ:
        key = (mod, _strip_generics(tr) if tr else None, _strip_generics(ty))
        how = mapping.get(key)
        if how is None:
            continue
        out.append(text[last:a])
        if how[0] == "qualified":
            out.append(_qualified(tr, ty))
        elif how[0] == "impl":
            out.append("%s::<impl %s>" % (how[1], ("%s for %s" % (tr, ty)) if tr else ty))
        else:
            out.append("<%s as %s>" % (ty, how[1]))
        last = b
    out.append(text[last:])
    return "".join(out)


# ------------------------------------------------------------------------------------------------ phases

def _ref_section(ref, sect, kind):
    pre = kind + ":"
    return {k[len(pre):]: v for k, v in ref.get(sect, {}).items() if k.startswith(pre)}


def _phase_types(cur, ref, kind, report):
    subs = []
    radts = _ref_section(ref, "adts", kind)
    rtraits = _ref_section(ref, "traits", kind)
    rstat = _ref_section(ref, "statics", kind)
    miss_a = sorted(set(radts) - set(cur["adts"]))
    new_a = sorted(set(cur["adts"]) - set(radts))
    miss_t = sorted(set(rtraits) - set(cur["traits"]))
    new_t = sorted(set(cur["traits"]) - set(rtraits))
    rx = _mask_re(miss_a + new_a + miss_t + new_t)

    def akey(sh):
        return (sh["kind"], tuple((len(v["fields"]), tuple(_mask(rx, ty) for _, ty in v["fields"]))
                                  for v in sh["variants"]))

    def ascore(m, n):
        a, b = radts[m], cur["adts"][n]
        same_shape = akey(a) == akey(b)
        fa = [f for v in a["variants"] for f, _ in v["fields"]]
        fb = [f for v in b["variants"] for f, _ in v["fields"]]
        jn = _jaccard(fa, fb) if (fa or fb) else _jaccard([v["name"] for v in a["variants"]], [v["name"] for v in b["variants"]])
        if not same_shape:
            if not (a["kind"] == b["kind"] and (last(m) == last(n) or module_of(m) == module_of(n)) and jn >= 0.7
                    and (fa or fb)):
                return None
        s = 0.0
        if last(m) == last(n):
            s += 3
        if module_of(m) == module_of(n):
            s += 2
        s += 2 * jn
        if a["kind"] == "Enum":
            s += _jaccard([v["name"] for v in a["variants"]], [v["name"] for v in b["variants"]])
        if a.get("file") == b.get("file"):
            s += 1
        if same_shape:
            s += 1
        return s

    pa, amb = _pair(miss_a, new_a, ascore, 3.0)
    for m, n in sorted(pa.items()):
        subs.append(_p1(n, m))
        report["types"].append({"pinned": m, "now": n})
    for m, c in amb:
        report["ambiguous"].append({"pinned": m, "candidates": c})

    amap = {n: m for m, n in pa.items()}

    def tscore(m, n):
        a, b = rtraits[m], cur["traits"][n]
        ia = set(a["impls"])
        ib = {amap.get(x, x) for x in b["impls"]}
        ji = _jaccard(ia, ib)
        jm = _jaccard(a["methods"], b["methods"])
        if ji < 0.5 and jm < 0.5:
            return None
        s = 2 * ji + 2 * jm
        if last(m) == last(n):
            s += 3
        if module_of(m) == module_of(n):
            s += 2
        return s

    pt, amb = _pair(miss_t, new_t, tscore, 3.0)
    for m, n in sorted(pt.items()):
        subs.append(_p1(n, m))
        report["traits"].append({"pinned": m, "now": n})
    for m, c in amb:
        report["ambiguous"].append({"pinned": m, "candidates": c})

    miss_s = sorted(set(rstat) - set(cur["statics"]))
    new_s = sorted(set(cur["statics"]) - set(rstat))

    def sscore(m, n):
        if _mask(rx, rstat[m]) != _mask(rx, cur["statics"][n]):
            return None
        s = 1.0
        if last(m) == last(n):
            s += 3
        if module_of(m) == module_of(n):
            s += 2
        return s

    ps, amb = _pair(miss_s, new_s, sscore, 3.0)
    for m, n in sorted(ps.items()):
        subs.append(_p1(n, m))
        report["statics"].append({"pinned": m, "now": n})
    return subs


def _phase_fns(cur, ref, kind, report):
    subs = []
    rfns = _ref_section(ref, "fns", kind)
    cfns = cur["fns"]
    missing = sorted(set(rfns) - set(cfns))
    new = sorted(set(cfns) - set(rfns))
    if not missing or not new:
        return subs
    # names that are themselves in flux do not count against the similarity of two bodies
    flux = _mask_re(missing + new)

    def norm_callees(cs):
        return [_mask(flux, c) for c in cs]

    def fscore(m, n):
        a, b = rfns[m], cfns[n]
        om, sm = owner(m)
        on, sn = owner(n)
        if om[0] != on[0]:
            return None
        same_owner = om == on
        same_last = sm == sn
        if not (same_owner or same_last):
            return None
        if len(a["args"]) != len(b["args"]):
            return None
        sig_equal = a["args"] == b["args"] and a["ret"] == b["ret"]
        jac = _jaccard_multi(norm_callees(a["callees"]), norm_callees(b["callees"]))
        if not sig_equal and jac < 0.8:
            return None
        if len(a["callees"]) >= 3 and jac < 0.5:
            return None
        lo, hi = sorted((a["nblocks"], b["nblocks"]))
        if hi > 2 * lo + 4:
            return None
        s = 4 * jac
        if same_owner:
            s += 3
        if same_last:
            s += 3
        if sig_equal:
            s += 1
        if a.get("file") == b.get("file"):
            s += 1
        return s

    pf, amb = _pair(missing, new, fscore, 4.0)
    for m, c in amb:
        report["ambiguous"].append({"pinned": m, "candidates": c})
    # group condition for method renames: every present function of that owner with the new segment is paired with
    # the old segment, and no present function of that owner still carries the old segment
    by_owner = {}
    for m, n in pf.items():
        om, sm = owner(m)
        on, sn = owner(n)
        if om == on and sm != sn:
            okey = ("trait", om[2]) if om[0] == "trait" else om
            by_owner.setdefault((okey, sn, sm), []).append((m, n))

    def okey_of(path):
        o, s = owner(path)
        return (("trait", o[2]) if o[0] == "trait" else o), s

    done = set()
    for (okey, sn, sm), plist in sorted(by_owner.items(), key=lambda kv: str(kv[0])):
        paired_new = {n for _, n in plist}
        ok = True
        for n2 in cfns:
            k2, s2 = okey_of(n2)
            if k2 == okey and s2 == sn and n2 not in paired_new:
                ok = False      # the new name is also borne by a function that is not a renamed one
            if k2 == okey and s2 == sm:
                ok = False      # the old name is still in use under this owner
        if not ok:
            report["ambiguous"].append({"pinned": [m for m, _ in plist], "candidates": sorted(paired_new),
                                        "why": "the new name is not used consistently under its owner"})
            continue
        if okey[0] == "trait":
            subs.append(_p2_trait(okey[1], sn, sm))
        elif okey[0] == "inherent":
            subs.append(_p2_inherent(okey[1], sn, sm))
        else:
            for m, n in plist:
                subs.append(_p1(n, m))
        for m, n in plist:
            done.add(m)
            report["functions"].append({"pinned": m, "now": n})
    for m, n in sorted(pf.items()):
        if m in done:
            continue
        om, sm = owner(m)
        on, sn = owner(n)
        if sm == sn and om != on:
            # moved: only whole-path substitution of paths without generic arguments is attempted
            if "<" in m or "<" in n:
                report["ambiguous"].append({"pinned": m, "candidates": [n], "why": "moved between generic owners"})
                continue
            subs.append(_p1(n, m))
            report["functions"].append({"pinned": m, "now": n})
    return subs


def _phase_members(raw, ref, kind, report):
    """Fields and variants, structurally. Returns path substitutions for renamed variants."""
    radts = _ref_section(ref, "adts", kind)
    subs = []
    fmap = {}     # adt -> variant index -> {new field: old field}
    vmap = {}     # adt -> {new variant: old variant}
    structs_renamed = set()
    for a in raw["adts"]:
        r = radts.get(a["path"])
        if r is None:
            continue
        rv, cv = r["variants"], a["variants"]
        if a["kind"] != "Enum" and len(rv) == 1 and len(cv) == 1 and rv[0]["name"] != cv[0]["name"]:
            # the single variant of a struct carries the struct's name
            vmap.setdefault(a["path"], {})[cv[0]["name"]] = rv[0]["name"]
            structs_renamed.add(a["path"])
        elif len(rv) == len(cv):
            rn = [v["name"] for v in rv]
            cn = [v["name"] for v in cv]
            if rn != cn and set(rn) != set(cn):
                for i in range(len(rv)):
                    if rn[i] != cn[i] and cn[i] not in rn and rn[i] not in cn \
                            and [t for _, t in rv[i]["fields"]] == [f["ty"] for f in cv[i]["fields"]]:
                        vmap.setdefault(a["path"], {})[cn[i]] = rn[i]
        byname = {v["name"]: v for v in rv}
        for i, v in enumerate(cv):
            vn = vmap.get(a["path"], {}).get(v["name"], v["name"])
            rvv = byname.get(vn)
            if rvv is None and a["kind"] != "Enum" and len(rv) == 1:
                rvv = rv[0]      # a struct's single variant carries the struct's (possibly renamed) name
            if rvv is None:
                continue
            rnames = [f for f, _ in rvv["fields"]]
            cnames = [f["name"] for f in v["fields"]]
            if rnames == cnames or set(rnames) == set(cnames):
                continue
            rty = dict((f, t) for f, t in rvv["fields"])
            cty = dict((f["name"], f["ty"]) for f in v["fields"])
            ur = [f for f in rnames if f not in cty]
            uc = [f for f in cnames if f not in rty]
            m = {}
            if len(rnames) == len(cnames):
                for j in range(len(rnames)):
                    if rnames[j] != cnames[j] and rnames[j] in ur and cnames[j] in uc \
                            and rvv["fields"][j][1] == v["fields"][j]["ty"]:
                        m[cnames[j]] = rnames[j]
            for f in uc:
                if f in m:
                    continue
                cands = [g for g in ur if g not in m.values() and rty[g] == cty[f]]
                back = [h for h in uc if h not in m and cty[h] == cty[f]]
                if len(cands) == 1 and len(back) == 1:
                    m[f] = cands[0]
            if m:
                fmap.setdefault(a["path"], {})[i] = m
    if not fmap and not vmap:
        return subs
    for a in raw["adts"]:
        vm = vmap.get(a["path"], {})
        for i, v in enumerate(a["variants"]):
            fm = fmap.get(a["path"], {}).get(i, {})
            for f in v["fields"]:
                if f["name"] in fm:
                    report["fields"].append({"type": a["path"], "pinned": fm[f["name"]], "now": f["name"]})
                    f["name"] = fm[f["name"]]
            if v["name"] in vm:
                if a["path"] not in structs_renamed:
                    report["variants"].append({"type": a["path"], "pinned": vm[v["name"]], "now": v["name"]})
                    subs.append(_p1(a["path"] + "::" + v["name"], a["path"] + "::" + vm[v["name"]]))
                v["name"] = vm[v["name"]]
    for b in raw["mir"].values():
        bodies = [b] + list(b.get("promoted") or [])
        for bb in bodies:
            if not isinstance(bb, dict):
                continue
            for blk in bb.get("blocks", []):
                for s in blk["stmts"]:
                    rv = s.get("rv")
                    if rv and rv.get("k") == "agg" and rv.get("agg") == "adt":
                        p = rv.get("adt")
                        if p in fmap or p in vmap:
                            vi = rv.get("variant", 0)
                            fm = fmap.get(p, {}).get(vi, {})
                            if fm and rv.get("fields"):
                                rv["fields"] = [fm.get(x, x) for x in rv["fields"]]
                            vm = vmap.get(p, {})
                            if rv.get("variant_name") in vm:
                                rv["variant_name"] = vm[rv["variant_name"]]
    return subs


def empty_report():
    return {"types": [], "traits": [], "statics": [], "functions": [], "fields": [], "variants": [], "ambiguous": []}


def normalize(text):
    """text of one fact file -> (parsed facts with the pinned names restored, report)."""
    raw = json.loads(text)
    report = empty_report()
    ref = reference()
    if not ref or os.environ.get("JAWK_SA_NO_RENAME") == "1":
        report["enabled"] = False
        return raw, report
    report["enabled"] = True
    kind = raw["kind"]
    changed = False
    mapping = _phase_impl_blocks(raw, ref, kind, report)
    if mapping:
        text = _reform_text(text, mapping)
        raw = json.loads(text)
        changed = True
    cur = shapes(raw)
    subs = _phase_types(cur, ref, kind, report)
    if subs:
        text = _apply_text(text, subs)
        raw = json.loads(text)
        changed = True
        # with the type names restored, impl blocks that moved along with their type can be recognised
        mapping = _phase_impl_blocks(raw, ref, kind, report)
        if mapping:
            text = _reform_text(text, mapping)
            raw = json.loads(text)
    for _ in range(4):
        cur = shapes(raw)
        subs = _phase_fns(cur, ref, kind, report)
        if not subs:
            break
        text = _apply_text(text, subs)
        raw = json.loads(text)
        changed = True
        # ambiguities of an earlier round may be resolved by a later one
        resolved = {r["pinned"] for r in report["functions"]}
        report["ambiguous"] = [a for a in report["ambiguous"] if not (isinstance(a["pinned"], str) and a["pinned"] in resolved)]
    subs = _phase_members(raw, ref, kind, report)
    if subs:
        # variants are paths: substitute in the text of the (already member-patched) facts
        text = _apply_text(json.dumps(raw), subs)
        raw = json.loads(text)
        changed = True
    # de-duplicate the ambiguity notes
    seen = set()
    amb = []
    for a in report["ambiguous"]:
        k = json.dumps(a, sort_keys=True)
        if k not in seen:
            seen.add(k)
            amb.append(a)
    report["ambiguous"] = amb
    report["changed"] = changed or bool(report["fields"])
    return raw, report

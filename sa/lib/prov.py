"""A4: flow-insensitive value provenance inside one MIR body.

`Prov(body).origins(operand_or_place)` returns a set of atoms describing where
the value may come from:

  ("arg", i, proj)      parameter i (1-based MIR local), `proj` = tuple of the
                        field/deref/downcast projections applied to it
  ("call", bb, proj)    (a projection of) the result of the call in block bb
  ("const", text)       a constant
  ("agg", bb, idx, proj)  an aggregate built at that statement whose requested
                        field could not be looked through (e.g. whole struct)
  ("op", kind, bb, idx) result of a binop/unop/cast whose operands are also
                        reported (the operands' atoms are unioned in)
  ("local", l, proj)    a local without any assignment (should not happen)

References are looked through (`&x`, `&mut x` alias x; deref projections are
dropped), so this is a may-alias-free *value* provenance: good enough for MIR
at opt-level 0, where every temporary is assigned once and user variables a
few times. Multiply-assigned locals union their definitions (path-insensitive).
Out-parameters (a `&mut local` passed to a call) add ("outparam", bb, argidx).
"""


_SUCCESS = ("Continue", "Ok", "Some")
_FAILURE = ("Break", "Err", "None")


def _variant_mismatch(p0, rv):
    """The requested payload is the success side of a `?` (Continue / Ok / Some) but the aggregate builds the failure
    side (Err / None), or the other way round: the value cannot come from this aggregate. (The names differ across the
    look-through of Try::branch - ControlFlow::Continue(v) is Result::Ok(v) - so only the side is compared.)"""
    if not p0.startswith("dc") or ":" not in p0:
        return False
    want = p0.split(":", 1)[1]
    have = rv.get("variant_name")
    if have is None:
        return False
    return (want in _SUCCESS and have in _FAILURE) or (want in _FAILURE and have in _SUCCESS)


def _strip(proj):
    """Drop deref elements; keep fields and downcasts."""
    return tuple(p for p in proj if p != "deref")


class Prov:
    def __init__(self, body, look_through_calls=()):
        self.body = body
        # callee-name suffixes whose result is treated as derived from arg 0
        # (e.g. Clone::clone, Deref::deref, Rc::clone, as_ref ...)
        self.look_through = tuple(look_through_calls)
        self.defs = {}       # local -> list of (bb, idx, proj_of_dest, rvalue)
        self.calldefs = {}   # local -> list of (bb, proj_of_dest)
        self.outparams = {}  # local -> list of (bb, argidx)
        for bb, idx, place, rv, _ in body.assignments():
            self.defs.setdefault(place["l"], []).append((bb, idx, tuple(place["p"]), rv))
        for c in body.calls:
            self.calldefs.setdefault(c.dest["l"], []).append((c.bb, tuple(c.dest["p"])))
        self._memo = {}
        # &mut locals passed to calls
        refs = {}
        for bb, idx, place, rv, _ in body.assignments():
            if rv["k"] == "ref" and rv["mutbl"] and not place["p"]:
                refs.setdefault(place["l"], []).append(rv["place"])
        for c in body.calls:
            for ai, a in enumerate(c.args):
                if a["k"] in ("move", "copy") and not a["place"]["p"]:
                    for tgt in refs.get(a["place"]["l"], []):
                        self.outparams.setdefault(tgt["l"], []).append((c.bb, ai))

    # ------------------------------------------------------------------
    def origins(self, x, _depth=0):
        if x is None:
            return set()
        if "k" in x and x["k"] in ("copy", "move"):
            return self.place_origins(x["place"]["l"], _strip(x["place"]["p"]))
        if "k" in x and x["k"] == "const":
            return {("const", x["s"])}
        if "l" in x:
            return self.place_origins(x["l"], _strip(x["p"]))
        return {("unknown", str(x))}

    def place_origins(self, l, proj):
        key = (l, proj)
        if key in self._memo:
            r = self._memo[key]
            return r if r is not None else set()
        self._memo[key] = None  # cycle guard
        out = set()
        if 1 <= l <= self.body.arg_count:
            out.add(("arg", l, proj))
        any_def = False
        for bb, idx, dproj, rv in self.defs.get(l, []):
            any_def = True
            dproj = _strip(dproj)
            if dproj:
                # partial assignment `l.f = rv`: relevant only if it is a prefix of proj
                if proj[: len(dproj)] == dproj:
                    out |= self._rv_origins(rv, proj[len(dproj):], bb, idx)
                elif dproj[: len(proj)] == proj:
                    out |= self._rv_origins(rv, (), bb, idx)
                continue
            out |= self._rv_origins(rv, proj, bb, idx)
        for bb, dproj in self.calldefs.get(l, []):
            any_def = True
            dproj = _strip(dproj)
            if dproj and proj[: len(dproj)] != dproj and dproj[: len(proj)] != proj:
                continue
            rest = proj[len(dproj):] if proj[: len(dproj)] == dproj else ()
            c = self.body.call_at[bb]
            if self._never_success(c, rest):
                continue
            if self._is_look_through(c) and c.args:
                out |= self._origins_p(c.args[0], rest)
                out.add(("via", c.name, bb))
            else:
                out.add(("call", bb, rest))
        for bb, ai in self.outparams.get(l, []):
            out.add(("outparam", bb, ai))
        if not any_def and not (1 <= l <= self.body.arg_count):
            out.add(("local", l, proj))
        self._memo[key] = out
        return out

    def _origins_p(self, x, proj):
        """origins(x) with `proj` applied to x first, so that the projection is pushed through aggregates
        (`Ok(v)` handed to `?`: the requested `.0` is v) instead of being appended to whatever x derives from."""
        if not proj:
            return set(self.origins(x))
        if x is not None and x.get("k") in ("copy", "move"):
            return set(self.place_origins(x["place"]["l"], _strip(x["place"]["p"]) + tuple(proj)))
        return self._with_proj(self.origins(x), proj)

    def _origins_at_p(self, x, proj, bb, pos, stack):
        if not proj:
            return set(self.origins_at(x, bb, pos, stack))
        if x is not None and x.get("k") in ("copy", "move"):
            return set(self._place_at(x["place"]["l"], _strip(x["place"]["p"]) + tuple(proj), bb, pos, stack or set()))
        return self._with_proj(self.origins_at(x, bb, pos, stack), proj)

    @staticmethod
    def _never_success(c, proj):
        """`FromResidual::from_residual` builds the failure value of a `?` (Err / None): the payload of the success
        variant (what `?` hands on: Continue / Ok / Some) never derives from it."""
        if not proj or not ((c.callee or "").endswith("FromResidual::from_residual")
                            or (c.name or "").endswith("::from_residual")):
            return False
        p0 = proj[0]
        return p0.startswith("dc") and p0.split(":", 1)[-1] in ("Continue", "Ok", "Some")

    def _is_look_through(self, c):
        n = c.name or ""
        cal = c.callee or ""
        for s in self.look_through:
            if n.endswith(s) or cal.endswith(s):
                return True
        return False

    @staticmethod
    def _with_proj(atoms, rest):
        if not rest:
            return set(atoms)
        out = set()
        for a in atoms:
            if a[0] in ("arg", "call", "local"):
                out.add((a[0], a[1], tuple(a[2]) + tuple(rest)))
            else:
                out.add(a)
        return out

    def _rv_origins(self, rv, proj, bb, idx):
        k = rv["k"]
        if k == "use":
            return self._origins_p(rv["op"], proj)
        if k in ("ref", "rawptr"):
            return self.place_origins(rv["place"]["l"], _strip(rv["place"]["p"]) + tuple(proj))
        if k == "cast":
            out = self._origins_p(rv["op"], proj)
            out.add(("op", "cast:" + rv["cast"] + ":" + rv["ty"], bb, idx))
            return out
        if k == "binop":
            out = self.origins(rv["a"]) | self.origins(rv["b"])
            out.add(("op", "binop:" + rv["op"], bb, idx))
            return out
        if k == "unop":
            out = set(self.origins(rv["a"]))
            out.add(("op", "unop:" + rv["op"], bb, idx))
            return out
        if k == "discr":
            out = self.place_origins(rv["place"]["l"], _strip(rv["place"]["p"]))
            out.add(("op", "discr", bb, idx))
            return out
        if k == "agg":
            # look through aggregate when a field is requested
            if proj and _variant_mismatch(proj[0], rv):
                return set()
            if proj:
                p = [x for x in proj]
                # skip a downcast element
                while p and p[0].startswith("dc"):
                    p.pop(0)
                if p and p[0].startswith("f") and p[0][1:].isdigit():
                    fi = int(p[0][1:])
                    if fi < len(rv["ops"]):
                        return self._origins_p(rv["ops"][fi], tuple(p[1:]))
            return {("agg", bb, idx, tuple(proj))}
        return {("unknown", k, bb, idx)}

    # ------------------------------------------------------------------ flow-sensitive variant
    def _def_sites(self, l):
        """All definition sites of local l: (bb, pos, kind, payload); pos = stmt index, or
        len(stmts) for the terminator (call destination)."""
        out = []
        for bb, idx, dproj, rv in self.defs.get(l, []):
            out.append((bb, idx, "assign", (dproj, rv)))
        for bb, dproj in self.calldefs.get(l, []):
            out.append((bb, len(self.body.stmts(bb)), "call", dproj))
        return out

    def reaching(self, l, bb, pos):
        """Definition sites of local l that reach program point (bb, pos) (before executing pos).
        A call's destination is defined on the edge to its target, i.e. it reaches the target block."""
        sites = self._def_sites(l)
        full = [s for s in sites if not _strip(s[3][0] if s[2] == "assign" else s[3])]
        by_block = {}
        for s in full:
            by_block.setdefault(s[0], []).append(s)
        for v in by_block.values():
            v.sort(key=lambda s: s[1])
        # within the same block, before pos
        here = [s for s in by_block.get(bb, []) if s[1] < pos]
        if here:
            return [here[-1]]
        out = []
        seen = set()
        work = list(self.body.pred(bb))
        while work:
            b = work.pop()
            if b in seen:
                continue
            seen.add(b)
            ds = by_block.get(b, [])
            if ds:
                out.append(ds[-1])
                continue
            work.extend(self.body.pred(b))
        return out

    def origins_at(self, x, bb, pos, _stack=None):
        """Like origins(), but multiply-defined locals are resolved by reaching definitions at (bb, pos)."""
        if x is None:
            return set()
        if "k" in x and x["k"] == "const":
            return {("const", x["s"])}
        place = x["place"] if "k" in x else x
        return self._place_at(place["l"], _strip(place["p"]), bb, pos, _stack or set())

    def _place_at(self, l, proj, bb, pos, stack):
        sites = self._def_sites(l)
        nfull = len([s for s in sites if not _strip(s[3][0] if s[2] == "assign" else s[3])])
        if nfull <= 1 and len(sites) == nfull:
            # single assignment: the flow-insensitive answer is exact, but its operands may be multi-def
            if not sites:
                return self.place_origins(l, proj)
            s = sites[0]
            return self._site_origins(s, proj, stack)
        key = (l, proj, bb, pos)
        if key in stack:
            return set()
        stack = stack | {key}
        out = set()
        if 1 <= l <= self.body.arg_count:
            # parameter value reaches if some path from entry has no def
            rs = self.reaching(l, bb, pos)
            # conservative: include the parameter itself
            out.add(("arg", l, proj))
        for s in self.reaching(l, bb, pos):
            out |= self._site_origins(s, proj, stack)
        return out

    def _site_origins(self, s, proj, stack):
        sbb, spos, kind, payload = s
        if kind == "assign":
            dproj, rv = payload
            return self._rv_origins_at(rv, proj, sbb, spos, stack)
        c = self.body.call_at[sbb]
        if self._never_success(c, proj):
            return set()
        if self._is_look_through(c) and c.args:
            out = self._origins_at_p(c.args[0], proj, sbb, spos, stack)
            out.add(("via", c.name, sbb))
            return out
        return {("call", sbb, tuple(proj))}

    def _rv_origins_at(self, rv, proj, bb, idx, stack):
        k = rv["k"]
        if k == "use":
            return self._origins_at_p(rv["op"], proj, bb, idx, stack)
        if k in ("ref", "rawptr"):
            return self._place_at(rv["place"]["l"], _strip(rv["place"]["p"]) + tuple(proj), bb, idx, stack)
        if k == "cast":
            out = self._origins_at_p(rv["op"], proj, bb, idx, stack)
            out.add(("op", "cast:" + rv["cast"] + ":" + rv["ty"], bb, idx))
            return out
        if k == "binop":
            out = self.origins_at(rv["a"], bb, idx, stack) | self.origins_at(rv["b"], bb, idx, stack)
            out.add(("op", "binop:" + rv["op"], bb, idx))
            return out
        if k == "unop":
            out = set(self.origins_at(rv["a"], bb, idx, stack))
            out.add(("op", "unop:" + rv["op"], bb, idx))
            return out
        if k == "discr":
            out = self._place_at(rv["place"]["l"], _strip(rv["place"]["p"]), bb, idx, stack)
            out.add(("op", "discr", bb, idx))
            return out
        if k == "agg" and proj and _variant_mismatch(proj[0], rv):
            return set()
        if k == "agg" and proj:
            p = [x for x in proj]
            while p and p[0].startswith("dc"):
                p.pop(0)
            if p and p[0].startswith("f") and p[0][1:].isdigit():
                fi = int(p[0][1:])
                if fi < len(rv["ops"]):
                    return self._origins_at_p(rv["ops"][fi], tuple(p[1:]), bb, idx, stack)
        return self._rv_origins(rv, proj, bb, idx)

    def call_arg_origins(self, c, i):
        """Flow-sensitive origins of argument i of call c (evaluated at the call)."""
        return self.origins_at(c.args[i], c.bb, len(self.body.stmts(c.bb)))

    # ------------------------------------------------------------------ helpers
    def agg_at(self, bb, idx):
        return self.body.stmts(bb)[idx]["rv"]

    def derives_from_call(self, x, pred):
        """True if some origin of x is the result of a call satisfying pred(Call)."""
        for a in self.origins(x):
            if a[0] == "call" and pred(self.body.call_at[a[1]]):
                return True
        return False

    def call_origins(self, x):
        return [self.body.call_at[a[1]] for a in self.origins(x) if a[0] == "call"]

"""Debug pretty-printer for fact-file MIR (not used by rules)."""
import sys
from .facts import Crate, pstr


def O(o):
    if o['k'] in ('copy', 'move'):
        return o['k'] + ' ' + pstr(o['place'])
    if o['k'] == 'const':
        return 'const ' + o['s']
    return str(o)


def RV(r):
    k = r['k']
    if k == 'use':
        return O(r['op'])
    if k == 'ref':
        return '&' + ('mut ' if r['mutbl'] else '') + pstr(r['place'])
    if k == 'cast':
        return 'cast[%s](%s as %s)' % (r['cast'], O(r['op']), r['ty'])
    if k == 'binop':
        return '%s(%s, %s)' % (r['op'], O(r['a']), O(r['b']))
    if k == 'unop':
        return '%s(%s)' % (r['op'], O(r['a']))
    if k == 'discr':
        return 'discr(%s)' % pstr(r['place'])
    if k == 'agg':
        return 'agg %s %s [%s]' % (r['agg'], r.get('adt', '') + '::' + r.get('variant_name', ''), ', '.join(O(o) for o in r['ops']))
    return str(r)


def show(cr, name, locals_=True):
    b = cr.bodies[name].raw
    print('fn', name, 'args', b['arg_count'])
    if locals_:
        for i, l in enumerate(b['locals']):
            print('  _%d: %s %s' % (i, l['ty'], l['name'] or ''))
    for i, bb in enumerate(b['blocks']):
        if bb['cleanup']:
            continue
        print(' bb%d:' % i)
        for s in bb['stmts']:
            if s['k'] == 'assign':
                print('   %s = %s   @%d %s' % (pstr(s['place']), RV(s['rv']), s['loc']['line'], s['loc'].get('exp', '')))
            else:
                print('   ', s)
        t = bb['term']
        k = t['k']
        if k == 'call':
            print('   %s = call %s (%s) -> bb%s @%d %s' % (pstr(t['dest']), t.get('resolved_full') or t.get('callee_full') or ('indirect ' + O(t['indirect'])), ', '.join(O(a) for a in t['args']), t['t'], t['loc']['line'], t['loc'].get('exp', '')))
        elif k == 'switch':
            print('   switch %s %s otherwise bb%d' % (O(t['discr']), t['arms'], t['otherwise']))
        elif k == 'goto':
            print('   goto bb%d' % t['t'])
        elif k == 'drop':
            print('   drop %s -> bb%d' % (pstr(t['place']), t['t']))
        elif k == 'assert':
            print('   assert %s == %s [%s] -> bb%d' % (O(t['cond']), t['expected'], t['msg_kind'], t['t']))
        else:
            print('   ', k)


if __name__ == '__main__':
    cr = Crate(sys.argv[1])
    for n in sys.argv[2:]:
        for k in cr.bodies:
            if k == n or k.endswith(n):
                show(cr, k)

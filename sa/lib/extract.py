"""Run the jawk-facts driver over the repository's current working tree.

Facts are cached per (configuration, content hash of the sources + manifest +
lock file + driver binary): every check re-hashes /repo on every run, so an
edited tree is always re-analysed, while the 19 checks of one run share a
single extraction.  Fail closed: if the fact files were not (re)written by
this extraction, raise.
"""
import fcntl
import hashlib
import os
import shutil
import subprocess
import time

VERIF = os.path.dirname(os.path.dirname(os.path.dirname(os.path.abspath(__file__))))
REPO = os.environ.get("JAWK_REPO", "/repo")
CACHE = os.environ.get("JAWK_VERIF_CACHE", os.path.join(VERIF, ".cache"))
DRIVER_DIR = os.path.join(VERIF, "sa", "driver")
DRIVER = os.path.join(DRIVER_DIR, "target", "debug", "jawk-facts")

CONFIGS = {
    # name: (extra RUSTFLAGS, extra cargo args)
    "dev": ("", []),
    "rel": ("-C debug-assertions=off -C overflow-checks=off", []),
    "docs": ("", ["--features", "create-docs"]),
}


class ExtractError(Exception):
    pass


def _sysroot():
    return subprocess.check_output(["rustc", "+nightly", "--print", "sysroot"], text=True).strip()


def build_driver():
    if os.path.exists(DRIVER):
        # rebuild if sources are newer
        newest = max(os.path.getmtime(os.path.join(DRIVER_DIR, "src", f))
                     for f in os.listdir(os.path.join(DRIVER_DIR, "src")))
        if os.path.getmtime(DRIVER) >= newest:
            return
    env = dict(os.environ, CARGO_NET_OFFLINE="true")
    r = subprocess.run(["cargo", "build", "--offline"], cwd=DRIVER_DIR, env=env,
                       stdout=subprocess.PIPE, stderr=subprocess.STDOUT, text=True)
    if r.returncode != 0 or not os.path.exists(DRIVER):
        raise ExtractError("driver build failed:\n" + r.stdout[-4000:])


def source_hash(repo):
    h = hashlib.sha256()
    files = []
    for root, dirs, fs in os.walk(os.path.join(repo, "src")):
        dirs.sort()
        for f in sorted(fs):
            files.append(os.path.join(root, f))
    for extra in ("Cargo.toml", "Cargo.lock", "build.rs"):
        p = os.path.join(repo, extra)
        if os.path.exists(p):
            files.append(p)
    for p in files:
        h.update(os.path.relpath(p, repo).encode())
        h.update(b"\0")
        with open(p, "rb") as fh:
            h.update(fh.read())
        h.update(b"\0")
    with open(DRIVER, "rb") as fh:
        h.update(hashlib.sha256(fh.read()).digest())
    return h.hexdigest()


def extract(config="dev", repo=None, tag=""):
    """Returns (facts_dir, sha, seconds, cached)."""
    repo = repo or REPO
    if config not in CONFIGS:
        raise ExtractError("unknown config " + config)
    os.makedirs(CACHE, exist_ok=True)
    lock = open(os.path.join(CACHE, "lock"), "w")
    fcntl.flock(lock, fcntl.LOCK_EX)
    try:
        build_driver()
        sha = source_hash(repo) + "-" + hashlib.sha256(os.path.abspath(repo).encode()).hexdigest()[:8]
        out = os.path.join(CACHE, "facts", config + tag)
        stamp = os.path.join(out, "STAMP")
        lib = os.path.join(out, "jawk-lib.json")
        binf = os.path.join(out, "jawk-bin.json")
        if os.path.exists(stamp) and open(stamp).read().strip() == sha \
                and os.path.exists(lib) and os.path.exists(binf):
            return out, sha, 0.0, True
        if os.path.isdir(out):
            shutil.rmtree(out)
        os.makedirs(out)
        target = os.path.join(CACHE, "target")
        # cargo's freshness cache would skip the wrapper: drop the member's fingerprints
        fp = os.path.join(target, "debug", ".fingerprint")
        if os.path.isdir(fp):
            for d in os.listdir(fp):
                if d.startswith("jawk-"):
                    shutil.rmtree(os.path.join(fp, d), ignore_errors=True)
        rustflags, extra = CONFIGS[config]
        env = dict(os.environ)
        env.update({
            "LD_LIBRARY_PATH": _sysroot() + "/lib" + (":" + env["LD_LIBRARY_PATH"] if env.get("LD_LIBRARY_PATH") else ""),
            "RUSTFLAGS": ("-Zmir-opt-level=0 -Awarnings " + rustflags).strip(),
            "RUSTC_WORKSPACE_WRAPPER": DRIVER,
            "JAWK_FACTS_DIR": out,
            "JAWK_FACTS_CRATE": "jawk",
            "CARGO_TARGET_DIR": target,
            "CARGO_NET_OFFLINE": "true",
        })
        t0 = time.time()
        cmd = ["cargo", "+nightly", "check", "--offline", "--lib", "--bins"] + extra
        r = subprocess.run(cmd, cwd=repo, env=env, stdout=subprocess.PIPE, stderr=subprocess.STDOUT, text=True)
        dt = time.time() - t0
        if r.returncode != 0:
            raise ExtractError("cargo check with the fact driver failed (%s):\n%s" % (config, r.stdout[-6000:]))
        for p in (lib, binf):
            if not os.path.exists(p) or os.path.getmtime(p) < t0 - 1:
                raise ExtractError("fact file %s was not rewritten by this extraction" % p)
        with open(stamp, "w") as f:
            f.write(sha)
        return out, sha, dt, False
    finally:
        fcntl.flock(lock, fcntl.LOCK_UN)
        lock.close()

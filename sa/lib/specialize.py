"""Specialisation of bodies to "none of the options the rules do not know is given".

The properties quantify over the options of the pinned tree. A later edit may add an option (a new field of one of
the clap argument structs: Cli, OutputOptions, JsonOutputOptions, TextOutputOptions) whose default leaves everything
as it was: `Option<_>` fields default to None, `bool` flags to false. The fields of the pinned tree are frozen in
sa/tables/known_fields.txt (sa/tools/gen_known_functions.py). For every function that receives one of these structs
(directly, by reference, or as a field of its receiver up to two levels deep, e.g. Master.cli or TextPrinter.options)
the body is partially evaluated with the *new* Option / bool fields at their defaults, and the rules analyse the
specialised body: decided switches keep only the edges taken, blocks never reached are emptied. Code that only runs
when a new option is given is thereby outside the analysed program, exactly as it is outside the properties.

Only argument structs are treated this way (they are immutable after parsing). A new field of a stage or of any other
state-carrying struct is never assumed to keep its initial value.
"""
import copy
import os

TABLE = os.path.join(os.path.dirname(os.path.dirname(os.path.abspath(__file__))), "tables", "known_fields.txt")
ARG_TRAITS = ("clap::Args", "clap::Parser")


def known_fields():
    if not os.path.exists(TABLE):
        return None
    with open(TABLE) as f:
        return {l.rstrip("\n") for l in f if l.strip() and not l.startswith("#")}


def new_option_defaults(crate):
    """{adt path: {field index: default value}} for the new Option / bool fields of the clap argument structs."""
    known = known_fields()
    if known is None:
        return {}
    arg_structs = {i.get("self") for i in crate.impls if (i.get("trait") or "") in ARG_TRAITS}
    out = {}
    for path in arg_structs:
        adt = crate.adts.get(path)
        if not adt or len(adt["variants"]) != 1:
            continue
        with_default = _args_with_default(crate, path)
        for fi, f in enumerate(adt["variants"][0]["fields"]):
            if "%s::%s" % (path, f["name"]) in known:
                continue
            if with_default is None or f["name"] in with_default:
                continue     # declared with a default value (or the declaration could not be read): not None / false
            ty = f["ty"]
            if ty.startswith("std::option::Option<"):
                out.setdefault(path, {})[fi] = ("adt", 0, ())
            elif ty == "bool":
                out.setdefault(path, {})[fi] = ("b", False)
    return out


def _args_with_default(crate, path):
    """Ids of the arguments of the clap struct `path` that are declared with some default (default_value,
    default_value_t, default_missing_value, default_value_if ...), read from the derived `augment_args`: the id given
    to `Arg::new` of the builder chain a `default*` call belongs to. None if the derived code is not found."""
    from lib.prov import Prov
    names = [n for n in getattr(crate, "raw_bodies", crate.bodies)
             if n.startswith("<%s as clap::Args>::augment_args" % path) and "{closure" not in n]
    if not names:
        return None
    ids = set()
    bodies = getattr(crate, "raw_bodies", crate.bodies)
    for n in names:
        b = bodies[n]
        pr = Prov(b, ())

        def arg_ids(call, depth=0):
            """Ids of the Arg::new calls the builder value handed to `call` (argument 0) comes from."""
            out = set()
            if depth > 40:
                return None
            for a in pr.call_arg_origins(call, 0):
                if a[0] in ("via", "op"):
                    continue
                if a[0] != "call":
                    return None
                k = b.call_at[a[1]]
                kn = k.name or ""
                if kn.endswith("clap::Arg::new") or kn == "clap::Arg::new":
                    if not (k.args and k.args[0].get("k") == "const"):
                        return None
                    t = k.args[0].get("s", "")
                    out.add(t.replace("const ", "").strip().strip('"'))
                elif kn.startswith("clap::Arg::") or kn.startswith("clap::builder::Arg::"):
                    sub = arg_ids(k, depth + 1)
                    if sub is None:
                        return None
                    out |= sub
                else:
                    return None
            return out
        for c in b.calls:
            nm = c.name or ""
            if not (nm.startswith("clap::Arg::") or nm.startswith("clap::builder::Arg::")) \
                    or "default" not in nm.rsplit("::", 1)[-1]:
                continue
            got = arg_ids(c)
            if not got:
                return None
            ids |= got
    return ids


def _strip_ref(ty):
    t = ty.strip()
    while t.startswith("&"):
        t = t[1:].lstrip()
        if t.startswith("mut "):
            t = t[4:].lstrip()
        if t.startswith("'"):
            t = t.split(" ", 1)[1] if " " in t else t
    return t


def _value_for(crate, ty, defaults, depth):
    """A PE value for an ADT of type `ty` with the new option fields seeded (None when nothing is seeded inside)."""
    path = ty.split("<")[0]
    adt = crate.adts.get(path)
    if not adt or len(adt["variants"]) != 1 or depth > 2:
        return None
    fields = adt["variants"][0]["fields"]
    vals = [None] * len(fields)
    any_ = False
    for fi, f in enumerate(fields):
        if path in defaults and fi in defaults[path]:
            vals[fi] = defaults[path][fi]
            any_ = True
        else:
            sub = _value_for(crate, _strip_ref(f["ty"]), defaults, depth + 1) if not f["ty"].startswith("&") else None
            if sub is not None:
                vals[fi] = sub
                any_ = True
    return ("adt", 0, tuple(vals)) if any_ else None


def seed_env(crate, body, defaults):
    env = {}
    for i in range(1, body.arg_count + 1):
        ty = body.locals[i]["ty"]
        v = _value_for(crate, _strip_ref(ty), defaults, 0)
        if v is not None:
            env[i] = ("rv", v) if ty.strip().startswith("&") else v
    return env


def specialize(body_cls, crate, name, body, env):
    """A Body in which only what is reachable under `env` remains; None if nothing changes or it cannot be decided."""
    from lib.peval import PE
    try:
        res = PE(body, None, max_states=60000, crate=crate).run(env=env)
    except RuntimeError:
        return None
    n = len(body.blocks)
    taken = {}
    for a, b in res.edges:
        taken.setdefault(a, set()).add(b)
    changed = False
    raw = dict(body.raw)
    blocks = []
    for i, blk in enumerate(body.blocks):
        if blk["cleanup"]:
            blocks.append(blk)
            continue
        if i not in res.visited:
            blocks.append({"stmts": [], "term": {"k": "unreachable", "loc": blk["term"]["loc"]}, "cleanup": False,
                           "pruned": True})
            changed = True
            continue
        t = blk["term"]
        if t["k"] == "switch":
            tg = taken.get(i, set())
            allt = {x for _, x in t["arms"]} | {t["otherwise"]}
            if tg and tg != allt:
                nb = dict(blk)
                if len(tg) == 1:
                    nb["term"] = {"k": "goto", "t": next(iter(tg)), "loc": t["loc"], "decided": True}
                else:
                    arms = [[v, x] for v, x in t["arms"] if x in tg]
                    other = t["otherwise"] if t["otherwise"] in tg else arms[-1][1]
                    nb["term"] = dict(t, arms=arms, otherwise=other)
                blocks.append(nb)
                changed = True
                continue
        blocks.append(blk)
    if not changed:
        return None
    raw["blocks"] = blocks
    return body_cls(name, raw, body.info)

"""Analysis context: the two fact files (lib crate, bin crate) of one configuration plus lazily built call graphs."""
import os

from .facts import Crate
from .callgraph import CallGraph


class Ctx:
    def __init__(self, config, facts_dir, sha, repo):
        self.config = config
        self.sha = sha
        self.repo = repo
        self.lib = Crate(os.path.join(facts_dir, "jawk-lib.json"))
        self.bin = Crate(os.path.join(facts_dir, "jawk-bin.json"))
        self._cg = None
        self._cgbin = None

    @property
    def cg(self):
        if self._cg is None:
            self._cg = CallGraph(self.lib)
        return self._cg

    @property
    def cgbin(self):
        if self._cgbin is None:
            self._cgbin = CallGraph(self.bin)
        return self._cgbin

    @property
    def cgraw(self):
        """Call graph over the functions as written (see Crate.raw_view)."""
        if self.lib.raw_view() is self.lib:
            return self.cg
        if getattr(self, "_cgraw", None) is None:
            self._cgraw = CallGraph(self.lib.raw_view())
        return self._cgraw

    @property
    def cgbinraw(self):
        if self.bin.raw_view() is self.bin:
            return self.cgbin
        if getattr(self, "_cgbinraw", None) is None:
            self._cgbinraw = CallGraph(self.bin.raw_view())
        return self._cgbinraw

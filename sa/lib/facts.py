"""Fact files -> indexed program model (bodies, CFG, dominators, call sites).

Everything here is plain data plumbing over the JSON written by sa/driver.
No rule logic lives in this module.
"""
import json
import os
from functools import lru_cache


def pstr(place):
    return "_%d%s" % (place["l"], "".join("." + x for x in place["p"]))


def ostr(o):
    if o is None:
        return "?"
    if o["k"] in ("copy", "move"):
        return pstr(o["place"])
    if o["k"] == "const":
        return "const " + o["s"]
    return str(o.get("s", o))


class Call:
    """A call terminator."""

    __slots__ = ("body", "bb", "t", "callee", "resolved", "name", "full", "args", "dest", "target",
                 "loc", "exp", "trait", "gargs", "kind")

    def __init__(self, body, bb, t):
        self.body = body
        self.bb = bb
        self.t = t
        self.callee = t.get("callee")
        self.resolved = t.get("resolved")
        # "name": best known callee path without generic args
        self.name = self.resolved or self.callee
        self.full = t.get("resolved_full") or t.get("callee_full")
        self.args = t["args"]
        self.dest = t["dest"]
        self.target = t["t"]
        self.loc = t["loc"]
        self.exp = t["loc"].get("exp", [])
        self.trait = t.get("callee_trait")
        self.gargs = t.get("gargs", [])
        self.kind = t.get("resolved_kind")

    @property
    def line(self):
        return self.loc["line"]

    def where(self):
        return "%s:%d" % (self.loc["file"], self.loc["line"])

    def is_dyn(self):
        """Dispatch not statically known (trait object or unresolved generic)."""
        if self.callee is None:
            return True
        if self.kind == "virtual":
            return True
        if self.resolved is None:
            return True
        if self.resolved.startswith("<dyn "):
            return True
        return False

    def method(self):
        """Last path segment of the callee, e.g. 'process'."""
        n = self.callee or ""
        return n.rsplit("::", 1)[-1]

    def __repr__(self):
        return "Call(bb%d %s @%d)" % (self.bb, self.full, self.line)


class Body:
    def __init__(self, name, raw, info):
        self.name = name
        self.raw = raw
        self.info = info or {}
        self.blocks = raw["blocks"]
        self.locals = raw["locals"]
        self.arg_count = raw["arg_count"]
        self.n = len(self.blocks)
        self._succ = [self._succ_of(b) for b in self.blocks]
        self._pred = None
        self._idom = None
        self.calls = []
        for i, b in enumerate(self.blocks):
            if b["term"]["k"] in ("call", "tailcall") and not b["cleanup"]:
                t = b["term"]
                if "dest" not in t:
                    t = dict(t, dest={"l": 0, "p": [], "ty": ""}, t=None)
                self.calls.append(Call(self, i, t))
        self.call_at = {c.bb: c for c in self.calls}

    # ------------------------------------------------------------ basic CFG
    @staticmethod
    def _succ_of(b):
        t = b["term"]
        k = t["k"]
        if k == "goto":
            return [t["t"]]
        if k == "switch":
            out = []
            for _, tg in t["arms"]:
                if tg not in out:
                    out.append(tg)
            if t["otherwise"] not in out:
                out.append(t["otherwise"])
            return out
        if k in ("call", "drop", "assert"):
            return [t["t"]] if t.get("t") is not None else []
        return []

    def succ(self, i):
        return self._succ[i]

    def pred(self, i):
        if self._pred is None:
            self._pred = [[] for _ in range(self.n)]
            for a in range(self.n):
                for b in self._succ[a]:
                    self._pred[b].append(a)
        return self._pred[i]

    def term(self, i):
        return self.blocks[i]["term"]

    def stmts(self, i):
        return self.blocks[i]["stmts"]

    def file(self):
        return self.raw["loc"]["file"]

    def line(self):
        return self.raw["loc"]["line"]

    def where(self, bb=None):
        if bb is None:
            return "%s:%d" % (self.file(), self.line())
        t = self.term(bb)
        ln = t["loc"]["line"]
        for s in self.stmts(bb):
            ln = s["loc"]["line"]
            break
        return "%s:%d" % (t["loc"]["file"], ln)

    def reachable(self, start=0, avoid=(), avoid_edges=()):
        """Blocks reachable from `start` without entering `avoid` blocks or
        taking `avoid_edges` ((a, b) pairs). `start` itself counts even if in avoid."""
        avoid = set(avoid)
        avoid_edges = set(avoid_edges)
        seen = {start}
        work = [start]
        while work:
            a = work.pop()
            if a in avoid and a != start:
                continue
            for b in self._succ[a]:
                if (a, b) in avoid_edges or b in seen:
                    continue
                seen.add(b)
                work.append(b)
        return {b for b in seen if b == start or b not in avoid}

    def returns(self):
        return [i for i in range(self.n)
                if self.term(i)["k"] == "return" and not self.blocks[i]["cleanup"]]

    # ------------------------------------------------------------ dominators
    def idom(self):
        if self._idom is not None:
            return self._idom
        # iterative algorithm (Cooper/Harvey/Kennedy) on reverse post order
        order = []
        seen = set()

        def dfs(s):
            stack = [(s, iter(self._succ[s]))]
            seen.add(s)
            while stack:
                node, it = stack[-1]
                adv = False
                for nx in it:
                    if nx not in seen:
                        seen.add(nx)
                        stack.append((nx, iter(self._succ[nx])))
                        adv = True
                        break
                if not adv:
                    order.append(node)
                    stack.pop()

        dfs(0)
        rpo = list(reversed(order))
        idx = {b: i for i, b in enumerate(rpo)}
        idom = {0: 0}
        changed = True
        while changed:
            changed = False
            for b in rpo[1:]:
                new = None
                for p in self.pred(b):
                    if p in idom:
                        if new is None:
                            new = p
                        else:
                            a, c = p, new
                            while a != c:
                                while idx[a] > idx[c]:
                                    a = idom[a]
                                while idx[c] > idx[a]:
                                    c = idom[c]
                            new = a
                if new is not None and idom.get(b) != new:
                    idom[b] = new
                    changed = True
        self._idom = idom
        return idom

    def dominates(self, a, b):
        """a dominates b (reflexive). Unreachable b: True (vacuous)."""
        idom = self.idom()
        if b not in idom:
            return True
        while True:
            if a == b:
                return True
            if b == 0:
                return False
            b = idom[b]

    def edge_dominates(self, edge, b):
        """Every path from entry to b takes edge (a, t)."""
        return b not in self.reachable(0, avoid_edges=[edge])

    def must_pass(self, targets, exits, start=0):
        """Every path start -> any of `exits` contains a block in `targets`.
        Returns list of exits reachable while avoiding targets (empty == holds)."""
        targets = set(targets)
        if start in targets:
            return []
        r = self.reachable(start, avoid=targets)
        return [e for e in exits if e in r and e not in targets]

    def path(self, start, goal, avoid=()):
        """One witness path start -> goal avoiding blocks (BFS)."""
        avoid = set(avoid)
        prev = {start: None}
        work = [start]
        while work:
            nxt = []
            for a in work:
                if a == goal:
                    out = []
                    while a is not None:
                        out.append(a)
                        a = prev[a]
                    return list(reversed(out))
                for b in self._succ[a]:
                    if b in prev or b in avoid:
                        continue
                    prev[b] = a
                    nxt.append(b)
            work = nxt
        return None

    def back_edges(self):
        return [(a, b) for a in range(self.n) for b in self._succ[a]
                if a in self.idom() and self.dominates(b, a)]

    def loops(self):
        """Natural loops: {header: set(blocks)}."""
        out = {}
        for a, h in self.back_edges():
            body = {h, a}
            work = [a]
            while work:
                x = work.pop()
                if x == h:
                    continue
                for p in self.pred(x):
                    if p not in body and p in self.idom():
                        body.add(p)
                        work.append(p)
            out.setdefault(h, set()).update(body)
        return out

    def in_loop(self, bb):
        return any(bb in blocks for blocks in self.loops().values())

    # ------------------------------------------------------------ defs / uses
    def assignments(self):
        """Yield (bb, idx, place, rvalue, stmt) for every Assign statement (non-cleanup)."""
        for i, b in enumerate(self.blocks):
            if b["cleanup"]:
                continue
            for j, s in enumerate(b["stmts"]):
                if s["k"] == "assign":
                    yield i, j, s["place"], s["rv"], s

    def local_ty(self, l):
        return self.locals[l]["ty"]

    def local_name(self, l):
        return self.locals[l]["name"]

    def calls_named(self, *suffixes):
        out = []
        for c in self.calls:
            n = c.name or ""
            cal = c.callee or ""
            for s in suffixes:
                if n == s or n.endswith("::" + s) or cal == s or cal.endswith("::" + s):
                    out.append(c)
                    break
        return out


class Crate:
    def __init__(self, path):
        # items of the pinned tree that were renamed or moved get their pinned names back (lib/rename.py)
        from lib import rename as _rn
        with open(path) as f:
            self.raw, self.rename_report = _rn.normalize(f.read())
        self.kind = self.raw["kind"]
        self.fninfo = {f["path"]: f for f in self.raw["fns"]}
        # raw_bodies: the functions as written; bodies: the view the rules analyse, in which calls of local functions
        # the rules do not know (not in sa/tables/known_functions.txt) are inlined (lib/inline.py)
        self.raw_bodies = {}
        for name, raw in self.raw["mir"].items():
            self.raw_bodies[name] = Body(name, raw, self.fninfo.get(name))
        self.bodies = self.raw_bodies
        self.inline_report = {"enabled": False}
        if os.environ.get("JAWK_SA_NO_INLINE") != "1":
            from lib import inline
            mir2, rep = inline.inline_unknown(self.raw)
            self.inline_report = rep
            if rep.get("inlined"):
                self.bodies = {}
                for name, raw in mir2.items():
                    self.bodies[name] = self.raw_bodies[name] if name not in rep["inlined"] else \
                        Body(name, raw, self.fninfo.get(name))
                # a new function whose code is analysed inside the functions it was inlined into is not a body of
                # its own in this view (census rules would otherwise see its code twice, under a name they do not know)
                for name in list(self.bodies):
                    rs = self.roots_of(name)
                    if rs and rs != {name}:
                        del self.bodies[name]
        self.adts = {a["path"]: a for a in self.raw["adts"]}
        self.impls = self.raw["impls"]
        self._link()
        # options the rules do not know (new fields of the clap argument structs) are taken at their defaults
        self.specialized = {}
        if os.environ.get("JAWK_SA_NO_SPECIALIZE") != "1":
            from lib import specialize as _sp
            defaults = _sp.new_option_defaults(self)
            if defaults:
                if self.bodies is self.raw_bodies:
                    self.bodies = dict(self.raw_bodies)
                for name in list(self.bodies):
                    b = self.bodies[name]
                    env = _sp.seed_env(self, b, defaults)
                    if not env:
                        continue
                    nb = _sp.specialize(Body, self, name, b, env)
                    if nb is not None:
                        self.bodies[name] = nb
                        self.specialized[name] = sorted(env)
                self._link()
        self.statics = self.raw["statics"]
        self.aliases = {a["path"]: a["ty"] for a in self.raw["aliases"]}
        self.traits = {t["path"]: t for t in self.raw["traits"]}
        self.impls = self.raw["impls"]
        self.fmt = self.raw["fmt"]
        self.binlits = self.raw["binlits"]

    def _link(self):
        for b in self.raw_bodies.values():
            b.crate = self
        for b in self.bodies.values():
            b.crate = self

    def roots_of(self, name):
        """The functions known to the rules through which the code of `name` is analysed: {name} for a known function;
        for a function that is new to the rules, the known functions it was inlined into (transitively). Empty when
        a new function is never called by a statically resolved call (it is then analysed nowhere else)."""
        inl = self.inline_report.get("inlined") or {}
        unknown = set(self.inline_report.get("unknown") or [])
        if name not in unknown:
            return {name}
        roots = set()
        seen = set()
        work = [name]
        while work:
            x = work.pop()
            if x in seen:
                continue
            seen.add(x)
            for caller, callees in inl.items():
                if x in callees:
                    if caller in unknown:
                        work.append(caller)
                    else:
                        roots.add(caller)
        return roots

    def raw_view(self):
        """The same crate with `bodies` = the functions as written (no inlining): for the census rules whose instance
        keys are body names and whose arguments are local to a function and its callers."""
        if self.bodies is self.raw_bodies:
            return self
        v = getattr(self, "_raw_view", None)
        if v is None:
            import copy as _copy
            v = _copy.copy(self)
            v.bodies = self.raw_bodies
            v._raw_view = v
            self._raw_view = v
        return v

    def body(self, name):
        return self.bodies.get(name)

    def find_bodies(self, suffix):
        return [b for n, b in self.bodies.items() if n == suffix or n.endswith("::" + suffix)]

    def impls_of(self, trait):
        return [i for i in self.impls if i.get("trait") == trait]

    def impl_method_bodies(self, trait, method):
        """Bodies of `method` in every local impl of `trait`."""
        out = []
        for i in self.impls_of(trait):
            for it in i["items"]:
                if it.endswith("::" + method) and it in self.bodies:
                    out.append(self.bodies[it])
        return out

    def fn_at(self, file, line):
        """Innermost fn/closure whose body spans file:line."""
        best = None
        for f in self.raw["fns"]:
            if f.get("body_file") == file and f["body_line"] <= line <= f["body_eline"]:
                if best is None or (f["body_eline"] - f["body_line"]) < (best["body_eline"] - best["body_line"]):
                    best = f
        return best["path"] if best else None

    def fmt_in(self, fn_path):
        """format_args sites whose macro call site lies inside fn_path's body (innermost match)."""
        return [s for s in self.fmt if self.fn_at(s["loc"]["file"], s["loc"]["line"]) == fn_path]

"""A5: guard-partition analysis by partial evaluation of a MIR body.

Given a body and a *seed* (a concrete value for one call's result, or for a
parameter), explore the CFG, following only the out-edges of SwitchInt /
Assert terminators that are consistent with what is known. Everything not
derived from the seed or from constants is Unknown and both edges are taken.
This is conditional constant propagation, path-sensitive (no joins): states
are (block, known-environment) pairs, memoised, so loops terminate.

It is used to compute, for a finite domain (all 256 byte values + None; the
finitely many regions a function's own float constants cut the real line
into), which blocks / calls / aggregates are reachable for each element, i.e.
the decision table the code implements. Nothing of /repo is executed: only
the guards that depend on the seed are decided.

Values:  ("i", int) | ("b", bool) | ("f", float) | ("adt", variant, fields)
         | ("ref", local, proj) | None (Unknown)
"""
import math
import re as _re

_INT_IMPL = _re.compile(r"^(?:core|std)::num::<impl (u8|u16|u32|u64|u128|usize|i8|i16|i32|i64|i128|isize)>::")


def _int_range(ity):
    bits = {"usize": 64, "isize": 64}.get(ity) or int(ity[1:])
    if ity[0] == "u":
        return 0, (1 << bits) - 1
    return -(1 << (bits - 1)), (1 << (bits - 1)) - 1

import re
import struct

UNK = None

ASCII_WS = {0x09, 0x0A, 0x0C, 0x0D, 0x20}


def _unit():
    return ("adt", 0, ())


def _rust_str(s):
    """Decode the rendering of a &str constant ("..." with Rust escapes); None if it is not one."""
    if s is None or len(s) < 2 or s[0] != '"' or s[-1] != '"':
        return None
    s = s[1:-1]
    out = []
    i = 0
    simple = {"n": "\n", "r": "\r", "t": "\t", "0": "\0", "\\": "\\", '"': '"', "'": "'"}
    while i < len(s):
        ch = s[i]
        if ch != "\\":
            out.append(ch)
            i += 1
            continue
        i += 1
        if i >= len(s):
            return None
        e = s[i]
        i += 1
        if e in simple:
            out.append(simple[e])
        elif e == "x":
            out.append(chr(int(s[i:i + 2], 16)))
            i += 2
        elif e == "u":
            j = s.index("}", i)
            out.append(chr(int(s[i + 1:j], 16)))
            i = j + 1
        else:
            return None
    return "".join(out)


def _const_array(text):
    """Elements of a constant array as rustc prints it: `*b"..."` / `b"..."` for bytes, `[1_u8, 2_u8]` otherwise."""
    t = text.strip()
    if t.startswith("const "):
        t = t[6:].strip()
    t = t.lstrip("&*")
    if t.startswith('b"') and t.endswith('"'):
        v = _rust_str(t[1:])
        return tuple(("i", ord(ch)) for ch in v) if v is not None else None
    if t.startswith("[") and t.endswith("]"):
        out = []
        for part in t[1:-1].split(","):
            part = part.strip()
            if not part:
                continue
            m = re.match(r"^(-?\d+)(_[iu]\d+|_usize|_isize)?$", part)
            if m:
                out.append(("i", int(m.group(1))))
                continue
            m = re.match(r"^'(.)'$", part)
            if m:
                out.append(("i", ord(m.group(1))))
                continue
            return None
        return tuple(out)
    return None


def some(v):
    return ("adt", 1, (v,))


NONE = ("adt", 0, ())


def ok(v):
    return ("adt", 0, (v,))


def err(v):
    return ("adt", 1, (v,))


def byte(n):
    return ("i", n)


_INT_BITS = {"u8": 8, "u16": 16, "u32": 32, "u64": 64, "u128": 128, "usize": 64,
             "i8": 8, "i16": 16, "i32": 32, "i64": 64, "i128": 128, "isize": 64, "char": 32}


def _wrap(n, ty):
    bits = _INT_BITS.get(ty)
    if bits is None:
        return n
    if ty.startswith("i"):
        n &= (1 << bits) - 1
        if n >= 1 << (bits - 1):
            n -= 1 << bits
        return n
    return n & ((1 << bits) - 1)


def _float_to_int(x, ty):
    """Rust `as` semantics: saturating, NaN -> 0."""
    bits = _INT_BITS.get(ty, 64)
    if ty.startswith("i"):
        lo, hi = -(1 << (bits - 1)), (1 << (bits - 1)) - 1
    else:
        lo, hi = 0, (1 << bits) - 1
    if x != x:
        return 0
    if x == math.inf:
        return hi
    if x == -math.inf:
        return lo
    n = int(x)  # truncates toward zero
    return max(lo, min(hi, n))


class Result:
    def __init__(self):
        self.visited = set()
        self.edges = set()
        self.calls = []      # (bb, Call, argvals)
        self.aggs = []       # (bb, idx, rvalue, opvals)
        self.returns = []    # (bb, value of _0)
        self.panics = set()  # blocks whose assert definitely fails / diverging calls
        self.assigns = {}    # (bb, idx) -> set of values assigned there (None = unknown)
        self.states = 0
        self.forks = []      # blocks where a switch on an unknown value sent the exploration down >1 edge
        self.assert_unknown = set()   # assert blocks whose condition was not decided on some visit

    def callees(self):
        return {c.name for _, c, _ in self.calls}

    def calls_to(self, *suffixes):
        out = []
        for bb, c, av in self.calls:
            n = c.name or ""
            cal = c.callee or ""
            if any(n.endswith(s) or cal.endswith(s) for s in suffixes):
                out.append((bb, c, av))
        return out


class PE:
    def __init__(self, body, call_model=None, max_states=200000, eq_ok=None, inline=None, crate=None):
        # inline: set of local callee def paths to evaluate with known arguments (needs crate)
        self.inline = inline or set()
        self.crate = crate if crate is not None else getattr(body, "crate", None)
        self.body = body
        self.call_model = call_model
        self.max_states = max_states
        # predicate(Call) -> structural equality is a valid model of this PartialEq call
        self.eq_ok = eq_ok
        # optional observer: visit_hook(bb, env, first) -> "stop" to cut the exploration at this state
        self.visit_hook = None
        self.alias_mut_reborrow = True
        # evaluate closure bodies (Option::map, Ordering::then_with ...) with the same call model; only for models that
        # identify call sites by (body, block), never by block number alone
        self.model_in_closures = False

    # ------------------------------------------------------------ env access
    def read_place(self, env, place):
        return self._read(env, place["l"], list(place["p"]))

    def _read(self, env, l, proj, depth=0):
        v = env.get(l)
        for i, p in enumerate(proj):
            if v is None:
                return UNK
            if p == "deref":
                if v[0] == "ref" and depth < 8:
                    return self._read(env, v[1], list(v[2]) + proj[i + 1:], depth + 1)
                if v[0] == "rv":
                    v = v[1]
                    continue
                return UNK
            if p.startswith("dc"):
                if v[0] != "adt":
                    return UNK
                want = int(p[2:].split(":")[0])
                if v[1] != want:
                    return UNK
                continue
            if p.startswith("f") and p[1:].isdigit():
                if v[0] != "adt":
                    return UNK
                k = int(p[1:])
                if k >= len(v[2]):
                    return UNK
                v = v[2][k]
                continue
            return UNK
        return v

    def _write(self, env, place, val):
        l, proj = place["l"], list(place["p"])
        if not proj:
            if val is None:
                env.pop(l, None)
            else:
                env[l] = val
            return
        if proj[0] == "deref":
            v = env.get(l)
            if v is not None and v[0] == "ref":
                self._write(env, {"l": v[1], "p": list(v[2]) + proj[1:]}, val)
            elif v is not None and v[0] == "rv":
                # a seeded pointee (e.g. *self): update the private copy
                tmp = {-1: v[1]}
                self._write(tmp, {"l": -1, "p": proj[1:]}, val)
                if tmp.get(-1) is None:
                    env.pop(l, None)
                else:
                    env[l] = ("rv", tmp[-1])
            return
        # field write into a tracked aggregate: update that field when the path is known
        cur = env.get(l)

        def upd(v, pr):
            if not pr:
                return val
            if v is None or v[0] != "adt":
                return UNK
            p0 = pr[0]
            if p0.startswith("dc"):
                want = int(p0[2:].split(":")[0])
                return upd(v, pr[1:]) if v[1] == want else UNK
            if p0.startswith("f") and p0[1:].isdigit():
                k = int(p0[1:])
                if k < len(v[2]):
                    fields = list(v[2])
                    fields[k] = upd(fields[k], pr[1:])
                    return ("adt", v[1], tuple(fields))
            return UNK
        nv = upd(cur, proj)
        if nv is None:
            env.pop(l, None)
        else:
            env[l] = nv

    def _forget(self, env, l, proj, depth=0):
        """Forget what is known about place l.proj (something may have written through a &mut)."""
        v = env.get(l)
        if v is None:
            return
        if not proj:
            env.pop(l, None)
            return
        if proj[0] == "deref":
            if v[0] == "ref" and depth < 8:
                self._forget(env, v[1], list(v[2]) + proj[1:], depth + 1)
            return

        def drop(val, pr):
            if val is None or not pr:
                return UNK
            p0 = pr[0]
            if p0.startswith("dc"):
                return drop(val, pr[1:])
            if p0.startswith("f") and p0[1:].isdigit() and val[0] == "adt":
                k = int(p0[1:])
                if k < len(val[2]):
                    fields = list(val[2])
                    fields[k] = drop(fields[k], pr[1:])
                    return ("adt", val[1], tuple(fields))
            return UNK

        nv = drop(v, proj)
        if nv is None:
            env.pop(l, None)
        else:
            env[l] = nv

    def operand(self, env, o):
        k = o["k"]
        if k in ("copy", "move"):
            return self.read_place(env, o["place"])
        if k == "const":
            ty = o["ty"]
            if "promoted" in o:
                return self._promoted(o["promoted"])
            if ty == "bool" and "bits" in o:
                return ("b", bool(o["bits"]))
            if ty in ("f64", "f32") and "bits" in o:
                if ty == "f64":
                    return ("f", struct.unpack("<d", struct.pack("<Q", o["bits"]))[0])
                return ("f", struct.unpack("<f", struct.pack("<I", o["bits"]))[0])
            if "int" in o:
                return ("i", o["int"])
            if ty == "()":
                return _unit()
            if o.get("fn"):
                return ("fn", o["fn"])
            if re.match(r"^&?\[(u8|i8|u16|u32|u64|usize|char); \d+\]$", ty) and isinstance(o.get("s"), str):
                arr = _const_array(o["s"])
                if arr is not None:
                    return ("arr", arr)
            if self.crate is not None and isinstance(o.get("s"), str) and ty.split("<")[0] in self.crate.adts:
                v = self._const_adt(o["s"].replace("{{", "{").replace("}}", "}"))
                if v is not None:
                    return v
            if ty in ("&str", "&'static str") and isinstance(o.get("s"), str):
                t = o["s"]
                if t.startswith("const "):
                    t = t[6:]
                v = _rust_str(t)
                if v is not None:
                    return ("s", v)
            return UNK
        return UNK

    def _const_adt(self, text):
        """Value of a struct / enum constant printed by the driver as `path::Type { field: value, .. }`,
        `path::Enum::Variant`, `true`, `42_u8` ... (fields of other shapes stay unknown)."""
        text = text.strip()
        if text in ("true", "false"):
            return ("b", text == "true")
        m = re.match(r"^(-?\d+)(_[iu](8|16|32|64|128|size))?$", text)
        if m:
            return ("i", int(m.group(1)))
        m = re.match(r"^([\w:]+)\s*\{(.*)\}$", text, re.S)
        adts = self.crate.adts
        if m and m.group(1) in adts and len(adts[m.group(1)]["variants"]) == 1:
            fields = adts[m.group(1)]["variants"][0]["fields"]
            vals = [None] * len(fields)
            depth = 0
            cur = ""
            parts = []
            for ch in m.group(2):
                if ch in "{([":
                    depth += 1
                elif ch in "})]":
                    depth -= 1
                if ch == "," and depth == 0:
                    parts.append(cur)
                    cur = ""
                else:
                    cur += ch
            if cur.strip():
                parts.append(cur)
            for part in parts:
                if ":" not in part:
                    return None
                fname, fval = part.split(":", 1)
                fname = fname.strip()
                idx = [i for i, f in enumerate(fields) if f["name"] == fname]
                if not idx:
                    return None
                vals[idx[0]] = self._const_adt(fval)
            return ("adt", 0, tuple(vals))
        if re.match(r"^[\w:]+$", text) and "::" in text:
            owner, vname = text.rsplit("::", 1)
            if owner in adts:
                for i, vv in enumerate(adts[owner]["variants"]):
                    if vv["name"] == vname and not vv["fields"]:
                        return ("adt", i, ())
        return None

    # ------------------------------------------------------------ rvalues
    def rvalue(self, env, rv, dest_ty):
        k = rv["k"]
        if k == "use":
            return self.operand(env, rv["op"])
        if k in ("ref", "rawptr"):
            p = rv["place"]
            # reborrow `&*x` of a known ref: alias the same target
            if p["p"] and p["p"][0] == "deref":
                v = env.get(p["l"])
                if v is not None and v[0] == "ref":
                    return ("ref", v[1], tuple(list(v[2]) + list(p["p"][1:])))
                if v is not None and v[0] == "rv":
                    if rv.get("mutbl") and self.alias_mut_reborrow:
                        # `&mut *p` / `&mut (*p).f` of a seeded pointee: a real alias of the slot the pointee lives
                        # in, so that writes through the reborrow (an inlined `&mut self` helper) are seen through p
                        return ("ref", p["l"], tuple(p["p"]))
                    inner = self._read({-1: v[1]}, -1, list(p["p"][1:]))
                    return ("rv", inner) if inner is not None else UNK
                if v is not None and v[0] == "s" and len(p["p"]) == 1:
                    return v          # `&*s` of a string constant is the same string
                return UNK
            return ("ref", p["l"], tuple(p["p"]))
        if k == "cast":
            v = self.operand(env, rv["op"])
            if v is None:
                return UNK
            c = rv["cast"]
            ty = rv["ty"]
            if c == "IntToInt" and v[0] in ("i", "b"):
                n = int(v[1])
                return ("i", _wrap(n, ty))
            if c == "IntToFloat" and v[0] == "i":
                return ("f", float(v[1]))
            if c == "FloatToInt" and v[0] == "f":
                return ("i", _float_to_int(v[1], ty))
            if c == "FloatToFloat" and v[0] == "f":
                return v
            if c.startswith("PointerCoercion"):
                return v      # unsizing / reborrow coercions do not change what is pointed to
            return UNK
        if k == "binop":
            a = self.operand(env, rv["a"])
            b = self.operand(env, rv["b"])
            return self._binop(rv["op"], a, b, dest_ty)
        if k == "unop":
            a = self.operand(env, rv["a"])
            if a is None:
                return UNK
            if rv["op"] == "PtrMetadata":
                x = self._deref_all(env, a)
                if x is not None and x[0] == "arr":
                    return ("i", len(x[1]))       # the length of a slice
                return UNK
            if rv["op"] == "Not":
                if a[0] == "b":
                    return ("b", not a[1])
                if a[0] == "i":
                    return ("i", _wrap(~a[1], dest_ty))
            if rv["op"] == "Neg":
                if a[0] == "f":
                    return ("f", -a[1])
                if a[0] == "i":
                    return ("i", _wrap(-a[1], dest_ty))
            return UNK
        if k == "discr":
            v = self.read_place(env, rv["place"])
            if v is not None and v[0] == "adt":
                if rv["place"].get("ty") == "std::cmp::Ordering":
                    return ("i", (v[1] - 1) & 0xFF)   # Less=-1, Equal=0, Greater=1 (i8 bit pattern)
                return ("i", v[1])
            return UNK
        if k == "agg":
            vals = tuple(self.operand(env, o) for o in rv["ops"])
            if rv["agg"] == "adt":
                return ("adt", rv["variant"], vals)
            if rv["agg"] == "tuple":
                return ("adt", 0, vals)
            if rv["agg"] == "closure" and rv.get("closure"):
                return ("clo", rv["closure"], vals)
            return UNK
        return UNK

    def _binop(self, op, a, b, dest_ty):
        if a is None or b is None:
            return UNK
        if a[0] in ("i", "b", "f") and b[0] in ("i", "b", "f"):
            x, y = a[1], b[1]
            cmpops = {"Eq": lambda: x == y, "Ne": lambda: x != y, "Lt": lambda: x < y,
                      "Le": lambda: x <= y, "Gt": lambda: x > y, "Ge": lambda: x >= y}
            if op in cmpops:
                return ("b", bool(cmpops[op]()))
            if a[0] == "f" or b[0] == "f":
                try:
                    if op == "Add":
                        return ("f", x + y)
                    if op == "Sub":
                        return ("f", x - y)
                    if op == "Mul":
                        return ("f", x * y)
                    if op == "Div":
                        return ("f", x / y) if y != 0 else UNK
                except OverflowError:
                    return UNK
                return UNK
            x, y = int(x), int(y)
            base = op.replace("WithOverflow", "").replace("Unchecked", "")
            r = None
            if base == "Add":
                r = x + y
            elif base == "Sub":
                r = x - y
            elif base == "Mul":
                r = x * y
            elif base == "BitOr":
                r = x | y
            elif base == "BitAnd":
                r = x & y
            elif base == "BitXor":
                r = x ^ y
            elif base == "Shl" and 0 <= y < 128:
                r = x << y
            elif base == "Shr" and 0 <= y < 128:
                r = x >> y
            if r is None:
                return UNK
            if op.endswith("WithOverflow"):
                # dest type is a tuple "(T, bool)"
                t = dest_ty.strip("()").split(",")[0].strip()
                w = _wrap(r, t)
                return ("adt", 0, (("i", w), ("b", w != r)))
            if a[0] == "b" and b[0] == "b" and base in ("BitOr", "BitAnd", "BitXor"):
                return ("b", bool(r))
            return ("i", _wrap(r, dest_ty))
        return UNK

    # ------------------------------------------------------------ builtin call models
    def _deref_all(self, env, v, depth=0):
        while v is not None and v[0] in ("ref", "rv") and depth < 8:
            if v[0] == "rv":
                v = v[1]
            else:
                v = self._read(env, v[1], list(v[2]))
            depth += 1
        return v

    def _promoted(self, idx):
        """Value of a promoted constant: evaluate its (straight-line) body; a
        reference result becomes ("rv", value) - a reference to a known constant."""
        cache = self.__dict__.setdefault("_promoted_cache", {})
        if idx in cache:
            return cache[idx]
        cache[idx] = UNK
        raw = self.body.raw.get("promoted", [])
        if idx >= len(raw):
            return UNK
        from .facts import Body
        pb = Body(self.body.name + "::promoted[%d]" % idx, raw[idx], None)
        sub = PE(pb, None, max_states=2000, eq_ok=self.eq_ok, crate=self.crate)
        envs = []
        orig_run = sub.run

        res = Result()
        # straight-line evaluation keeping the final environment
        env = {}
        bb = 0
        steps = 0
        while steps < 64:
            steps += 1
            blk = pb.blocks[bb]
            for st in blk["stmts"]:
                if st["k"] == "assign":
                    sub._write(env, st["place"], sub.rvalue(env, st["rv"], st["place"].get("ty", "")))
            t = blk["term"]
            if t["k"] == "goto":
                bb = t["t"]
                continue
            if t["k"] == "call" and t.get("t") is not None and bb in pb.call_at:
                # constructor calls in promoted constants (RangeInclusive::new(' ', '~') ...)
                c = pb.call_at[bb]
                argvals = tuple(sub.operand(env, a) for a in c.args)
                sub._write(env, c.dest, sub.builtin(env, c, argvals))
                bb = t["t"]
                continue
            break
        v = env.get(0)
        if v is not None and v[0] == "ref":
            inner = sub._read(env, v[1], list(v[2]))
            v = ("rv", inner) if inner is not None else UNK
        cache[idx] = v
        return v

    def builtin(self, env, c, argvals):
        n = c.name or ""
        cal = c.callee or ""
        full = c.full or ""

        def a(i):
            return self._deref_all(env, argvals[i]) if i < len(argvals) else UNK

        if self.crate is not None and c.resolved in self.inline:
            cb = self.crate.bodies.get(c.resolved)
            if cb is not None:
                env2 = {}
                for i, v in enumerate(argvals):
                    if v is not None:
                        # references into the caller's frame: pass the pointee as a constant reference
                        if v[0] == "ref":
                            inner = self._read(env, v[1], list(v[2]))
                            v = ("rv", inner) if inner is not None else None
                        if v is not None:
                            env2[i + 1] = v
                depth = getattr(self, "_inline_depth", 0)
                if depth > 6:
                    return UNK
                sub = PE(cb, self.call_model if self.model_in_closures else None, max_states=20000,
                         eq_ok=self.eq_ok, inline=self.inline, crate=self.crate)
                sub.model_in_closures = self.model_in_closures
                sub._inline_depth = depth + 1
                try:
                    rr = sub.run(env=env2)
                except RuntimeError:
                    return UNK
                if self.model_in_closures and not rr.returns and not rr.panics and rr.states > 0:
                    return ("never",)      # the callee cannot return under this model: the path ends here
                vals = {v for _, v in rr.returns}
                if len(vals) == 1:
                    v = vals.pop()
                    if v is not None and v[0] != "ref":
                        return v
            return UNK
        if cal in ("std::ops::FnOnce::call_once", "std::ops::FnMut::call_mut", "std::ops::Fn::call") \
                and len(argvals) == 2:
            tup = a(1)
            fv = a(0)
            if tup is not None and tup[0] == "adt" and fv is not None and fv[0] in ("clo", "fn"):
                return self._apply(env, fv, list(tup[2]))
            return UNK
        if n.endswith("slice::<impl [T]>::contains") and len(argvals) >= 2:
            arr, x = a(0), a(1)
            if arr is not None and arr[0] == "arr" and x is not None and x[0] == "i":
                return ("b", any(e == x for e in arr[1]))
            return UNK
        if n.endswith("slice::<impl [T]>::len") and argvals:
            arr = a(0)
            if arr is not None and arr[0] == "arr":
                return ("i", len(arr[1]))
        if argvals and (n.startswith(("std::vec::Vec::<T, A>::", "alloc::vec::Vec::<T, A>::",
                                      "std::collections::VecDeque::<T, A>::")) or
                        "slice::<impl [T]>::" in n):
            arr = a(0)
            if arr is not None and arr[0] == "arr":
                t_ = n.rsplit("::", 1)[-1]
                if t_ == "len":
                    return ("i", len(arr[1]))
                if t_ == "is_empty":
                    return ("b", len(arr[1]) == 0)
                if t_ in ("as_slice", "as_mut_slice"):
                    return ("rv", arr)
                if t_ in ("first", "last") and len(arr[1]) == 0:
                    return NONE
        if n.endswith("char::methods::<impl char>::from_u32") or n.endswith("char::from_u32") or \
                n.endswith("<impl char>::from_u32"):
            v = a(0)
            if v is not None and v[0] == "i":
                ok_scalar = 0 <= v[1] <= 0x10FFFF and not (0xD800 <= v[1] <= 0xDFFF)
                return ("adt", 1, (("i", v[1]),)) if ok_scalar else ("adt", 0, ())
            return UNK
        # ---- strings held as ("s", text): String and &str alike (ASCII text only for byte-indexed operations)
        v0 = a(0) if argvals else None
        if v0 is not None and v0[0] == "s":
            t0 = v0[1]
            tail0 = n.rsplit("::", 1)[-1]
            is_str_fn = "<impl str>::" in n or n.startswith("std::string::String::") or "alloc::string::String::" in n
            ident = ("to_string", "to_owned", "as_str", "clone", "deref", "as_ref", "borrow", "into", "from",
                     "as_mut_str", "into_boxed_str", "as_bytes") 
            if tail0 in ident and (is_str_fn or cal in ("std::string::ToString::to_string", "std::borrow::ToOwned::to_owned",
                                                        "std::clone::Clone::clone", "std::ops::Deref::deref",
                                                        "std::convert::AsRef::as_ref", "std::borrow::Borrow::borrow",
                                                        "std::convert::Into::into", "std::convert::From::from")):
                if tail0 != "as_bytes" and c.dest.get("ty", "").replace("&", "").replace("'static ", "").strip() in (
                        "str", "std::string::String"):
                    return v0
            if is_str_fn:
                pat = a(1) if len(argvals) > 1 else None
                ptxt = None
                if pat is not None and pat[0] == "s":
                    ptxt = pat[1]
                elif pat is not None and pat[0] == "i" and len(c.args) > 1 and c.args[1].get("ty") == "char" or \
                        (pat is not None and pat[0] == "i" and "char" in " ".join(c.gargs or [])):
                    try:
                        ptxt = chr(pat[1])
                    except (ValueError, OverflowError):
                        ptxt = None
                if tail0 == "is_empty":
                    return ("b", t0 == "")
                if tail0 == "len" and all(ord(ch) < 128 for ch in t0):
                    return ("i", len(t0))
                if ptxt is not None:
                    if tail0 == "starts_with":
                        return ("b", t0.startswith(ptxt))
                    if tail0 == "ends_with":
                        return ("b", t0.endswith(ptxt))
                    if tail0 == "strip_prefix":
                        return ("adt", 1, (("s", t0[len(ptxt):]),)) if t0.startswith(ptxt) else ("adt", 0, ())
                    if tail0 == "strip_suffix":
                        return ("adt", 1, (("s", t0[:len(t0) - len(ptxt)]),)) if t0.endswith(ptxt) and ptxt else ("adt", 0, ())
                    if tail0 == "contains":
                        return ("b", ptxt in t0)
            if cal in ("std::ops::Index::index",) and all(ord(ch) < 128 for ch in t0) and len(argvals) > 1:
                rng = a(1)
                gar = " ".join(c.gargs or []) + " " + full
                if rng is not None and rng[0] == "adt" and all(x is not None and x[0] == "i" for x in rng[2]):
                    xs = [x[1] for x in rng[2]]
                    if "RangeFrom" in gar and len(xs) == 1 and 0 <= xs[0] <= len(t0):
                        return ("s", t0[xs[0]:])
                    if "RangeTo<" in gar and len(xs) == 1 and 0 <= xs[0] <= len(t0):
                        return ("s", t0[:xs[0]])
                    if "ops::Range<" in gar and len(xs) == 2 and 0 <= xs[0] <= xs[1] <= len(t0):
                        return ("s", t0[xs[0]:xs[1]])
        if cal in ("std::convert::From::from", "std::convert::Into::into"):
            v = a(0)
            dty = c.dest.get("ty", "")
            if v is not None and v[0] in ("i", "b") and dty in _INT_BITS:
                return ("i", _wrap(int(v[1]), dty))
            if v is not None and v[0] == "i" and dty in ("f64", "f32"):
                return ("f", float(v[1]))
            if v is not None and v[0] == "i" and dty == "char" and 0 <= v[1] <= 0xFF:
                return ("i", v[1])          # char::from(u8)
            return UNK
        if cal == "std::cmp::Ord::cmp":
            x, y = a(0), a(1)
            if x is not None and y is not None and x[0] in ("i", "b") and y[0] in ("i", "b"):
                return ("adt", 0 if x[1] < y[1] else (1 if x[1] == y[1] else 2), ())
            return UNK
        if cal == "std::ops::FromResidual::from_residual":
            full0 = c.t.get("callee_full") or ""
            if full0.startswith("<std::result::Result<"):
                return ("adt", 1, (UNK,))
            if full0.startswith("<std::option::Option<"):
                return NONE
            return UNK
        if cal == "std::ops::Try::branch":
            v = a(0)
            if v is None or v[0] != "adt":
                return UNK
            if "std::result::Result<" in (c.t.get("callee_full") or ""):
                if v[1] == 0:
                    return ("adt", 0, (v[2][0] if v[2] else UNK,))
                return ("adt", 1, (("adt", 1, v[2]),))
            if "std::option::Option<" in (c.t.get("callee_full") or ""):
                if v[1] == 1:
                    return ("adt", 0, (v[2][0] if v[2] else UNK,))
                return ("adt", 1, (NONE,))
            return UNK
        tail = n.rsplit("::", 1)[-1]
        m_int = _INT_IMPL.match(n)
        if m_int:
            ity = m_int.group(1)
            lo, hi = _int_range(ity)
            v, w = a(0), a(1)
            x = v[1] if (v is not None and v[0] == "i") else None
            two = x is not None and w is not None and w[0] == "i"
            y = w[1] if two else None
            opn = {"add": lambda: x + y, "sub": lambda: x - y, "mul": lambda: x * y}
            for pre in ("saturating_", "checked_", "wrapping_"):
                if tail.startswith(pre) and tail[len(pre):] in opn:
                    if not two:
                        return UNK
                    rr = opn[tail[len(pre):]]()
                    if pre == "saturating_":
                        return ("i", min(max(rr, lo), hi))
                    if pre == "checked_":
                        return some(("i", rr)) if lo <= rr <= hi else NONE
                    return ("i", (rr - lo) % (hi - lo + 1) + lo)
            if tail in ("min", "max") and two:
                return ("i", min(x, y) if tail == "min" else max(x, y))
            if tail == "abs_diff" and two:
                return ("i", abs(x - y))
            if tail == "is_power_of_two" and x is not None:
                return ("b", x > 0 and x & (x - 1) == 0)
            if tail == "pow" and two and 0 <= y <= 64:
                rr = x ** y
                return ("i", rr) if lo <= rr <= hi else UNK
        if n.startswith(("core::num::<impl u8>::", "std::num::<impl u8>::", "core::char::methods::<impl char>::",
                         "std::char::methods::<impl char>::")):
            v = a(0)
            if v is None or v[0] != "i":
                return UNK
            x = v[1]
            if tail == "to_digit":
                w = a(1)
                if w is None or w[0] != "i" or not (2 <= w[1] <= 36):
                    return UNK
                dv = None
                if 0x30 <= x <= 0x39:
                    dv = x - 0x30
                elif 0x61 <= x <= 0x7A:
                    dv = x - 0x61 + 10
                elif 0x41 <= x <= 0x5A:
                    dv = x - 0x41 + 10
                return some(("i", dv)) if dv is not None and dv < w[1] else NONE
            if tail == "is_digit":
                w = a(1)
                if w is None or w[0] != "i" or not (2 <= w[1] <= 36):
                    return UNK
                dv = (x - 0x30) if 0x30 <= x <= 0x39 else (x - 0x61 + 10) if 0x61 <= x <= 0x7A else \
                    (x - 0x41 + 10) if 0x41 <= x <= 0x5A else None
                return ("b", dv is not None and dv < w[1])
            if tail == "is_ascii_whitespace":
                return ("b", x in ASCII_WS)
            if tail == "is_ascii_control":
                return ("b", x < 0x20 or x == 0x7F)
            if tail == "is_ascii_digit":
                return ("b", 0x30 <= x <= 0x39)
            if tail == "is_ascii_hexdigit":
                return ("b", chr(x) in "0123456789abcdefABCDEF" if x < 128 else False)
            if tail == "is_ascii_alphabetic":
                return ("b", x < 128 and chr(x).isalpha())
            if tail == "is_ascii_alphanumeric":
                return ("b", x < 128 and chr(x).isalnum())
            if tail == "is_ascii_punctuation":
                return ("b", x < 128 and (33 <= x <= 47 or 58 <= x <= 64 or 91 <= x <= 96 or 123 <= x <= 126))
            if tail == "is_ascii_graphic":
                return ("b", 33 <= x <= 126)
            if tail == "is_ascii":
                return ("b", x < 128)
            if tail == "is_ascii_lowercase":
                return ("b", 0x61 <= x <= 0x7A)
            if tail == "is_ascii_uppercase":
                return ("b", 0x41 <= x <= 0x5A)
            if tail == "to_ascii_lowercase":
                return ("i", x + 32 if 0x41 <= x <= 0x5A else x)
            if tail == "to_ascii_uppercase":
                return ("i", x - 32 if 0x61 <= x <= 0x7A else x)
            if tail == "is_control":
                return ("b", x < 0x20 or 0x7F <= x <= 0x9F)
            if tail == "is_whitespace":
                return ("b", x in (0x09, 0x0A, 0x0B, 0x0C, 0x0D, 0x20, 0x85, 0xA0, 0x1680, 0x2028, 0x2029,
                                   0x202F, 0x205F, 0x3000) or 0x2000 <= x <= 0x200A)
            return UNK
        if n.startswith("std::f64::<impl f64>::") or n.startswith("core::f64::<impl f64>::") \
                or n.startswith("core::f64::math::") or n.startswith("std::f64::"):
            v = a(0)
            if v is None or v[0] != "f":
                return UNK
            x = v[1]
            if tail == "fract":
                if x != x or x in (math.inf, -math.inf):
                    return ("f", math.nan)
                return ("f", math.copysign(abs(x) - math.floor(abs(x)), x))
            if tail == "is_finite":
                return ("b", math.isfinite(x))
            if tail == "is_nan":
                return ("b", x != x)
            if tail == "is_infinite":
                return ("b", x in (math.inf, -math.inf))
            if tail == "is_normal":
                return ("b", math.isfinite(x) and abs(x) >= 2.2250738585072014e-308)
            if tail == "is_subnormal":
                return ("b", x != 0.0 and math.isfinite(x) and abs(x) < 2.2250738585072014e-308)
            if tail == "abs":
                return ("f", abs(x))
            if tail == "trunc":
                return ("f", float(math.trunc(x))) if math.isfinite(x) else ("f", x)
            if tail == "floor":
                return ("f", float(math.floor(x))) if math.isfinite(x) else ("f", x)
            if tail == "ceil":
                return ("f", float(math.ceil(x))) if math.isfinite(x) else ("f", x)
            if tail == "is_sign_negative":
                return ("b", math.copysign(1.0, x) < 0)
            if tail == "is_sign_positive":
                return ("b", math.copysign(1.0, x) > 0)
            if tail == "to_bits":
                return ("i", struct.unpack("<Q", struct.pack("<d", x))[0])
            if tail == "total_cmp":
                y = a(1)
                if y is None or y[0] != "f":
                    return UNK
                def key(v):
                    bits = struct.unpack("<q", struct.pack("<d", v))[0]
                    return bits ^ (((bits >> 63) & 0xFFFFFFFFFFFFFFFF) >> 1) if bits < 0 else bits
                kx, ky = key(x), key(y[1])
                # std's total_cmp: flip the magnitude bits of negatives, then compare as signed integers
                def tk(v):
                    b = struct.unpack("<q", struct.pack("<d", v))[0]
                    if b < 0:
                        b ^= 0x7FFFFFFFFFFFFFFF
                    return b
                kx, ky = tk(x), tk(y[1])
                return ("adt", 0 if kx < ky else (1 if kx == ky else 2), ())
            return UNK
        if cal in ("std::cmp::PartialEq::eq", "std::cmp::PartialEq::ne"):
            if self.eq_ok is not None and not self.eq_ok(c):
                return UNK
            x, y = a(0), a(1)
            if x is None or y is None:
                return UNK
            if not self._fully_known(x) or not self._fully_known(y):
                # Some(known) vs None etc. may still be decidable by variant
                if x[0] == "adt" and y[0] == "adt" and x[1] != y[1]:
                    return ("b", cal.endswith("ne"))
                return UNK
            eq = x == y
            return ("b", eq if cal.endswith("eq") else not eq)
        if n.startswith("std::cmp::Ordering::") or n.startswith("core::cmp::Ordering::"):
            v = a(0)
            tail = n.rsplit("::", 1)[-1]
            if v is not None and v[0] == "adt" and v[1] in (0, 1, 2):
                sgn = v[1] - 1
                preds = {"is_eq": sgn == 0, "is_ne": sgn != 0, "is_lt": sgn < 0, "is_gt": sgn > 0,
                         "is_le": sgn <= 0, "is_ge": sgn >= 0}
                if tail in preds:
                    return ("b", preds[tail])
                if tail == "reverse":
                    return ("adt", 2 - v[1], ())
                if tail == "then":
                    w = a(1)
                    if sgn != 0:
                        return v
                    return w if (w is not None and w[0] == "adt") else UNK
                if tail == "then_with":
                    if sgn != 0:
                        return v
                    return self._apply(env, argvals[1] if len(argvals) > 1 else None, ())
            return UNK
        is_res = n.startswith("std::result::Result::<") or n.startswith("core::result::Result::<")
        is_opt = n.startswith("std::option::Option::<") or n.startswith("core::option::Option::<")
        if is_res:
            v = a(0)
            if v is None or v[0] != "adt" or v[1] not in (0, 1):
                return UNK
            f = argvals[1] if len(argvals) > 1 else None
            if tail == "map_err":
                if v[1] == 0:
                    return v
                return ("adt", 1, (self._apply(env, f, (v[2][0] if v[2] else UNK,)),))
            if tail == "map":
                if v[1] == 1:
                    return v
                return ("adt", 0, (self._apply(env, f, (v[2][0] if v[2] else UNK,)),))
            if tail == "and_then":
                if v[1] == 1:
                    return v
                return self._apply(env, f, (v[2][0] if v[2] else UNK,))
            if tail == "ok":
                return ("adt", 1, (v[2][0] if v[2] else UNK,)) if v[1] == 0 else ("adt", 0, ())
            if tail == "is_ok":
                return ("b", v[1] == 0)
            if tail == "is_err":
                return ("b", v[1] == 1)
            if tail in ("unwrap", "expect") and v[1] == 0:
                return v[2][0] if v[2] else UNK
            if tail == "unwrap_or":
                return (v[2][0] if v[2] else UNK) if v[1] == 0 else a(1)
            if tail == "unwrap_or_else":
                return (v[2][0] if v[2] else UNK) if v[1] == 0 else self._apply(env, f, (v[2][0] if v[2] else UNK,))
            if tail == "map_or":
                g = argvals[2] if len(argvals) > 2 else None
                return self._apply(env, g, (v[2][0] if v[2] else UNK,)) if v[1] == 0 else a(1)
            if tail == "map_or_else":
                g = argvals[2] if len(argvals) > 2 else None
                return self._apply(env, g if v[1] == 0 else f, (v[2][0] if v[2] else UNK,))
            if tail == "is_ok_and":
                return self._apply(env, f, (v[2][0] if v[2] else UNK,)) if v[1] == 0 else ("b", False)
            return UNK
        if is_opt:
            v = a(0)
            if v is None or v[0] != "adt" or v[1] not in (0, 1):
                return UNK
            if tail in ("as_ref", "as_mut", "as_deref"):
                # &Option<T> -> Option<&T>: the same variant, its payload behind a reference (references to values are
                # transparent here: arguments are read through them)
                return ("adt", v[1], tuple(("rv", x) if x is not None else None for x in v[2]))
            f = argvals[1] if len(argvals) > 1 else None
            if tail == "is_some":
                return ("b", v[1] == 1)
            if tail == "is_none":
                return ("b", v[1] == 0)
            if tail in ("unwrap", "expect") and v[1] == 1:
                return v[2][0]
            if tail == "map":
                if v[1] == 0:
                    return v
                return ("adt", 1, (self._apply(env, f, (v[2][0] if v[2] else UNK,)),))
            if tail == "and_then":
                if v[1] == 0:
                    return v
                return self._apply(env, f, (v[2][0] if v[2] else UNK,))
            if tail == "ok_or":
                return ("adt", 0, (v[2][0],)) if v[1] == 1 else ("adt", 1, (a(1),))
            if tail == "ok_or_else":
                return ("adt", 0, (v[2][0],)) if v[1] == 1 else ("adt", 1, (self._apply(env, f, ()),))
            if tail == "unwrap_or":
                return v[2][0] if v[1] == 1 else a(1)
            if tail == "unwrap_or_else":
                return v[2][0] if v[1] == 1 else self._apply(env, f, ())
            if tail == "map_or":
                g = argvals[2] if len(argvals) > 2 else None
                return self._apply(env, g, (v[2][0] if v[2] else UNK,)) if v[1] == 1 else a(1)
            if tail == "map_or_else":
                g = argvals[2] if len(argvals) > 2 else None
                return self._apply(env, g, (v[2][0] if v[2] else UNK,)) if v[1] == 1 else self._apply(env, f, ())
            if tail == "is_some_and":
                if v[1] == 0:
                    return ("b", False)
                return self._apply(env, f, (v[2][0] if v[2] else UNK,))
            if tail == "is_none_or":
                if v[1] == 0:
                    return ("b", True)
                return self._apply(env, f, (v[2][0] if v[2] else UNK,))
            return UNK
        if tail == "new" and "RangeInclusive" in n:
            return ("adt", 0, (a(0), a(1)))
        if tail == "contains" and ("RangeInclusive" in full or "RangeInclusive" in n):
            r, x = a(0), a(1)
            if r is None or x is None or r[0] != "adt" or len(r[2]) < 2:
                return UNK
            lo, hi = r[2][0], r[2][1]
            if lo is None or hi is None or x[0] not in ("i", "f"):
                return UNK
            return ("b", lo[1] <= x[1] <= hi[1])
        return UNK

    def _apply(self, env, f, args):
        """Result of calling the function value f (a variant constructor, or a closure / local function whose body is
        evaluated on its own with no call model) on args; UNK when that is not determined."""
        if f is None or self.crate is None:
            return UNK
        f = f[1] if f[0] == "rv" else f
        if f is None:
            return UNK
        if f[0] == "fn":
            path = f[1]
            if "::" in path:
                owner, vname = path.rsplit("::", 1)
                adt = self.crate.adts.get(owner)
                if adt:
                    for i, vv in enumerate(adt["variants"]):
                        if vv["name"] == vname and len(vv["fields"]) == len(args):
                            return ("adt", i, tuple(args))
            if path in ("std::option::Option::Some", "core::option::Option::Some") and len(args) == 1:
                return ("adt", 1, tuple(args))
            if path in ("std::result::Result::Ok", "core::result::Result::Ok") and len(args) == 1:
                return ("adt", 0, tuple(args))
            if path in ("std::result::Result::Err", "core::result::Result::Err") and len(args) == 1:
                return ("adt", 1, tuple(args))
            # a local function handed over as a value (`.and_then(name_byte)`): evaluated on its own
            fb = self.crate.bodies.get(path) or getattr(self.crate, "raw_bodies", {}).get(path)
            if fb is None or getattr(self, "_apply_depth", 0) > 3 or fb.arg_count != len(args):
                return UNK
            env2 = {}
            for i, v in enumerate(args):
                if v is not None and v[0] == "ref":
                    inner = self._read(env, v[1], list(v[2]))
                    v = ("rv", inner) if inner is not None else None
                if v is not None:
                    env2[i + 1] = v
            sub = PE(fb, self.call_model if self.model_in_closures else None, max_states=5000, eq_ok=self.eq_ok,
                     inline=self.inline, crate=self.crate)
            sub.model_in_closures = self.model_in_closures
            sub._apply_depth = getattr(self, "_apply_depth", 0) + 1
            try:
                rr = sub.run(env=env2)
            except RuntimeError:
                return UNK
            vals = {v for _, v in rr.returns}
            if len(vals) == 1 and not rr.panics:
                v = vals.pop()
                if v is not None and v[0] != "ref":
                    return v
            return UNK
        if f[0] != "clo":
            return UNK
        cb = self.crate.bodies.get(f[1]) or getattr(self.crate, "raw_bodies", {}).get(f[1])
        if cb is None or getattr(self, "_apply_depth", 0) > 3:
            return UNK
        caps = []
        for cv in f[2]:
            if cv is not None and cv[0] == "ref":
                inner = self._read(env, cv[1], list(cv[2]))
                cv = ("rv", inner) if inner is not None else None
            caps.append(cv)
        cenv = ("adt", 0, tuple(caps))
        env2 = {1: ("rv", cenv) if cb.local_ty(1).startswith("&") else cenv}
        for i, v in enumerate(args):
            if v is not None:
                if v[0] == "ref":
                    inner = self._read(env, v[1], list(v[2]))
                    v = ("rv", inner) if inner is not None else None
                if v is not None:
                    env2[i + 2] = v
        sub = PE(cb, self.call_model if self.model_in_closures else None, max_states=5000, eq_ok=self.eq_ok,
                 inline=self.inline, crate=self.crate)
        sub.model_in_closures = self.model_in_closures
        sub._apply_depth = getattr(self, "_apply_depth", 0) + 1
        try:
            rr = sub.run(env=env2)
        except RuntimeError:
            return UNK
        vals = {v for _, v in rr.returns}
        if len(vals) == 1 and not rr.panics:
            v = vals.pop()
            if v is not None and v[0] != "ref":
                return v
        return UNK

    @staticmethod
    def _fully_known(v):
        if v is None:
            return False
        if v[0] == "adt":
            return all(PE._fully_known(x) for x in v[2])
        if v[0] == "rv":
            return PE._fully_known(v[1])
        return True

    # ------------------------------------------------------------ exploration
    def _invariant_prefix(self, start, env):
        """Values, on arrival at `start`, of the locals that nothing reachable from `start` can change (a flag or an
        option read into a local in front of a loop): evaluated from the entry block with no call model. What the
        caller seeds explicitly wins."""
        body = self.body
        cache = body.__dict__.setdefault("_pe_invariants", {})
        ck = (start, frozenset((env or {}).items()))
        if ck in cache:
            return cache[ck]
        out = {}
        cache[ck] = out
        try:
            reach = body.reachable(start)
            changed = set()
            for bb in reach:
                blk = body.blocks[bb]
                for st in blk["stmts"]:
                    if st["k"] == "assign":
                        changed.add(st["place"]["l"])
                        if st["rv"]["k"] == "ref" and st["rv"].get("mutbl"):
                            changed.add(st["rv"]["place"]["l"])
                    elif "place" in st:
                        changed.add(st["place"]["l"])
                t = blk["term"]
                if t["k"] in ("call", "tailcall") and "dest" in t:
                    changed.add(t["dest"]["l"])
                if t["k"] == "drop":
                    changed.add(t["place"]["l"])
            for bb, idx, place, rv, _ in body.assignments():
                if rv["k"] == "ref" and rv.get("mutbl"):
                    changed.add(rv["place"]["l"])
            sub = PE(body, None, max_states=3000, eq_ok=self.eq_ok, crate=self.crate)
            got = []

            def hook(bb, e, first):
                if bb == start and not first:
                    got.append(dict(e))
                    return "stop"
                return None
            sub.visit_hook = hook
            try:
                sub.run(start=0, env=env, invariants=False)
            except RuntimeError:
                got = []
            if got:
                for k_, v_ in got[0].items():
                    if isinstance(k_, int) and k_ > body.arg_count and k_ not in changed and v_ is not None \
                            and all(g.get(k_) == v_ for g in got):
                        out[k_] = v_
        except RuntimeError:
            pass
        return out

    def run(self, start=0, env=None, stop=(), at_start_skip_stmts=False, invariants=True):
        res = Result()
        stop = set(stop)
        env0 = dict(env or {})
        if invariants and start != 0:
            for k_, v_ in self._invariant_prefix(start, env).items():
                env0.setdefault(k_, v_)
        work = [(start, env0, True)]
        seen = set()
        body = self.body
        while work:
            bb, env, first = work.pop()
            key = (bb, frozenset(env.items()))
            if key in seen:
                continue
            seen.add(key)
            res.states += 1
            if res.states > self.max_states:
                raise RuntimeError("peval: state budget exceeded in %s" % body.name)
            res.visited.add(bb)
            if bb in stop and not first:
                continue
            if self.visit_hook is not None and self.visit_hook(bb, env, first) == "stop":
                continue
            env = dict(env)
            blk = body.blocks[bb]
            if not (first and at_start_skip_stmts):
                for idx, s in enumerate(blk["stmts"]):
                    if s["k"] == "assign":
                        v = self.rvalue(env, s["rv"], s["place"].get("ty", ""))
                        res.assigns.setdefault((bb, idx), set()).add(v)
                        if s["rv"]["k"] == "agg":
                            res.aggs.append((bb, idx, s["rv"], tuple(self.operand(env, o) for o in s["rv"]["ops"])))
                        self._write(env, s["place"], v)
                    elif s["k"] == "setdiscr":
                        env.pop(s["place"]["l"], None)
            t = blk["term"]
            k = t["k"]
            nxt = []
            if k == "goto":
                nxt = [t["t"]]
            elif k == "switch":
                v = self.operand(env, t["discr"])
                if v is not None and v[0] in ("i", "b"):
                    x = int(v[1])
                    tgt = t["otherwise"]
                    for val, tg in t["arms"]:
                        if val == x:
                            tgt = tg
                            break
                    nxt = [tgt]
                else:
                    nxt = body.succ(bb)
                    if len(nxt) > 1:
                        res.forks.append(bb)
            elif k == "assert":
                v = self.operand(env, t["cond"])
                if v is not None and v[0] == "b" and v[1] != t["expected"]:
                    res.panics.add(bb)
                    nxt = []
                else:
                    if v is None or v[0] != "b":
                        res.assert_unknown.add(bb)
                    nxt = [t["t"]]
            elif k == "drop":
                nxt = [t["t"]]
            elif k in ("call", "tailcall"):
                c = body.call_at.get(bb)
                if c is None:
                    nxt = []
                else:
                    argvals = tuple(self.operand(env, a) for a in c.args)
                    res.calls.append((bb, c, argvals))
                    val = UNK
                    handled = False
                    if self.call_model is not None:
                        r = self.call_model(c, argvals, env, self)
                        if r is not None:
                            handled, val = r
                    if not handled:
                        val = self.builtin(env, c, argvals)
                    # &mut arguments: forget what they point to (unless the call model says it has already
                    # written the callee's effect on them: it sets pe.keep_mut_args for this one call)
                    keep = getattr(self, "keep_mut_args", False)
                    self.keep_mut_args = False
                    for ai, a in enumerate(c.args if not keep else []):
                        if a["k"] in ("copy", "move") and a["place"].get("ty", "").startswith("&mut"):
                            av = argvals[ai]
                            if av is not None and av[0] == "ref":
                                self._forget(env, av[1], list(av[2]))
                    if val == ("never",):
                        continue_path = False
                    else:
                        continue_path = True
                        self._write(env, c.dest, val)
                    if not continue_path:
                        nxt = []
                    elif c.target is None:
                        res.panics.add(bb)
                        nxt = []
                    else:
                        nxt = [c.target]
            elif k == "return":
                res.returns.append((bb, env.get(0)))
            for b in nxt:
                res.edges.add((bb, b))
                work.append((b, env, False))
        return res

"""Rule results, known findings, evidence and the VIOLATION / KNOWN-FINDING protocol."""
import json
import os
import time

VERIF = os.path.dirname(os.path.dirname(os.path.dirname(os.path.abspath(__file__))))


class Rule:
    """One rule of one property. Instances are keyed by stable strings (no line numbers)."""

    def __init__(self, prop, rid, what, floor=0, analysis=""):
        self.prop = prop
        self.id = rid
        self.what = what
        self.floor = floor
        self.analysis = analysis
        self.instances = []   # dicts: key, verdict, where, detail, nontrivial
        self.analysed = []    # free-form strings: functions / sites looked at
        self.extra = 0        # evaluations folded into grouped instances

    def ok(self, key, detail="", where="", nontrivial=True):
        self.instances.append({"key": key, "verdict": "ok", "where": where, "detail": detail,
                               "nontrivial": nontrivial})

    def bad(self, key, detail, where="", witness=None, nontrivial=True):
        self.instances.append({"key": key, "verdict": "violation", "where": where, "detail": detail,
                               "witness": witness, "nontrivial": nontrivial})

    def note(self, s):
        self.analysed.append(s)

    def missing(self, anchor, detail=""):
        """An anchor the rule needs was not found: fail closed."""
        self.bad("anchor-missing:" + anchor, "anchor not found: %s %s" % (anchor, detail), nontrivial=False)

    def count(self):
        return self.extra + len([i for i in self.instances if not i["key"].startswith("anchor-missing:")])

    def finish(self):
        n = self.count()
        if n < self.floor:
            self.bad("floor", "only %d instance(s) evaluated, floor (counted by hand on the pinned tree) is %d"
                     % (n, self.floor), nontrivial=False)


def load_known():
    p = os.path.join(VERIF, "known_findings.json")
    if not os.path.exists(p):
        return []
    with open(p) as f:
        return json.load(f)


class Report:
    def __init__(self, prop, tier, seed):
        self.prop = prop
        self.tier = tier
        self.seed = seed
        self.rules = []
        self.t0 = time.time()
        self.meta = {}
        self.extra_violations = []  # (rule, key, detail) from infrastructure failures

    def rule(self, rid, what, floor=0, analysis=""):
        r = Rule(self.prop, rid, what, floor, analysis)
        self.rules.append(r)
        return r

    def infra_failure(self, what, detail):
        self.extra_violations.append(("INFRA", what, detail))

    def finish(self, explanation, not_decided, trusted_base, checker_cmd, configs, mutants=None, crossrefs=None,
               write=True):
        for r in self.rules:
            r.finish()
        known = [k for k in load_known() if k.get("property") == self.prop and k.get("status") == "known"]
        known_keys = {(k["rule"], k["key"]): k for k in known}
        fdir = os.path.join(VERIF, "findings" if write else ".cache/alt-findings")
        os.makedirs(fdir, exist_ok=True)
        self._fdir = os.path.relpath(fdir, VERIF)
        # remove stale replay files of this property
        for f in os.listdir(fdir):
            if f.startswith(self.prop + "-"):
                os.remove(os.path.join(fdir, f))
        lines = []
        nviol = 0
        nknown = 0
        obligations = 0
        discharged = 0
        nontrivial_keys = set()
        samples = []
        per_rule = []
        for r in self.rules:
            okc = 0
            for inst in r.instances:
                obligations += 1
                if inst["verdict"] == "ok":
                    okc += 1
                    discharged += 1
                    if inst.get("nontrivial"):
                        nontrivial_keys.add((r.id, inst["key"]))
                    continue
                kk = (r.id, inst.get("cfgkey", inst["key"]))
                if kk in known_keys:
                    nknown += 1
                    lines.append("KNOWN-FINDING: property=%s %s %s: %s" % (
                        self.prop, r.id, inst["key"], known_keys[kk].get("what", inst["detail"])))
                    inst["verdict"] = "known-finding"
                    continue
                nviol += 1
                path = os.path.join(self._fdir, "%s-%s-%d.txt" % (self.prop, r.id, nviol))
                with open(os.path.join(VERIF, path), "w") as f:
                    f.write("property: %s\nrule: %s\nrule statement: %s\ninstance: %s\nwhere: %s\n\n%s\n" % (
                        self.prop, r.id, r.what, inst["key"], inst.get("where", ""), inst["detail"]))
                    if inst.get("witness"):
                        f.write("\nwitness:\n%s\n" % inst["witness"])
                    f.write("\nreplay: ./check %s --tier %s --replay %s\n" % (self.prop, self.tier, path))
                lines.append("VIOLATION property=%s replay=%s" % (self.prop, path))
                lines.append("  %s %s @ %s: %s" % (r.id, inst["key"], inst.get("where", ""), inst["detail"].split("\n")[0]))
            per_rule.append({
                "rule": r.id, "statement": r.what, "analysis": r.analysis, "floor": r.floor,
                "instances": len(r.instances), "passing": okc,
                "analysed": r.analysed[:200],
                "verdicts": [{"key": i["key"], "verdict": i["verdict"], "where": i.get("where", ""),
                              "detail": i["detail"][:300]} for i in r.instances][:400],
            })
            for i in r.instances[:3]:
                samples.append({"rule": r.id, "instance": i["key"], "where": i.get("where", ""),
                                "verdict": i["verdict"], "detail": i["detail"][:200]})
        for rid, key, detail in self.extra_violations:
            nviol += 1
            path = os.path.join(self._fdir, "%s-%s-%d.txt" % (self.prop, rid, nviol))
            with open(os.path.join(VERIF, path), "w") as f:
                f.write("property: %s\nrule: %s\ninstance: %s\n\n%s\n" % (self.prop, rid, key, detail))
            lines.append("VIOLATION property=%s replay=%s" % (self.prop, path))
            lines.append("  %s %s: %s" % (rid, key, detail.split("\n")[0][:300]))
        if mutants:
            for m in mutants:
                if m.get("status") == "survived":
                    nviol += 1
                    path = os.path.join(self._fdir, "%s-MUTANT-%d.txt" % (self.prop, nviol))
                    with open(os.path.join(VERIF, path), "w") as f:
                        f.write("property: %s\nself-test mutant survived (the rule has gone blind): %s\n%s\n" % (
                            self.prop, m.get("name"), json.dumps(m, indent=1)))
                    lines.append("VIOLATION property=%s replay=%s" % (self.prop, path))
                    lines.append("  self-test: mutant %s was not reported by %s" % (m.get("name"), m.get("expect")))
        ev = {
            "property_id": self.prop,
            "tier": self.tier,
            "seed": self.seed,
            "level": "other",
            "coverage": {
                "explanation": explanation,
                "not_decided": not_decided,
                "obligations": obligations,
                "discharged": discharged,
                "known_findings_matched": nknown,
                "evaluations": obligations,
                "distinct_nontrivial": len(nontrivial_keys),
                "rule": "one evaluation per rule instance (function, call site, field cell, byte class ...) "
                        "extracted from the current /repo tree; an instance is non-trivial when its verdict "
                        "needed a path, provenance or partial-evaluation computation rather than an existence test; "
                        "distinct = distinct (rule, instance key)",
                "samples": samples[:24],
                "checker_cmd": checker_cmd,
                "trusted_base": trusted_base,
                "configurations": configs,
                "rules": per_rule,
                "exhaustive": True,
            },
            "assumptions": trusted_base,
            "wall_s": round(time.time() - self.t0, 3),
            "violations": nviol,
        }
        ev["coverage"].update(self.meta)
        if mutants is not None:
            ev["coverage"]["mutants"] = mutants
        if crossrefs is not None:
            ev["coverage"]["cross_references"] = crossrefs
        if not write:
            return lines, nviol
        edir = os.path.join(VERIF, "evidence")
        os.makedirs(edir, exist_ok=True)
        tmp = os.path.join(edir, self.prop + ".json.tmp")
        with open(tmp, "w") as f:
            json.dump(ev, f, indent=1)
        os.replace(tmp, os.path.join(edir, self.prop + ".json"))
        return lines, nviol

"""A1: whole-crate call graph with closed-world dynamic dispatch.

Nodes are def paths of local bodies. Edges:
  * a call whose callee resolves to a local item  -> that item;
  * a call of a trait method that is not statically resolved (trait object,
    or generic receiver) -> the method of that name in *every* local impl of
    the trait (closed world: the traits are private, nothing outside can
    implement them);
  * any mention of a local fn item / closure as a value (fn pointers, closure
    aggregates) -> that fn / closure  ("may be called later");
Foreign callees are kept as leaf names (`ext` edges) for who-may-call rules.

Local impls of foreign traits (Ord, Hash, Display, FromStr, From, Drop ...)
can be entered from inside std/dependency generics that MIR does not show;
`roots_conservative()` therefore treats every such impl method as a root.
"""


class CallGraph:
    def __init__(self, crate):
        self.crate = crate
        self.local = {}   # fn -> set(local callee fn)
        self.ext = {}     # fn -> set(foreign callee names)
        self.sites = {}   # (fn, callee) -> [Call]
        trait_impl_methods = {}  # (trait, method) -> [body names]
        for imp in crate.impls:
            tr = imp.get("trait")
            if not tr:
                continue
            for it in imp["items"]:
                m = it.rsplit("::", 1)[-1]
                if it in crate.bodies:
                    trait_impl_methods.setdefault((tr, m), []).append(it)
        self.trait_impl_methods = trait_impl_methods
        # impl header text ("<U as Trait<T>>") -> {method: body}
        self.by_header = {}
        for imp in crate.impls:
            h = imp.get("trait_full")
            if h:
                for it in imp["items"]:
                    if it in crate.bodies:
                        self.by_header.setdefault(h, {})[it.rsplit("::", 1)[-1]] = it
        for name, body in crate.bodies.items():
            loc = self.local.setdefault(name, set())
            ext = self.ext.setdefault(name, set())
            for c in body.calls:
                targets = self.targets(c)
                for t in targets:
                    if t in crate.bodies:
                        loc.add(t)
                    else:
                        ext.add(t)
                    self.sites.setdefault((name, t), []).append(c)
            # fn items / closures mentioned as values
            for bb, idx, place, rv, _ in body.assignments():
                for o in _operands(rv):
                    if o.get("k") == "const" and o.get("fn") and o["fn"] in crate.bodies:
                        loc.add(o["fn"])
                    elif o.get("k") == "const" and o.get("fn") and o.get("s") in crate.bodies:
                        loc.add(o["s"])         # a trait method named through its impl: `JsonValue::from`
                if rv["k"] == "agg" and rv.get("agg") == "closure" and rv["closure"] in crate.bodies:
                    loc.add(rv["closure"])
            for c in body.calls:
                for o in c.args:
                    if o.get("k") == "const" and o.get("fn") and o["fn"] in crate.bodies:
                        loc.add(o["fn"])
                    elif o.get("k") == "const" and o.get("fn") and o.get("s") in crate.bodies:
                        loc.add(o["s"])

    def forwarded(self, c):
        """std blanket impls that forward to a local impl: Into->From, TryInto->TryFrom,
        ToString->Display, str::parse->FromStr."""
        cal = c.callee or ""
        g = c.gargs
        h = None
        m = None
        if cal == "std::convert::Into::into" and len(g) >= 2:
            h, m = "<%s as std::convert::From<%s>>" % (g[1], g[0]), "from"
        elif cal == "std::convert::TryInto::try_into" and len(g) >= 2:
            h, m = "<%s as std::convert::TryFrom<%s>>" % (g[1], g[0]), "try_from"
        elif cal == "std::string::ToString::to_string" and g:
            h, m = "<%s as std::fmt::Display>" % g[0].lstrip("&"), "fmt"
        elif cal == "core::str::<impl str>::parse" and g:
            h, m = "<%s as std::str::FromStr>" % g[0], "from_str"
        if h and h in self.by_header and m in self.by_header[h]:
            return self.by_header[h][m]
        return None

    def targets(self, c):
        """Possible callee names of a call site."""
        if c.callee is None:
            return ["<indirect>"]
        f = self.forwarded(c)
        if f:
            return [f, c.resolved or c.callee]
        if not c.is_dyn() and c.resolved:
            return [c.resolved]
        # dynamic: closed world over local impls of the trait
        tr = c.trait
        if tr:
            m = c.method()
            impls = self.trait_impl_methods.get((tr, m), [])
            if impls:
                out = list(impls)
                if tr not in self.crate.traits:
                    out.append(c.callee)   # foreign trait: foreign impls possible too
                return out
        return [c.callee]

    def reachable(self, roots):
        seen = set()
        work = [r for r in roots if r in self.local]
        seen.update(work)
        while work:
            f = work.pop()
            for g in self.local.get(f, ()):
                if g not in seen:
                    seen.add(g)
                    work.append(g)
        return seen

    def foreign_trait_impl_roots(self):
        out = []
        for (tr, m), bodies in self.trait_impl_methods.items():
            if tr not in self.crate.traits:
                out.extend(bodies)
        return out

    def callers_of(self, pred):
        """[(caller fn, Call)] for every call site one of whose targets satisfies pred(name)."""
        out = []
        roots_of = getattr(self.crate, "roots_of", None)
        inlined_view = getattr(self.crate, "bodies", None) is not getattr(self.crate, "raw_bodies", None)
        for name, body in self.crate.bodies.items():
            if inlined_view and roots_of is not None:
                rs = roots_of(name)
                if rs and rs != {name}:
                    continue      # a function new to the rules: its calls are seen in the functions it is inlined into
            for c in body.calls:
                if any(pred(t) for t in self.targets(c)):
                    out.append((name, c))
        return out


def _operands(rv):
    k = rv["k"]
    if k in ("use", "cast", "repeat"):
        return [rv["op"]]
    if k == "binop":
        return [rv["a"], rv["b"]]
    if k == "unop":
        return [rv["a"]]
    if k == "agg":
        return rv["ops"]
    return []

"""Extraction of a small state machine from a `&mut self` method by partial evaluation.

run_method(lib, body, selfv, model) partially evaluates `body` with *self seeded to `selfv` (an ("adt", 0, fields)
value with known or unknown fields), following local callees that are handed the whole `&mut self` (their effect on
self is applied), and returns the list of outcomes [(final self value, return value, events)], one per explored way to
a return. Calls are answered by `model(call, argvals, env, pe)` first (e.g. to seed what the successor stage or a
getter answers); events are whatever the model appends to the `events` list it closes over.
Nothing of jawk is executed: this is conditional constant propagation over MIR.
"""
from .peval import PE


def _is_self_reborrow(body, operand):
    """The operand is `&mut *self` / `&*self` (a reborrow of the whole receiver, local 1)."""
    if operand.get("k") not in ("copy", "move") or operand["place"]["p"]:
        return False
    l = operand["place"]["l"]
    for _ in range(4):
        defs = [rv for bb, idx, place, rv, _s in body.assignments() if place["l"] == l and not place["p"]]
        if len(defs) != 1:
            return False
        rv = defs[0]
        if rv["k"] == "ref" and rv["place"]["l"] == 1 and rv["place"]["p"] == ["deref"]:
            return True
        if rv["k"] == "ref" and rv["place"]["p"] == ["deref"]:
            l = rv["place"]["l"]
            continue
        if rv["k"] == "use" and rv["op"].get("k") in ("copy", "move") and not rv["op"]["place"]["p"]:
            l = rv["op"]["place"]["l"]
            continue
        return False
    return False


def run_method(lib, body, selfv, model=None, extra_env=None, eq_ok=None, depth=0, max_states=40000, observe=None):
    """[(final self, return value)] per distinct path outcome; with `observe` (environment keys a model uses to
    carry per-path notes, e.g. a tuple of events) each outcome is (final self, return value, notes)."""
    outcomes = []

    def m(c, av, envv, pe):
        if model is not None:
            r = model(c, av, envv, pe)
            if r is not None:
                return r
        cb = lib.bodies.get(c.name or "")
        if cb is not None and not c.is_dyn() and depth < 4 and av and av[0] is not None:
            # a local method handed `&mut *self` (or `&*self`): evaluate it on the current self value
            if _is_self_reborrow(body, c.args[0]):
                cur = pe._deref_all(envv, envv.get(1))
                if cur is not None and cur[0] == "adt":
                    sub = run_method(lib, cb, cur, model, None, eq_ok, depth + 1, max_states)
                    finals = []
                    for o in sub:
                        if o not in finals:
                            finals.append(o)
                    if len(finals) == 1:
                        s, rv = finals[0]
                        if s is not None:
                            envv[1] = ("rv", s)
                        return (True, rv)
                    # several outcomes: self becomes unknown
                    envv[1] = ("rv", ("adt", cur[1], tuple([None] * len(cur[2]))))
                    return (True, None)
        return None

    pe = PE(body, m, eq_ok=eq_ok, max_states=max_states)

    def hook(bb, e, first):
        if body.term(bb)["k"] == "return":
            if observe:
                outcomes.append((pe._deref_all(e, e.get(1)), e.get(0), tuple(e.get(k) for k in observe)))
            else:
                outcomes.append((pe._deref_all(e, e.get(1)), e.get(0)))
        return None
    pe.visit_hook = hook
    env = {1: ("rv", selfv)}
    if extra_env:
        env.update(extra_env)
    pe.run(env=env)
    # distinct outcomes only
    seen = []
    for o in outcomes:
        if o not in seen:
            seen.append(o)
    return seen

//! jawk-facts: a rustc_private driver that dumps, for one crate, the facts the
//! rule evaluators under /verif/sa/rules work on: MIR with resolved callees,
//! ADTs, statics, impls, format_args! templates and literal/literal binary ops.
//!
//! Used as RUSTC_WORKSPACE_WRAPPER (argv[1] is the real rustc and is dropped).
//! Facts are written to $JAWK_FACTS_DIR/<crate>-<lib|bin|test>.json for crates
//! whose name equals $JAWK_FACTS_CRATE (default "jawk"); every other crate is
//! compiled untouched.
#![feature(rustc_private)]
#![allow(clippy::all)]

extern crate rustc_abi;
extern crate rustc_ast;
extern crate rustc_driver;
extern crate rustc_hir;
extern crate rustc_interface;
extern crate rustc_middle;
extern crate rustc_session;
extern crate rustc_span;

mod json;
use json::J;

use rustc_ast as ast;
use rustc_driver::{Callbacks, Compilation};
use rustc_hir::def::DefKind;
use rustc_hir::def_id::{DefId, LOCAL_CRATE};
use rustc_interface::interface::Compiler;
use rustc_middle::mir::{
    self, AggregateKind, BasicBlockData, Body, Operand, Place, ProjectionElem, Rvalue,
    StatementKind, TerminatorKind,
};
use rustc_middle::ty::print::with_no_trimmed_paths;
use rustc_middle::ty::{self, Instance, Ty, TyCtxt, TypingEnv};
use rustc_span::Span;

struct Cb {
    fmt: Vec<J>,
    binlits: Vec<J>,
    active: bool,
}

fn want_crate() -> String {
    std::env::var("JAWK_FACTS_CRATE").unwrap_or_else(|_| "jawk".to_string())
}

// ---------------------------------------------------------------- spans

fn span_parts(tcx: TyCtxt<'_>, span: Span) -> (String, usize, usize, usize) {
    let sm = tcx.sess.source_map();
    let lo = sm.lookup_char_pos(span.lo());
    let hi = sm.lookup_char_pos(span.hi());
    let file = format!("{}", lo.file.name.prefer_local_unconditionally());
    (file, lo.line, lo.col.0 + 1, hi.line)
}

/// Location of the outermost call site of `span` (i.e. a position in user
/// source even for code produced by macros and desugarings), plus the chain of
/// expansions from innermost to outermost.
fn loc(tcx: TyCtxt<'_>, span: Span) -> J {
    let mut chain = Vec::new();
    let mut s = span;
    let mut guard = 0;
    while !s.ctxt().is_root() && guard < 32 {
        let d = s.ctxt().outer_expn_data();
        chain.push(J::s(match d.kind {
            rustc_span::ExpnKind::Root => "root".to_string(),
            rustc_span::ExpnKind::Macro(_, name) => format!("macro:{}", name),
            rustc_span::ExpnKind::AstPass(p) => format!("astpass:{:?}", p),
            rustc_span::ExpnKind::Desugaring(k) => format!("desugar:{:?}", k),
        }));
        s = d.call_site;
        guard += 1;
    }
    let (file, line, col, eline) = span_parts(tcx, s);
    let mut o = J::obj()
        .put("file", J::s(file))
        .put("line", J::Int(line as i128))
        .put("col", J::Int(col as i128))
        .put("eline", J::Int(eline as i128));
    if !chain.is_empty() {
        o.set("exp", J::Arr(chain));
    }
    o
}

// ---------------------------------------------------------------- types / paths

fn ty_s(ty: Ty<'_>) -> String {
    with_no_trimmed_paths!(format!("{}", ty))
}

fn path_s(tcx: TyCtxt<'_>, did: DefId) -> String {
    with_no_trimmed_paths!(tcx.def_path_str(did))
}

// ---------------------------------------------------------------- MIR

struct MirCx<'tcx, 'a> {
    tcx: TyCtxt<'tcx>,
    body: &'a Body<'tcx>,
    tenv: TypingEnv<'tcx>,
}

impl<'tcx, 'a> MirCx<'tcx, 'a> {
    fn place(&self, p: &Place<'tcx>) -> J {
        let mut proj = Vec::new();
        for e in p.projection.iter() {
            proj.push(J::s(match e {
                ProjectionElem::Deref => "deref".to_string(),
                ProjectionElem::Field(f, _) => format!("f{}", f.as_usize()),
                ProjectionElem::Index(l) => format!("idx_{}", l.as_usize()),
                ProjectionElem::ConstantIndex { offset, from_end, .. } => {
                    format!("cidx{}{}", if from_end { "-" } else { "" }, offset)
                }
                ProjectionElem::Subslice { from, to, from_end } => {
                    format!("sub{}..{}{}", from, to, if from_end { "e" } else { "" })
                }
                ProjectionElem::Downcast(name, v) => format!(
                    "dc{}:{}",
                    v.as_usize(),
                    name.map(|n| n.to_string()).unwrap_or_default()
                ),
                ProjectionElem::OpaqueCast(_) => "opaque".to_string(),
                ProjectionElem::UnwrapUnsafeBinder(_) => "unwrapbinder".to_string(),
            }));
        }
        let ty = p.ty(&self.body.local_decls, self.tcx).ty;
        J::obj()
            .put("l", J::Int(p.local.as_usize() as i128))
            .put("p", J::Arr(proj))
            .put("ty", J::s(ty_s(ty)))
    }

    fn operand(&self, o: &Operand<'tcx>) -> J {
        match o {
            Operand::Copy(p) => J::obj().put("k", J::s("copy")).put("place", self.place(p)),
            Operand::Move(p) => J::obj().put("k", J::s("move")).put("place", self.place(p)),
            Operand::Constant(c) => {
                let ty = c.const_.ty();
                // a named constant (`const QUOTE: &str = "\"";`) is printed by its value, like a literal
                let mut text = with_no_trimmed_paths!(format!("{}", c.const_));
                if let mir::Const::Unevaluated(uv, _) = c.const_ {
                    if uv.promoted.is_none() && !matches!(ty.kind(), ty::FnDef(..)) {
                        if let Ok(val) = c.const_.eval(self.tcx, self.tenv, c.span) {
                            text = with_no_trimmed_paths!(format!("{}", mir::Const::Val(val, ty)));
                        }
                    }
                }
                let mut j = J::obj()
                    .put("k", J::s("const"))
                    .put("ty", J::s(ty_s(ty)))
                    .put("s", J::s(text));
                if ty.is_integral() || ty.is_bool() || ty.is_char() || ty.is_floating_point() {
                    if let Some(si) = c.const_.try_eval_scalar_int(self.tcx, self.tenv) {
                        let size = si.size();
                        let bits = si.to_bits(size);
                        if bits <= i128::MAX as u128 {
                            j.set("bits", J::Int(bits as i128));
                        }
                        if ty.is_signed() {
                            j.set("int", J::Int(si.to_int(size)));
                        } else if !ty.is_floating_point() && bits <= i128::MAX as u128 {
                            j.set("int", J::Int(bits as i128));
                        }
                    }
                }
                if let mir::Const::Unevaluated(uv, _) = c.const_ {
                    if let Some(p) = uv.promoted {
                        j.set("promoted", J::Int(p.as_usize() as i128));
                    } else {
                        j.set("const_def", J::s(path_s(self.tcx, uv.def)));
                    }
                }
                if let ty::FnDef(did, args) = *ty.kind() {
                    j.set("fn", J::s(path_s(self.tcx, did)));
                    j.set(
                        "fn_args",
                        J::Arr(args.iter().map(|a| J::s(with_no_trimmed_paths!(format!("{}", a)))).collect()),
                    );
                }
                j
            }
            #[allow(unreachable_patterns)]
            _ => J::obj().put("k", J::s("other")).put("s", J::s(format!("{:?}", o))),
        }
    }

    fn rvalue(&self, rv: &Rvalue<'tcx>) -> J {
        match rv {
            Rvalue::Use(op, ..) => J::obj().put("k", J::s("use")).put("op", self.operand(op)),
            Rvalue::Ref(_, bk, p) => J::obj()
                .put("k", J::s("ref"))
                .put("mutbl", J::Bool(matches!(bk, mir::BorrowKind::Mut { .. })))
                .put("place", self.place(p)),
            Rvalue::RawPtr(_, p) => J::obj().put("k", J::s("rawptr")).put("place", self.place(p)),
            Rvalue::Cast(kind, op, ty) => J::obj()
                .put("k", J::s("cast"))
                .put("cast", J::s(format!("{:?}", kind)))
                .put("op", self.operand(op))
                .put("ty", J::s(ty_s(*ty))),
            Rvalue::BinaryOp(op, ab) => J::obj()
                .put("k", J::s("binop"))
                .put("op", J::s(format!("{:?}", op)))
                .put("a", self.operand(&ab.0))
                .put("b", self.operand(&ab.1)),
            Rvalue::UnaryOp(op, a) => J::obj()
                .put("k", J::s("unop"))
                .put("op", J::s(format!("{:?}", op)))
                .put("a", self.operand(a)),
            Rvalue::Discriminant(p) => J::obj().put("k", J::s("discr")).put("place", self.place(p)),
            Rvalue::CopyForDeref(p) => J::obj()
                .put("k", J::s("use"))
                .put("op", J::obj().put("k", J::s("copy")).put("place", self.place(p))),
            Rvalue::Aggregate(kind, ops) => {
                let mut j = J::obj().put("k", J::s("agg"));
                match &**kind {
                    AggregateKind::Adt(did, variant, _, _, _) => {
                        let adt = self.tcx.adt_def(*did);
                        j.set("agg", J::s("adt"));
                        j.set("adt", J::s(path_s(self.tcx, *did)));
                        j.set("variant", J::Int(variant.as_usize() as i128));
                        j.set("variant_name", J::s(adt.variant(*variant).name.to_string()));
                        j.set(
                            "fields",
                            J::Arr(
                                adt.variant(*variant)
                                    .fields
                                    .iter()
                                    .map(|f| J::s(f.name.to_string()))
                                    .collect(),
                            ),
                        );
                    }
                    AggregateKind::Tuple => j.set("agg", J::s("tuple")),
                    AggregateKind::Array(_) => j.set("agg", J::s("array")),
                    AggregateKind::Closure(did, _) => {
                        j.set("agg", J::s("closure"));
                        j.set("closure", J::s(path_s(self.tcx, *did)));
                    }
                    other => j.set("agg", J::s(format!("{:?}", other))),
                }
                j.set("ops", J::Arr(ops.iter().map(|o| self.operand(o)).collect()));
                j
            }
            Rvalue::Repeat(op, _) => J::obj().put("k", J::s("repeat")).put("op", self.operand(op)),
            Rvalue::ThreadLocalRef(did) => {
                J::obj().put("k", J::s("tls")).put("def", J::s(path_s(self.tcx, *did)))
            }
            other => J::obj().put("k", J::s("other")).put("s", J::s(format!("{:?}", other))),
        }
    }

    fn block(&self, bb: &BasicBlockData<'tcx>) -> J {
        let mut stmts = Vec::new();
        for st in &bb.statements {
            match &st.kind {
                StatementKind::Assign(b) => {
                    let (p, rv) = &**b;
                    stmts.push(
                        J::obj()
                            .put("k", J::s("assign"))
                            .put("place", self.place(p))
                            .put("rv", self.rvalue(rv))
                            .put("loc", loc(self.tcx, st.source_info.span)),
                    );
                }
                StatementKind::SetDiscriminant { place, variant_index } => {
                    stmts.push(
                        J::obj()
                            .put("k", J::s("setdiscr"))
                            .put("place", self.place(place))
                            .put("variant", J::Int(variant_index.as_usize() as i128))
                            .put("loc", loc(self.tcx, st.source_info.span)),
                    );
                }
                StatementKind::StorageLive(_)
                | StatementKind::StorageDead(_)
                | StatementKind::Nop
                | StatementKind::FakeRead(..)
                | StatementKind::PlaceMention(..)
                | StatementKind::AscribeUserType(..)
                | StatementKind::Coverage(..)
                | StatementKind::ConstEvalCounter => {}
                other => {
                    stmts.push(
                        J::obj()
                            .put("k", J::s("other"))
                            .put("s", J::s(format!("{:?}", other)))
                            .put("loc", loc(self.tcx, st.source_info.span)),
                    );
                }
            }
        }
        let term = bb.terminator();
        let t = match &term.kind {
            TerminatorKind::Goto { target } => {
                J::obj().put("k", J::s("goto")).put("t", J::Int(target.as_usize() as i128))
            }
            TerminatorKind::SwitchInt { discr, targets } => {
                let mut arms = Vec::new();
                for (v, t) in targets.iter() {
                    let vi = if v <= i128::MAX as u128 { v as i128 } else { -1 };
                    arms.push(J::Arr(vec![J::Int(vi), J::Int(t.as_usize() as i128)]));
                }
                J::obj()
                    .put("k", J::s("switch"))
                    .put("discr", self.operand(discr))
                    .put("arms", J::Arr(arms))
                    .put("otherwise", J::Int(targets.otherwise().as_usize() as i128))
            }
            TerminatorKind::Return => J::obj().put("k", J::s("return")),
            TerminatorKind::Unreachable => J::obj().put("k", J::s("unreachable")),
            TerminatorKind::UnwindResume => J::obj().put("k", J::s("resume")),
            TerminatorKind::UnwindTerminate(_) => J::obj().put("k", J::s("terminate")),
            TerminatorKind::Drop { place, target, unwind, .. } => J::obj()
                .put("k", J::s("drop"))
                .put("place", self.place(place))
                .put("t", J::Int(target.as_usize() as i128))
                .put("unwind", self.unwind(unwind)),
            TerminatorKind::Call { func, args, destination, target, unwind, fn_span, .. } => {
                let mut j = J::obj().put("k", J::s("call"));
                self.callee(func, &mut j);
                j.set("args", J::Arr(args.iter().map(|a| self.operand(&a.node)).collect()));
                j.set("dest", self.place(destination));
                j.set(
                    "t",
                    match target {
                        Some(t) => J::Int(t.as_usize() as i128),
                        None => J::Null,
                    },
                );
                j.set("unwind", self.unwind(unwind));
                j.set("fn_loc", loc(self.tcx, *fn_span));
                j
            }
            TerminatorKind::TailCall { func, args, .. } => {
                let mut j = J::obj().put("k", J::s("tailcall"));
                self.callee(func, &mut j);
                j.set("args", J::Arr(args.iter().map(|a| self.operand(&a.node)).collect()));
                j
            }
            TerminatorKind::Assert { cond, expected, msg, target, unwind } => J::obj()
                .put("k", J::s("assert"))
                .put("cond", self.operand(cond))
                .put("expected", J::Bool(*expected))
                .put("msg", J::s(format!("{:?}", msg)))
                .put(
                    "msg_kind",
                    J::s(match &**msg {
                        mir::AssertKind::BoundsCheck { .. } => "bounds".to_string(),
                        mir::AssertKind::Overflow(op, ..) => format!("overflow:{:?}", op),
                        mir::AssertKind::OverflowNeg(..) => "overflow:Neg".to_string(),
                        mir::AssertKind::DivisionByZero(..) => "divzero".to_string(),
                        mir::AssertKind::RemainderByZero(..) => "remzero".to_string(),
                        other => format!("other:{:?}", other),
                    }),
                )
                .put("t", J::Int(target.as_usize() as i128))
                .put("unwind", self.unwind(unwind)),
            TerminatorKind::FalseEdge { real_target, .. } => {
                J::obj().put("k", J::s("goto")).put("t", J::Int(real_target.as_usize() as i128))
            }
            TerminatorKind::FalseUnwind { real_target, .. } => {
                J::obj().put("k", J::s("goto")).put("t", J::Int(real_target.as_usize() as i128))
            }
            other => J::obj().put("k", J::s("other")).put("s", J::s(format!("{:?}", other))),
        };
        J::obj()
            .put("stmts", J::Arr(stmts))
            .put("term", t.put("loc", loc(self.tcx, term.source_info.span)))
            .put("cleanup", J::Bool(bb.is_cleanup))
    }

    fn unwind(&self, u: &mir::UnwindAction) -> J {
        match u {
            mir::UnwindAction::Cleanup(b) => J::Int(b.as_usize() as i128),
            other => J::s(format!("{:?}", other)),
        }
    }

    fn callee(&self, func: &Operand<'tcx>, j: &mut J) {
        if let Some((did, gargs)) = func.const_fn_def() {
            j.set("callee", J::s(path_s(self.tcx, did)));
            j.set(
                "callee_full",
                J::s(with_no_trimmed_paths!(self.tcx.def_path_str_with_args(did, gargs))),
            );
            j.set(
                "gargs",
                J::Arr(gargs.iter().map(|a| J::s(with_no_trimmed_paths!(format!("{}", a)))).collect()),
            );
            j.set("callee_local", J::Bool(did.is_local()));
            if let Some(tr) = self.tcx.trait_of_assoc(did) {
                j.set("callee_trait", J::s(path_s(self.tcx, tr)));
            }
            match Instance::try_resolve(self.tcx, self.tenv, did, gargs) {
                Ok(Some(inst)) => {
                    let rid = inst.def_id();
                    j.set("resolved", J::s(path_s(self.tcx, rid)));
                    j.set(
                        "resolved_full",
                        J::s(with_no_trimmed_paths!(self.tcx.def_path_str_with_args(rid, inst.args))),
                    );
                    j.set("resolved_local", J::Bool(rid.is_local()));
                    j.set(
                        "resolved_kind",
                        J::s(match inst.def {
                            ty::InstanceKind::Item(_) => "item".to_string(),
                            ty::InstanceKind::Virtual(..) => "virtual".to_string(),
                            ty::InstanceKind::Intrinsic(_) => "intrinsic".to_string(),
                            other => format!("{:?}", other).split('(').next().unwrap_or("").to_string(),
                        }),
                    );
                }
                _ => {
                    j.set("resolved", J::Null);
                }
            }
        } else {
            j.set("callee", J::Null);
            j.set("indirect", self.operand(func));
        }
    }
}

fn dump_body<'tcx>(tcx: TyCtxt<'tcx>, did: DefId, body: &Body<'tcx>) -> J {
    let cx = MirCx { tcx, body, tenv: TypingEnv::post_analysis(tcx, did) };
    let mut names: Vec<Option<String>> = vec![None; body.local_decls.len()];
    for v in &body.var_debug_info {
        if let mir::VarDebugInfoContents::Place(p) = &v.value {
            if p.projection.is_empty() {
                names[p.local.as_usize()] = Some(v.name.to_string());
            }
        }
    }
    let mut locals = Vec::new();
    for (i, d) in body.local_decls.iter_enumerated() {
        locals.push(
            J::obj()
                .put("ty", J::s(ty_s(d.ty)))
                .put("name", J::opt_s(names[i.as_usize()].clone()))
                .put("mut", J::Bool(d.mutability.is_mut())),
        );
    }
    let mut dbg = Vec::new();
    for v in &body.var_debug_info {
        dbg.push(
            J::obj()
                .put("name", J::s(v.name.to_string()))
                .put(
                    "value",
                    match &v.value {
                        mir::VarDebugInfoContents::Place(p) => cx.place(p),
                        mir::VarDebugInfoContents::Const(c) => J::s(format!("{}", c.const_)),
                    },
                )
                .put("arg", match v.argument_index {
                    Some(i) => J::Int(i as i128),
                    None => J::Null,
                }),
        );
    }
    let blocks: Vec<J> = body.basic_blocks.iter().map(|b| cx.block(b)).collect();
    let mut promoted = Vec::new();
    if body.source.promoted.is_none() {
        for pb in tcx.promoted_mir(did).iter() {
            promoted.push(dump_body(tcx, did, pb));
        }
    }
    J::obj()
        .put("promoted", J::Arr(promoted))
        .put("arg_count", J::Int(body.arg_count as i128))
        .put("locals", J::Arr(locals))
        .put("debug", J::Arr(dbg))
        .put("blocks", J::Arr(blocks))
        .put("loc", loc(tcx, body.span))
}

// ---------------------------------------------------------------- items

fn dump_items<'tcx>(tcx: TyCtxt<'tcx>) -> (J, J, J, J, J, J) {
    let mut fns = Vec::new();
    let mut adts = Vec::new();
    let mut statics = Vec::new();
    let mut aliases = Vec::new();
    let mut traits = Vec::new();
    let mut impls = Vec::new();
    let ev = tcx.effective_visibilities(());
    for ldid in tcx.hir_crate_items(()).definitions() {
        let did = ldid.to_def_id();
        let kind = tcx.def_kind(did);
        let name = path_s(tcx, did);
        match kind {
            DefKind::Fn | DefKind::AssocFn | DefKind::Closure => {
                let mut j = J::obj()
                    .put("path", J::s(name.clone()))
                    .put("kind", J::s(format!("{:?}", kind)))
                    .put("loc", loc(tcx, tcx.def_span(did)))
                    .put("reachable", J::Bool(ev.is_reachable(ldid)));
                let (file, line, _c, eline) = span_parts(tcx, tcx.hir_span_with_body(tcx.local_def_id_to_hir_id(ldid)));
                j.set("body_file", J::s(file));
                j.set("body_line", J::Int(line as i128));
                j.set("body_eline", J::Int(eline as i128));
                if let Some(p) = tcx.opt_parent(did) {
                    j.set("parent", J::s(path_s(tcx, p)));
                }
                if matches!(kind, DefKind::Fn | DefKind::AssocFn) {
                    j.set("vis_public", J::Bool(tcx.visibility(did).is_public()));
                }
                if let Some(imp) = tcx.impl_of_assoc(did) {
                    j.set("impl", J::s(path_s(tcx, imp)));
                    j.set("impl_self", J::s(ty_s(tcx.type_of(imp).instantiate_identity().skip_norm_wip())));
                    if let Some(tr) = tcx.impl_opt_trait_ref(imp) {
                        let tr = tr.instantiate_identity().skip_norm_wip();
                        j.set("impl_trait", J::s(path_s(tcx, tr.def_id)));
                        j.set("impl_trait_full", J::s(with_no_trimmed_paths!(format!("{}", tr))));
                    }
                    j.set("derived", J::Bool(tcx.is_automatically_derived(imp)));
                }
                if let Some(tr) = tcx.trait_of_assoc(did) {
                    j.set("trait_item_of", J::s(path_s(tcx, tr)));
                }
                fns.push(j);
            }
            DefKind::Struct | DefKind::Enum | DefKind::Union => {
                let adt = tcx.adt_def(did);
                let mut variants = Vec::new();
                for v in adt.variants() {
                    let mut fields = Vec::new();
                    for f in &v.fields {
                        fields.push(
                            J::obj()
                                .put("name", J::s(f.name.to_string()))
                                .put("ty", J::s(ty_s(tcx.type_of(f.did).instantiate_identity().skip_norm_wip()))),
                        );
                    }
                    variants.push(
                        J::obj().put("name", J::s(v.name.to_string())).put("fields", J::Arr(fields)),
                    );
                }
                adts.push(
                    J::obj()
                        .put("path", J::s(name))
                        .put("kind", J::s(format!("{:?}", kind)))
                        .put("variants", J::Arr(variants))
                        .put("reachable", J::Bool(ev.is_reachable(ldid)))
                        .put("loc", loc(tcx, tcx.def_span(did))),
                );
            }
            DefKind::Static { mutability, .. } => {
                statics.push(
                    J::obj()
                        .put("path", J::s(name))
                        .put("ty", J::s(ty_s(tcx.type_of(did).instantiate_identity().skip_norm_wip())))
                        .put("mut", J::Bool(mutability.is_mut()))
                        .put("loc", loc(tcx, tcx.def_span(did))),
                );
            }
            DefKind::TyAlias => {
                aliases.push(
                    J::obj()
                        .put("path", J::s(name))
                        .put("ty", J::s(ty_s(tcx.type_of(did).instantiate_identity().skip_norm_wip()))),
                );
            }
            DefKind::Trait => {
                traits.push(
                    J::obj()
                        .put("path", J::s(name))
                        .put("reachable", J::Bool(ev.is_reachable(ldid)))
                        .put("vis_public", J::Bool(tcx.visibility(did).is_public())),
                );
            }
            DefKind::Impl { of_trait } => {
                let mut j = J::obj()
                    .put("path", J::s(name))
                    .put("self", J::s(ty_s(tcx.type_of(did).instantiate_identity().skip_norm_wip())))
                    .put("derived", J::Bool(tcx.is_automatically_derived(did)))
                    .put("loc", loc(tcx, tcx.def_span(did)));
                if of_trait {
                    let tr = tcx.impl_trait_ref(did).instantiate_identity().skip_norm_wip();
                    j.set("trait", J::s(path_s(tcx, tr.def_id)));
                    j.set("trait_full", J::s(with_no_trimmed_paths!(format!("{}", tr))));
                }
                let items: Vec<J> = tcx
                    .associated_item_def_ids(did)
                    .iter()
                    .map(|d| J::s(path_s(tcx, *d)))
                    .collect();
                j.set("items", J::Arr(items));
                impls.push(j);
            }
            _ => {}
        }
    }
    (J::Arr(fns), J::Arr(adts), J::Arr(statics), J::Arr(aliases), J::Arr(traits), J::Arr(impls))
}

// ---------------------------------------------------------------- AST facts

struct AstV<'a, 'tcx> {
    tcx: TyCtxt<'tcx>,
    fmt: &'a mut Vec<J>,
    binlits: &'a mut Vec<J>,
}

fn lit_j(l: &ast::token::Lit) -> J {
    J::obj()
        .put("kind", J::s(format!("{:?}", l.kind)))
        .put("sym", J::s(l.symbol.to_string()))
        .put("suffix", J::opt_s(l.suffix.map(|s| s.to_string())))
}

impl<'a, 'tcx, 'ast> ast::visit::Visitor<'ast> for AstV<'a, 'tcx> {
    fn visit_expr(&mut self, e: &'ast ast::Expr) {
        match &e.kind {
            ast::ExprKind::FormatArgs(fa) => {
                let mut pieces = Vec::new();
                for p in &fa.template {
                    match p {
                        ast::FormatArgsPiece::Literal(s) => {
                            pieces.push(J::obj().put("lit", J::s(s.to_string())));
                        }
                        ast::FormatArgsPiece::Placeholder(ph) => {
                            let o = &ph.format_options;
                            let cnt = |c: &Option<ast::FormatCount>| match c {
                                None => J::Null,
                                Some(ast::FormatCount::Literal(n)) => J::Int(*n as i128),
                                Some(ast::FormatCount::Argument(_)) => J::s("arg"),
                            };
                            let idx = match ph.argument.index {
                                Ok(i) => i as i128,
                                Err(_) => -1,
                            };
                            let arg_loc = match ph.argument.index {
                                Ok(i) => fa
                                    .arguments
                                    .all_args()
                                    .get(i)
                                    .map(|a| loc(self.tcx, a.expr.span))
                                    .unwrap_or(J::Null),
                                Err(_) => J::Null,
                            };
                            pieces.push(
                                J::obj()
                                    .put("ph", J::s(format!("{:?}", ph.format_trait)))
                                    .put("arg", J::Int(idx))
                                    .put("arg_loc", arg_loc)
                                    .put("width", cnt(&o.width))
                                    .put("precision", cnt(&o.precision))
                                    .put("fill", J::opt_s(o.fill.map(|c| c.to_string())))
                                    .put("align", J::opt_s(o.alignment.map(|a| format!("{:?}", a))))
                                    .put("sign", J::opt_s(o.sign.map(|a| format!("{:?}", a))))
                                    .put("alternate", J::Bool(o.alternate))
                                    .put("zero_pad", J::Bool(o.zero_pad))
                                    .put("debug_hex", J::opt_s(o.debug_hex.map(|a| format!("{:?}", a)))),
                            );
                        }
                    }
                }
                self.fmt.push(
                    J::obj()
                        .put("loc", loc(self.tcx, e.span))
                        .put("nargs", J::Int(fa.arguments.all_args().len() as i128))
                        .put("pieces", J::Arr(pieces)),
                );
            }
            ast::ExprKind::Binary(op, l, r) => {
                if let (ast::ExprKind::Lit(a), ast::ExprKind::Lit(b)) = (&l.kind, &r.kind) {
                    self.binlits.push(
                        J::obj()
                            .put("op", J::s(format!("{:?}", op.node)))
                            .put("a", lit_j(a))
                            .put("b", lit_j(b))
                            .put("loc", loc(self.tcx, e.span)),
                    );
                }
            }
            _ => {}
        }
        ast::visit::walk_expr(self, e);
    }
}

// ---------------------------------------------------------------- callbacks

impl Callbacks for Cb {
    fn after_expansion<'tcx>(&mut self, _c: &Compiler, tcx: TyCtxt<'tcx>) -> Compilation {
        let name = tcx.crate_name(LOCAL_CRATE).to_string();
        self.active = name == want_crate() && std::env::var("JAWK_FACTS_DIR").is_ok();
        if self.active {
            let resolver = tcx.resolver_for_lowering().borrow();
            let krate = &resolver.1;
            let mut v = AstV { tcx, fmt: &mut self.fmt, binlits: &mut self.binlits };
            ast::visit::walk_crate(&mut v, krate);
        }
        Compilation::Continue
    }

    fn after_analysis<'tcx>(&mut self, _c: &Compiler, tcx: TyCtxt<'tcx>) -> Compilation {
        if !self.active {
            return Compilation::Continue;
        }
        let name = tcx.crate_name(LOCAL_CRATE).to_string();
        let kind = if tcx.sess.is_test_crate() {
            "test"
        } else if tcx.crate_types().iter().any(|t| matches!(t, rustc_session::config::CrateType::Executable)) {
            "bin"
        } else {
            "lib"
        };
        let (fns, adts, statics, aliases, traits, impls) = dump_items(tcx);
        let mut mir_o = Vec::new();
        for ldid in tcx.mir_keys(()) {
            let did = ldid.to_def_id();
            match tcx.def_kind(did) {
                DefKind::Fn | DefKind::AssocFn | DefKind::Closure => {}
                _ => continue,
            }
            let body = tcx.optimized_mir(did);
            mir_o.push((path_s(tcx, did), dump_body(tcx, did, body)));
        }
        let cfg: Vec<J> = Vec::new();
        let out = J::obj()
            .put("crate", J::s(name.clone()))
            .put("kind", J::s(kind))
            .put("cfg", J::Arr(cfg))
            .put("debug_assertions", J::Bool(tcx.sess.opts.debug_assertions))
            .put("overflow_checks", J::Bool(tcx.sess.overflow_checks()))
            .put("fns", fns)
            .put("adts", adts)
            .put("statics", statics)
            .put("aliases", aliases)
            .put("traits", traits)
            .put("impls", impls)
            .put("fmt", J::Arr(std::mem::take(&mut self.fmt)))
            .put("binlits", J::Arr(std::mem::take(&mut self.binlits)))
            .put("mir", J::Obj(mir_o));
        let mut s = String::new();
        out.write(&mut s);
        let dir = std::env::var("JAWK_FACTS_DIR").unwrap();
        let path = format!("{}/{}-{}.json", dir, name, kind);
        let tmp = format!("{}.tmp{}", path, std::process::id());
        std::fs::write(&tmp, s).expect("write facts");
        std::fs::rename(&tmp, &path).expect("rename facts");
        Compilation::Continue
    }
}

fn main() {
    let mut args: Vec<String> = std::env::args().collect();
    // RUSTC_WORKSPACE_WRAPPER: argv = [driver, rustc, args...]
    if args.len() > 1 && (args[1].ends_with("rustc") || args[1].contains("/rustc")) {
        args.remove(1);
    }
    let mut cb = Cb { fmt: Vec::new(), binlits: Vec::new(), active: false };
    rustc_driver::run_compiler(&args, &mut cb);
}
